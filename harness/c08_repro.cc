// Standalone reproductions (bundled two-boxes geometry, no harness) for the three FieldPropagator /
// FieldDriver findings of check C08.  Not part of ./check.  Build and run:
// g++ -std=c++17 -O2 -w -I/repo/src -I/verif/build/rel/celeritas/include -isystem /root/miniconda/include harness/c08_repro.cc \
//     -L/verif/build/rel/celeritas/lib -Wl,-rpath,/verif/build/rel/celeritas/lib -lceleritas -lorange -lgeocel -lcorecel && CELER_LOG=error ./a.out
#include <cmath>
#include <cstdio>
#include <memory>
#include "corecel/data/CollectionStateStore.hh"
#include "orange/OrangeParams.hh"
#include "orange/OrangeTrackView.hh"
#include "celeritas/Units.hh"
#include "celeritas/field/DormandPrinceStepper.hh"
#include "celeritas/field/RungeKuttaStepper.hh"
#include "celeritas/field/FieldDriverOptions.hh"
#include "celeritas/field/MakeMagFieldPropagator.hh"
#include "celeritas/field/UniformField.hh"
#include "celeritas/phys/ParticleParams.hh"
#include "celeritas/phys/ParticleTrackView.hh"
using namespace celeritas;
int main()
{
    std::string repo = getenv("VERIF_REPO") ? getenv("VERIF_REPO") : "/repo";
    OrangeParams geop(repo + "/test/geocel/data/two-boxes.org.json");  // inner +-5, world +-10
    CollectionStateStore<OrangeStateData, MemSpace::host> gs(geop.host_ref(), 1);
    ParticleParams::Input defs = {{"electron", pdg::electron(), units::MevMass{0.5109989461},
                                   units::ElementaryCharge{-1}, 0.0}};
    ParticleParams pp(std::move(defs));
    CollectionStateStore<ParticleStateData, MemSpace::host> ps(pp.host_ref(), 1);
    ParticleTrackView particle(pp.host_ref(), ps.ref(), TrackSlotId{0});
    auto set_radius = [&](double B_gauss, double R_cm) {
        double p = 2.99792458e-4 * B_gauss * R_cm, m = 0.5109989461;
        particle = ParticleTrackView::Initializer_t{ParticleId{0}, units::MevEnergy{p * p / (std::sqrt(p * p + m * m) + m)}};
    };
    {
        printf("--- 1: direction kink when the boundary is within minimum_step of the start ---\n");
        set_radius(1e4, 1.0);  // 1 T, gyroradius 1 cm
        OrangeTrackView geo(geop.host_ref(), gs.ref(), TrackSlotId{0});
        geo = GeoTrackInitializer{{5 - 5e-7, 0, 0}, {1, 0, 0}};
        UniformField field({0, 0, 1e4});
        FieldDriverOptions opts;
        auto r = make_mag_field_propagator<DormandPrinceStepper>(field, opts, particle, geo)(1.0);
        printf("distance=%.6g boundary=%d  dir=(%.6f, %.6f, %.6f)   expected dir ~ (1, +-5e-7, 0): the track moved 5e-7 cm on a 1 cm radius\n",
               r.distance, r.boundary, geo.dir()[0], geo.dir()[1], geo.dir()[2]);
    }
    {
        printf("--- 2: a full turn is accepted as one substep (sagitta 2R = 0.1 cm > delta_chord = 0.025 cm) ---\n");
        set_radius(1e4, 0.05);  // 21.5 keV electron in 1 T
        OrangeTrackView geo(geop.host_ref(), gs.ref(), TrackSlotId{0});
        geo = GeoTrackInitializer{{5.00005, 1, 0.5}, {0, 1, 0}};  // in 'world', 0.5 um outside 'inner', curving into it
        UniformField field({0, 0, 1e4});
        FieldDriverOptions opts;
        auto r = make_mag_field_propagator<RungeKuttaStepper>(field, opts, particle, geo)(10.0);
        printf("distance=%.6g boundary=%d pos=(%.6f, %.6f, %.6f)   analytic first crossing of x=5 is at arc length %.6g; one turn = %.6g\n",
               r.distance, r.boundary, geo.pos()[0], geo.pos()[1], geo.pos()[2],
               0.05 * std::acos(1 - 5e-5 / 0.05), 2 * M_PI * 0.05);
    }
    {
        printf("--- 3: max_nsteps exhausted in find_next_chord: returned step and state disagree ---\n");
        set_radius(1e4, 50.0);
        OrangeTrackView geo(geop.host_ref(), gs.ref(), TrackSlotId{0});
        double const s3 = 1 / std::sqrt(3.0);
        geo = GeoTrackInitializer{{0.3, -0.2, 0.1}, {-s3, -s3, -s3}};
        UniformField field({1e4, 0, 0});
        FieldDriverOptions opts;
        opts.max_nsteps = 3;
        Real3 p0 = geo.pos();
        auto r = make_mag_field_propagator<DormandPrinceStepper>(field, opts, particle, geo)(25.0);
        double moved = std::sqrt(std::pow(geo.pos()[0] - p0[0], 2) + std::pow(geo.pos()[1] - p0[1], 2) + std::pow(geo.pos()[2] - p0[2], 2));
        printf("reported distance=%.6g boundary=%d but straight-line displacement=%.6g (> arc length is impossible)\n",
               r.distance, r.boundary, moved);
    }
}
