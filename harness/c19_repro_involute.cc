// Minimal reproduction for the C19 finding "reader:involute-crash".
//
//   g++ -std=c++17 -O2 -I/repo/src -I/verif/build/rel/celeritas/include \
//       -isystem /root/miniconda/include harness/c19_repro_involute.cc -o /tmp/c19_repro \
//       -L/verif/build/rel/celeritas/lib -Wl,-rpath,/verif/build/rel/celeritas/lib \
//       -lorange -lgeocel -lcorecel && CELER_LOG=error /tmp/c19_repro
//
// to_json(OrangeInput) writes an Involute surface as type "inv" (InputBuilder produces such
// inputs, and three bundled files contain them: test/orange/data/inputbuilder-involute*.org.json).
// from_json -> detail::import_zipped_surfaces -> SurfaceEmplacer -> visit_surface_type(…, inv)
// reaches `case SurfaceType::inv: CELER_ASSERT_UNREACHABLE();` (orange/surf/SurfaceTypeTraits.hh):
//   * CELERITAS_DEBUG=OFF (release, also /repo/_build): undefined behaviour, observed SIGSEGV;
//   * CELERITAS_DEBUG=ON: DebugError "unreachable" instead of a "not implemented" message.
// Expected: the text written by to_json reads back to an equal OrangeInput (or at least a clean
// CELER_NOT_IMPLEMENTED as in SurfacesRecordBuilder.cc).
// Proposed fix (reader-local, OrangeInputIOImpl.json.cc, SurfaceEmplacer::operator()):
//     if (st == SurfaceType::inv) {
//         surfaces->emplace_back(std::in_place_type<Involute>,
//                                Involute::StorageSpan{data.data(), data.size()});
//         return;
//     }
// (verified in a scratch worktree: with it all involute inputs round-trip bit-exactly and the
//  check reports 0 violations).
#include <iostream>
#include <nlohmann/json.hpp>

#include "orange/OrangeInput.hh"
#include "orange/OrangeInputIO.json.hh"
#include "orange/surf/Involute.hh"

using namespace celeritas;

int main()
{
    UnitInput u;
    u.label = Label{"u"};
    u.bbox = BBox{{-5, -5, -1}, {5, 5, 1}};
    u.surfaces.push_back(Involute({0, 0}, 1.0, 0.5, Chirality::left, 0.25, 3.0));
    u.surface_labels.push_back(Label{"blade"});
    VolumeInput v;
    v.label = Label{"v"};
    v.faces = {LocalSurfaceId{0}};
    v.logic = {0};
    v.zorder = ZOrder::media;
    v.bbox = BBox::from_infinite();
    u.volumes.push_back(v);
    OrangeInput in;
    in.universes.push_back(u);
    in.tol = Tolerance<>::from_default();

    nlohmann::json j = in;  // fine: {"types":["inv"],"sizes":[6],"data":[...]}
    std::cout << "written: " << j["universes"][0]["surfaces"].dump() << std::endl;
    OrangeInput back;
    j.get_to(back);  // <- crashes here
    std::cout << "read back " << back.universes.size() << " universe(s)" << std::endl;
    return 0;
}
