// C11 - the reported safety distance is conservative.
//
// E4 lattice over (geometry zoo) x (interior lattice points, plus points reached by navigation:
// segment midpoints along rays) : s = find_safety() must satisfy
//   (a) s >= 0 and not NaN;
//   (b) for every direction of the alphabet the navigator's own distance to boundary from
//       that point is >= s (1 - 1e-10)                       [property: "every ray travels at
//       least the safety distance before the navigator reports a boundary"];
//   (c) every point of a Fibonacci sphere of radius 0.999 s around the point is located by
//       the independent oracle in the same volume at every level [".. a sphere of that
//       radius contains only points of the same volume"].
// find_safety(max) (documented as the same quantity restricted to nearby surfaces) must obey
// the same bounds.
#include <cmath>
#include <string>
#include <vector>

#include "orange/detail/LevelStateAccessor.hh"
#include "engine/harness.hh"
#include "oracle/geo_oracle.hh"
#include "problems/geo_zoo.hh"

using namespace celeritas;
using vf::fmt;
using vf::GeoEnv;
using vf::OLocation;
using D3 = std::array<double, 3>;

static std::string d3s(D3 const& a)
{
    return fmt("[%.17g,%.17g,%.17g]", a[0], a[1], a[2]);
}
static D3 unit3(D3 v)
{
    double n = std::sqrt(v[0] * v[0] + v[1] * v[1] + v[2] * v[2]);
    return {v[0] / n, v[1] / n, v[2] / n};
}
static std::string chain_of(OLocation const& l)
{
    std::string s;
    for (auto const& lv : l.levels)
        s += fmt("%d:%d/", lv.universe, lv.local_volume);
    return s;
}
static std::vector<D3> fibonacci(int n)
{
    std::vector<D3> v;
    double const ga = M_PI * (3 - std::sqrt(5.0));
    for (int i = 0; i < n; ++i)
    {
        double z = 1 - 2 * (i + 0.5) / n;
        double r = std::sqrt(1 - z * z);
        v.push_back({r * std::cos(ga * i), r * std::sin(ga * i), z});
    }
    return v;
}
static std::vector<D3> directions(bool thorough)
{
    std::vector<D3> v;
    for (int i = -1; i <= 1; ++i)
        for (int j = -1; j <= 1; ++j)
            for (int k = -1; k <= 1; ++k)
                if (i || j || k)
                    v.push_back(unit3({double(i), double(j), double(k)}));
    auto f = fibonacci(thorough ? 36 : 12);
    // rotate the Fibonacci set a little so that it is not aligned with the axes
    for (auto d : f)
        v.push_back(unit3({d[0] + 0.013 * d[1], d[1] - 0.027 * d[2], d[2] + 0.031 * d[0]}));
    return v;
}

struct Ctx
{
    vf::Run& R;
    GeoEnv& env;
    double scale, eps_amb;
    std::vector<D3> const& dirs;
    std::vector<D3> const& sphere;
};

// Evaluate the three claims at point p (already known to be unambiguously inside `loc0`)
static void check_point(Ctx& c, D3 const& p, OLocation const& loc0, std::string const& cid,
                        char const* how)
{
    vf::Run& R = c.R;
    auto v = c.env.view(0);
    D3 d0 = c.dirs[0];
    v = GeoTrackInitializer{Real3{p[0], p[1], p[2]}, Real3{d0[0], d0[1], d0[2]}};
    if (v.failed() || v.is_outside())
    {
        // C03's business; not a safety claim
        R.count("skipped_init");
        return;
    }
    std::string here = chain_of(loc0);
    double s = v.find_safety();
    double s2 = v.find_safety(0.5 * c.scale);
    R.count("transitions", 2);
    R.count("evaluations");
    if (!(s >= 0) || !(s2 >= 0))
    {
        R.violation("safety:negative-or-nan", cid,
                    fmt("geometry %s point %s (%s): find_safety=%g find_safety(max)=%g",
                        c.env.name.c_str(), d3s(p).c_str(), how, s, s2));
        return;
    }
    double sm = std::max(s, std::isfinite(s2) ? s2 : 0.0);
    if (!std::isfinite(s))
    {
        R.tag("safety:infinite");
        sm = std::isfinite(s2) ? s2 : 0;
    }
    if (sm == 0)
        R.tag("safety:zero(no simple safety)");
    else
    {
        R.tag("safety:positive");
        R.nontrivial(vf::hash_mix(vf::hash_str(c.env.name), vf::hash_str(here)));
    }
    // (b) navigator's own distances
    for (size_t di = 0; di < c.dirs.size(); ++di)
    {
        D3 d = c.dirs[di];
        v = GeoTrackInitializer{Real3{p[0], p[1], p[2]}, Real3{d[0], d[1], d[2]}};
        Propagation prop = v.find_next_step();
        R.count("transitions");
        if (prop.distance < sm * (1 - 1e-10))
        {
            R.violation("safety:exceeds-distance-to-boundary", cid,
                        fmt("geometry %s point %s (%s) in %s: safety %.17g (find_safety(max) "
                            "%.17g) but along %s the boundary is at %.17g",
                            c.env.name.c_str(), d3s(p).c_str(), how, here.c_str(), s, s2,
                            d3s(d).c_str(), prop.distance));
            return;
        }
    }
    // (c) oracle: the sphere of radius 0.999 sm lies in the same volume chain
    if (sm > 0 && std::isfinite(sm))
    {
        double r = 0.999 * sm;
        for (auto const& u : c.sphere)
        {
            D3 q = {p[0] + r * u[0], p[1] + r * u[1], p[2] + r * u[2]};
            OLocation lq = c.env.oracle->locate(q, c.eps_amb);
            if (lq.status != OLocation::ok)
            {
                R.count("skipped_ambiguous");
                continue;
            }
            R.count("oracle_sphere_points");
            if (chain_of(lq) != here)
            {
                R.violation("safety:sphere-leaves-volume", cid,
                            fmt("geometry %s point %s (%s) in %s: safety %.17g but the point %s at "
                                "distance %.17g is in %s (%s)",
                                c.env.name.c_str(), d3s(p).c_str(), how, here.c_str(), sm,
                                d3s(q).c_str(), r, chain_of(lq).c_str(),
                                c.env.oracle->volume_name(lq.global_volume).c_str()));
                return;
            }
        }
    }
}

int main(int argc, char** argv)
{
    vf::Run R(argc, argv, "C11", "c11_safety");
    bool const thorough = R.thorough();
    auto zoo = vf::zoo_entries(true);
    int const n = thorough ? 9 : 5;
    auto dirs = directions(thorough);
    auto sphere = fibonacci(thorough ? 200 : 64);
    uint64_t outer = 0;
    for (size_t gi = 0; gi < zoo.size(); ++gi)
    {
        std::unique_ptr<GeoEnv> env;
        for (int ip = 0; ip < n * n * n; ++ip, ++outer)
        {
            if (!R.mine(outer))
                continue;
            if (R.expired())
                break;
            if (!env)
            {
                try
                {
                    env = vf::zoo_make(zoo[gi]);
                }
                catch (std::exception const& e)
                {
                    R.tag("geometry-load-failed:" + zoo[gi].name);
                    break;
                }
                if (!env->oracle->supported() || env->oracle->has_duplicate_surfaces())
                {
                    R.tag("geometry-not-judged:" + zoo[gi].name);
                    break;
                }
                R.tag("geometry:" + zoo[gi].name);
            }
            double scale = env->scale();
            double tol = std::max(env->oracle->tol_abs(), env->oracle->tol_rel() * scale);
            Ctx c{R, *env, scale, 10 * tol, dirs, sphere};
            int ix = ip / (n * n), iy = (ip / n) % n, iz = ip % n;
            D3 p = {env->lo[0] + (ix + 0.5 + 0.0137) / n * (env->hi[0] - env->lo[0]),
                    env->lo[1] + (iy + 0.5 - 0.0271) / n * (env->hi[1] - env->lo[1]),
                    env->lo[2] + (iz + 0.5 + 0.0319) / n * (env->hi[2] - env->lo[2])};
            std::string cid = fmt("safety:%s:p=%d", zoo[gi].name.c_str(), ip);
            if (!R.want(cid))
                continue;
            OLocation l0 = env->oracle->locate(p, c.eps_amb);
            if (l0.status != OLocation::ok || l0.outside)
            {
                R.count("starts_skipped");
                continue;
            }
            R.begin_case(cid, 60);
            check_point(c, p, l0, cid, "lattice point");
            // points reached by navigation: midpoints of the first segments along 3 rays
            for (size_t di : {size_t(0), size_t(13), dirs.size() - 1})
            {
                auto v = env->view(0);
                D3 d = dirs[di];
                v = GeoTrackInitializer{Real3{p[0], p[1], p[2]}, Real3{d[0], d[1], d[2]}};
                for (int seg = 0; seg < 3 && !v.is_outside() && !v.failed(); ++seg)
                {
                    Propagation prop = v.find_next_step();
                    if (!prop.boundary || !(prop.distance > 0))
                        break;
                    if (prop.distance > 20 * c.eps_amb)
                    {
                        v.move_internal(0.5 * prop.distance);
                        D3 q = {v.pos()[0], v.pos()[1], v.pos()[2]};
                        // safety from the *navigated* state (not re-initialised)
                        double s = v.find_safety();
                        OLocation lq = env->oracle->locate(q, c.eps_amb);
                        if (lq.status == OLocation::ok && !lq.outside)
                        {
                            R.tag("point:navigated");
                            // the navigated state must report the same safety as a fresh one
                            auto w = env->view(1);
                            w = GeoTrackInitializer{Real3{q[0], q[1], q[2]}, Real3{d[0], d[1], d[2]}};
                            double sf = w.find_safety();
                            if (!w.failed() && std::fabs(s - sf) > 1e-9 * scale * (1 + sf))
                            {
                                R.violation("safety:navigated-state-differs", cid,
                                            fmt("geometry %s at %s: safety from navigated state "
                                                "%.17g, from fresh state %.17g",
                                                env->name.c_str(), d3s(q).c_str(), s, sf));
                            }
                            check_point(c, q, lq, cid, "segment midpoint");
                        }
                        v = GeoTrackInitializer{Real3{q[0], q[1], q[2]}, Real3{d[0], d[1], d[2]}};
                        prop = v.find_next_step();
                        if (!prop.boundary)
                            break;
                    }
                    v.move_to_boundary();
                    v.cross_boundary();
                }
            }
            R.end_case();
        }
    }
    R.sample("safety:g4:p=62 = lattice point 62 of the three-level geometry g4: find_safety vs "
             "find_next_step over the direction alphabet and vs the oracle on a Fibonacci sphere");
    R.sample("safety:simple-cms:p=31 + midpoints of the first 3 segments along 3 rays");
    return R.finish();
}
