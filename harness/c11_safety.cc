// C11 - the reported safety distance is conservative.
//
// E4 lattice over (geometry zoo) x (interior lattice points, plus points reached by navigation:
// segment midpoints along rays) : s = find_safety() must satisfy
//   (a) s >= 0 and not NaN;
//   (b) for every direction of the alphabet the navigator's own distance to boundary from
//       that point is >= s (1 - 1e-10)                       [property: "every ray travels at
//       least the safety distance before the navigator reports a boundary"];
//   (c) every point of a Fibonacci sphere of radius 0.999 s around the point is located by
//       the independent oracle in the same volume at every level [".. a sphere of that
//       radius contains only points of the same volume"].
//   (d) at points the oracle placed at distance delta from a surface point X behind which it
//       locates another volume (oracle/geo_samples.hh): s <= delta + probe (the true distance to
//       the nearest boundary is at most |p - X|), and the direction towards X joins alphabet (b).
// find_safety(max) (documented as the same quantity restricted to nearby surfaces) must obey
// the same bounds, for a max above and a max below the safety.
// (4) exactly degenerate points of the stored surfaces (sphere centres, points on cylinder axes of
// every universe instance): ordinary interior points where the surface normal does not exist.
// An INFINITE safety is judged like any other value: (b) fails for every finite distance.  Only
// when every direction of the alphabet is unbounded as well is it tagged and accepted.
//
// Points: (1) n^3 offset lattice over the probe box; (2) one representative per distinct oracle
// chain (every volume of every nested universe instance the oracle scan finds: small volumes
// through per-universe critical-coordinate grids); (3) next to every face of the located volume
// at every level, both sides, two or three distances.  (1)+(2) also contribute the midpoints of
// the first 3 segments along 3 rays, reached by navigation (find, move_internal(d/2)); there
// the navigated state must report the same safety as a fresh state, also after a following
// move_internal(position) and set_dir.
#include <cmath>
#include <string>
#include <vector>

#include "orange/detail/LevelStateAccessor.hh"
#include "engine/harness.hh"
#include "oracle/geo_oracle.hh"
#include "oracle/geo_samples.hh"
#include "problems/geo_zoo.hh"

using namespace celeritas;
using vf::fmt;
using vf::GeoEnv;
using vf::OLocation;
using D3 = std::array<double, 3>;

static std::string d3s(D3 const& a)
{
    return fmt("[%.17g,%.17g,%.17g]", a[0], a[1], a[2]);
}
static D3 unit3(D3 v)
{
    double n = std::sqrt(v[0] * v[0] + v[1] * v[1] + v[2] * v[2]);
    return {v[0] / n, v[1] / n, v[2] / n};
}
static std::string chain_of(OLocation const& l)
{
    std::string s;
    for (auto const& lv : l.levels)
        s += fmt("%d:%d/", lv.universe, lv.local_volume);
    return s;
}
static std::vector<D3> fibonacci(int n)
{
    std::vector<D3> v;
    double const ga = M_PI * (3 - std::sqrt(5.0));
    for (int i = 0; i < n; ++i)
    {
        double z = 1 - 2 * (i + 0.5) / n;
        double r = std::sqrt(1 - z * z);
        v.push_back({r * std::cos(ga * i), r * std::sin(ga * i), z});
    }
    return v;
}
static std::vector<D3> directions(bool thorough)
{
    std::vector<D3> v;
    for (int i = -1; i <= 1; ++i)
        for (int j = -1; j <= 1; ++j)
            for (int k = -1; k <= 1; ++k)
                if (i || j || k)
                    v.push_back(unit3({double(i), double(j), double(k)}));
    auto f = fibonacci(thorough ? 36 : 12);
    // rotate the Fibonacci set a little so that it is not aligned with the axes
    for (auto d : f)
        v.push_back(unit3({d[0] + 0.013 * d[1], d[1] - 0.027 * d[2], d[2] + 0.031 * d[0]}));
    return v;
}

struct Ctx
{
    vf::Run& R;
    GeoEnv& env;
    double scale, eps_amb;
    std::vector<D3> const& dirs;
    std::vector<D3> const& sphere;
};

//! Extra knowledge about an oracle-placed point: a surface point X at distance `delta` in
//! direction `toward`, behind which (at delta + probe) the oracle locates another volume
struct Known
{
    bool have{false};
    D3 toward{};
    double delta{0}, probe{0};
    bool confirmed{false};
    std::string what;
};

//! With a Verdict the violation is returned to the caller instead of being reported
struct Verdict
{
    bool violated{false};
    std::string sig, msg;
};

// Evaluate the claims at point p (already known to be unambiguously inside `loc0`)
static void check_point(Ctx& c, D3 const& p, OLocation const& loc0, std::string const& cid,
                        char const* how, Known const* known = nullptr, Verdict* verdict = nullptr)
{
    vf::Run& R0 = c.R;
    // local reporter: same interface as the two Run calls used below
    struct Rep
    {
        vf::Run& R;
        Verdict* v;
        void violation(std::string const& sig, std::string const& cid, std::string const& msg)
        {
            if (v)
            {
                v->violated = true;
                v->sig = sig;
                v->msg = msg;
            }
            else
                R.violation(sig, cid, msg);
        }
        void count(char const* k, uint64_t n = 1) { R.count(k, n); }
        void tag(std::string const& t) { R.tag(t); }
        void nontrivial(uint64_t h) { R.nontrivial(h); }
        void harness_error(std::string const& m) { R.harness_error(m); }
    } R{R0, verdict};
    auto v = c.env.view(0);
    D3 d0 = c.dirs[0];
    v = GeoTrackInitializer{Real3{p[0], p[1], p[2]}, Real3{d0[0], d0[1], d0[2]}};
    if (v.failed() || v.is_outside())
    {
        // C03's business; not a safety claim
        R.count("skipped_init");
        return;
    }
    std::string here = chain_of(loc0);
    double s = v.find_safety();
    double s2 = v.find_safety(0.5 * c.scale);
    // a limit BELOW the safety (when it is finite and positive)
    double s3 = (std::isfinite(s) && s > 0) ? v.find_safety(0.1 * s) : s;
    R.count("transitions", 3);
    R.count("evaluations");
    if (!(s >= 0) || !(s2 >= 0) || !(s3 >= 0))
    {
        R.violation("safety:negative-or-nan", cid,
                    fmt("geometry %s point %s (%s): find_safety=%g find_safety(max)=%g "
                        "find_safety(0.1 s)=%g",
                        c.env.name.c_str(), d3s(p).c_str(), how, s, s2, s3));
        return;
    }
    // every reported value is a claim: judge the largest (an infinite one included)
    double sm = std::max({s, s2, s3});
    if (sm == 0)
        R.tag("safety:zero(no simple safety)");
    else
    {
        R.tag(std::isfinite(sm) ? "safety:positive" : "safety:infinite-claimed");
        R.nontrivial(vf::hash_mix(vf::hash_str(c.env.name), vf::hash_str(here)));
    }
    // (d) exact bound from the oracle's surface point
    if (known && known->have && known->confirmed)
    {
        R.count("known_boundary_bounds");
        double bound = (known->delta + known->probe) * (1 + 1e-9);
        if (sm > bound)
        {
            R.violation("safety:exceeds-distance-to-known-boundary-point", cid,
                        fmt("geometry %s point %s (%s) in %s: safety %.17g (find_safety(max) %.17g, "
                            "%.17g) but %s lies at distance %.17g along %s and the oracle locates "
                            "another volume %.3g behind it",
                            c.env.name.c_str(), d3s(p).c_str(), how, here.c_str(), s, s2, s3,
                            known->what.c_str(), known->delta, d3s(known->toward).c_str(),
                            known->probe));
            return;
        }
    }
    // (b) navigator's own distances
    bool any_finite = false;
    size_t const ndir = c.dirs.size() + ((known && known->have) ? 1 : 0);
    for (size_t di = 0; di < ndir; ++di)
    {
        D3 d = di < c.dirs.size() ? c.dirs[di] : known->toward;
        v = GeoTrackInitializer{Real3{p[0], p[1], p[2]}, Real3{d[0], d[1], d[2]}};
        Propagation prop = v.find_next_step();
        R.count("transitions");
        any_finite = any_finite || std::isfinite(prop.distance);
        // (for sm = inf: inf * (1 - 1e-10) = inf, every finite distance violates)
        if (prop.distance < sm * (1 - 1e-10))
        {
            R.violation("safety:exceeds-distance-to-boundary", cid,
                        fmt("geometry %s point %s (%s) in %s: safety %.17g (find_safety(max) "
                            "%.17g, %.17g) but along %s the boundary is at %.17g",
                            c.env.name.c_str(), d3s(p).c_str(), how, here.c_str(), s, s2, s3,
                            d3s(d).c_str(), prop.distance));
            return;
        }
    }
    if (!std::isfinite(sm))
    {
        // reached only when no direction of the alphabet meets a boundary at all
        R.tag("safety:infinite(unbounded in every direction of the alphabet)");
        if (any_finite)
            R.harness_error("infinite safety passed the distance comparison");
        return;
    }
    // (c) oracle: the sphere of radius 0.999 sm lies in the same volume chain
    if (sm > 0)
    {
        double r = 0.999 * sm;
        for (auto const& u : c.sphere)
        {
            D3 q = {p[0] + r * u[0], p[1] + r * u[1], p[2] + r * u[2]};
            OLocation lq = c.env.oracle->locate(q, c.eps_amb);
            if (lq.status != OLocation::ok)
            {
                R.count("skipped_ambiguous");
                continue;
            }
            R.count("oracle_sphere_points");
            if (chain_of(lq) != here)
            {
                R.violation("safety:sphere-leaves-volume", cid,
                            fmt("geometry %s point %s (%s) in %s: safety %.17g but the point %s at "
                                "distance %.17g is in %s (%s)",
                                c.env.name.c_str(), d3s(p).c_str(), how, here.c_str(), sm,
                                d3s(q).c_str(), r, chain_of(lq).c_str(),
                                c.env.oracle->volume_name(lq.global_volume).c_str()));
                return;
            }
        }
    }
}

//! The navigated state must report the same safety as a freshly initialised one
static void compare_fresh(Ctx& c, OrangeTrackView& v, D3 const& d, std::string const& cid,
                          char const* after)
{
    D3 q = {v.pos()[0], v.pos()[1], v.pos()[2]};
    double s = v.find_safety();
    auto w = c.env.view(1);
    w = GeoTrackInitializer{Real3{q[0], q[1], q[2]}, Real3{d[0], d[1], d[2]}};
    if (w.failed())
        return;
    double sf = w.find_safety();
    c.R.count("navigated_vs_fresh");
    bool same = (s == sf) || std::fabs(s - sf) <= 1e-9 * c.scale * (1 + sf);
    if (!same)
    {
        c.R.violation("safety:navigated-state-differs", cid,
                      fmt("geometry %s at %s (%s): safety from navigated state %.17g, from fresh "
                          "state %.17g",
                          c.env.name.c_str(), d3s(q).c_str(), after, s, sf));
    }
}

//! A lattice point / chain representative: the point itself + points reached by navigation
static void run_point(Ctx& c, D3 const& p, OLocation const& l0, std::string const& cid,
                      char const* how)
{
    vf::Run& R = c.R;
    GeoEnv* env = &c.env;
    auto const& dirs = c.dirs;
    check_point(c, p, l0, cid, how);
    // points reached by navigation: midpoints of the first segments along 3 rays
    for (size_t di : {size_t(0), size_t(13), dirs.size() - 1})
    {
        auto v = env->view(0);
        D3 d = dirs[di];
        v = GeoTrackInitializer{Real3{p[0], p[1], p[2]}, Real3{d[0], d[1], d[2]}};
        for (int seg = 0; seg < 3 && !v.is_outside() && !v.failed(); ++seg)
        {
            Propagation prop = v.find_next_step();
            if (!prop.boundary || !(prop.distance > 0))
                break;
            if (prop.distance > 20 * c.eps_amb)
            {
                v.move_internal(0.5 * prop.distance);
                D3 q = {v.pos()[0], v.pos()[1], v.pos()[2]};
                OLocation lq = env->oracle->locate(q, c.eps_amb);
                if (lq.status == OLocation::ok && !lq.outside)
                {
                    R.tag("point:navigated");
                    // safety from the *navigated* state (not re-initialised)
                    compare_fresh(c, v, d, cid, "after find_next_step, move_internal(d/2)");
                    check_point(c, q, lq, cid, "segment midpoint");
                    // ... and after the MSC-style displacement move_internal(position) (a
                    // quarter of the remaining step, inside the same volume) and a set_dir
                    v = GeoTrackInitializer{Real3{q[0], q[1], q[2]}, Real3{d[0], d[1], d[2]}};
                    Propagation p2 = v.find_next_step();
                    if (p2.boundary && p2.distance > 20 * c.eps_amb)
                    {
                        D3 q2 = {q[0] + 0.25 * p2.distance * d[0], q[1] + 0.25 * p2.distance * d[1],
                                 q[2] + 0.25 * p2.distance * d[2]};
                        OLocation l2 = env->oracle->locate(q2, c.eps_amb);
                        if (l2.status == OLocation::ok && chain_of(l2) == chain_of(lq))
                        {
                            v.move_internal(Real3{q2[0], q2[1], q2[2]});
                            compare_fresh(c, v, d, cid, "after move_internal(position)");
                            D3 nd = dirs[(di + 7) % dirs.size()];
                            v.set_dir(Real3{nd[0], nd[1], nd[2]});
                            compare_fresh(c, v, nd, cid, "after move_internal(position), set_dir");
                        }
                    }
                }
                v = GeoTrackInitializer{Real3{q[0], q[1], q[2]}, Real3{d[0], d[1], d[2]}};
                prop = v.find_next_step();
                if (!prop.boundary)
                    break;
            }
            v.move_to_boundary();
            v.cross_boundary();
        }
    }
}

static char const* surface_type_name(vf::GeoOracle const& o, int universe, int surface)
{
    if (surface < 0)
        return "array-wall";
    return celeritas::to_cstring(o.universe(universe).surfaces[surface].type);
}

int main(int argc, char** argv)
{
    vf::Run R(argc, argv, "C11", "c11_safety");
    bool const thorough = R.thorough();
    auto zoo = vf::zoo_entries(true, true);
    int const n = thorough ? 9 : 5;
    auto dirs = directions(thorough);
    auto sphere = fibonacci(thorough ? 200 : 64);
    vf::OSampleOptions sopt;
    sopt.lattice = 17;
    sopt.per_face = thorough ? 4 : 1;
    if (thorough)
    {
        sopt.lattice = 31;
        sopt.cand_per_chain = 48;
        sopt.deltas = {0.001, 0.003, 0.02, 0.08};
    }
    uint64_t outer = 0;
    for (size_t gi = 0; gi < zoo.size(); ++gi)
    {
        if (R.expired())
            break;
        // every shard needs the geometry: the oracle-placed points are enumerated from it
        std::unique_ptr<GeoEnv> env;
        try
        {
            env = vf::zoo_make(zoo[gi]);
        }
        catch (std::exception const& e)
        {
            R.tag("geometry-load-failed:" + zoo[gi].name);
            continue;
        }
        if (!env->oracle->supported() || env->oracle->has_duplicate_surfaces())
        {
            R.tag("geometry-not-judged:" + zoo[gi].name);
            continue;
        }
        R.tag("geometry:" + zoo[gi].name);
        double scale = env->scale();
        double tol = std::max(env->oracle->tol_abs(), env->oracle->tol_rel() * scale);
        Ctx c{R, *env, scale, 10 * tol, dirs, sphere};
        auto samples = vf::oracle_samples(*env->oracle, env->lo, env->hi, c.eps_amb, scale, sopt);
        auto degen = vf::degenerate_points(*env->oracle, env->lo, env->hi, scale);
        int const nlat = n * n * n;
        int const total = nlat + int(samples.size()) + int(degen.size());
        for (int ip = 0; ip < total; ++ip, ++outer)
        {
            if (!R.mine(outer))
                continue;
            if (R.expired())
                break;
            if (ip >= nlat + int(samples.size()))
            {
                // exactly degenerate point of a stored surface (sphere centre / cylinder axis)
                int k = ip - nlat - int(samples.size());
                vf::ODegenerate const& dg = degen[k];
                std::string cid = fmt("safety:%s:degenerate=%d", zoo[gi].name.c_str(), k);
                if (!R.want(cid))
                    continue;
                OLocation l0 = env->oracle->locate(dg.p, c.eps_amb);
                if (l0.status != OLocation::ok || l0.outside)
                {
                    R.count("starts_skipped");
                    continue;
                }
                R.begin_case(cid, 60);
                R.tag(dg.axis ? "point:on-cylinder-axis" : "point:sphere-centre");
                R.count("degenerate_points");
                Verdict a;
                check_point(c, dg.p, l0, cid, dg.axis ? "exactly on a cylinder axis" : "exactly at a sphere centre",
                            nullptr, &a);
                if (a.violated)
                {
                    // the same claims 1e-6 x scale beside the point (off the axis / centre): if they
                    // hold there, the failure belongs to the degenerate-normal branch alone
                    D3 q = {dg.p[0] + 0.61e-6 * scale, dg.p[1] - 0.53e-6 * scale, dg.p[2] + 0.59e-6 * scale};
                    OLocation lq = env->oracle->locate(q, c.eps_amb);
                    Verdict b;
                    if (lq.status == OLocation::ok && chain_of(lq) == chain_of(l0))
                        check_point(c, q, lq, cid, "beside the degenerate point", nullptr, &b);
                    else
                        b.violated = true;  // cannot tell: keep the generic signature
                    if (!b.violated)
                        R.violation("safety:face-ignored-at-exact-" + std::string(dg.axis ? "cylinder-axis" : "sphere-centre"),
                                    cid,
                                    a.msg + fmt(" [surface %d (%s) of universe %d; the claims hold 1e-6 x "
                                                "scale beside the point]",
                                                dg.surface,
                                                celeritas::to_cstring(
                                                    env->oracle->universe(dg.universe).surfaces[dg.surface].type),
                                                dg.universe));
                    else
                        R.violation(a.sig, cid, a.msg);
                }
                R.end_case();
                continue;
            }
            if (ip < nlat)
            {
                int ix = ip / (n * n), iy = (ip / n) % n, iz = ip % n;
                D3 p = {env->lo[0] + (ix + 0.5 + 0.0137) / n * (env->hi[0] - env->lo[0]),
                        env->lo[1] + (iy + 0.5 - 0.0271) / n * (env->hi[1] - env->lo[1]),
                        env->lo[2] + (iz + 0.5 + 0.0319) / n * (env->hi[2] - env->lo[2])};
                std::string cid = fmt("safety:%s:p=%d", zoo[gi].name.c_str(), ip);
                if (!R.want(cid))
                    continue;
                OLocation l0 = env->oracle->locate(p, c.eps_amb);
                if (l0.status != OLocation::ok || l0.outside)
                {
                    R.count("starts_skipped");
                    continue;
                }
                R.begin_case(cid, 60);
                run_point(c, p, l0, cid, "lattice point");
                R.end_case();
                continue;
            }
            vf::OSample const& sm = samples[ip - nlat];
            OLocation l0 = env->oracle->locate(sm.p, c.eps_amb);
            if (l0.status != OLocation::ok || l0.outside)
                R.harness_error("oracle sample is not located unambiguously");
            if (sm.kind == vf::OSample::chain_rep)
            {
                std::string cid = fmt("safety:%s:chain=%d", zoo[gi].name.c_str(), ip - nlat);
                if (!R.want(cid))
                    continue;
                R.begin_case(cid, 60);
                R.tag(fmt("point:chain-representative:depth=%zu", l0.levels.size()));
                R.count("chain_representatives");
                run_point(c, sm.p, l0, cid, "chain representative");
                R.end_case();
            }
            else
            {
                std::string cid = fmt("safety:%s:face=%d", zoo[gi].name.c_str(), ip - nlat);
                if (!R.want(cid))
                    continue;
                R.begin_case(cid, 60);
                char const* st = surface_type_name(*env->oracle, sm.universe, sm.surface);
                R.tag(fmt("point:next-to-face:%s:level=%d", st, sm.level));
                R.count("face_points");
                Known k;
                k.have = true;
                k.toward = sm.toward;
                k.delta = sm.delta;
                k.probe = sm.probe;
                k.confirmed = sm.boundary_confirmed;
                k.what = fmt("the point %s of surface %d (%s) of universe %d (level %d)",
                             d3s(sm.foot).c_str(), sm.surface, st, sm.universe, sm.level);
                check_point(c, sm.p, l0, cid, "next to a face", &k);
                R.end_case();
            }
        }
    }
    R.sample("safety:g4:p=62 = lattice point 62 of the three-level geometry g4: find_safety vs "
             "find_next_step over the direction alphabet and vs the oracle on a Fibonacci sphere");
    R.sample("safety:simple-cms:p=31 + midpoints of the first 3 segments along 3 rays");
    R.sample("safety:g4:chain=4 = oracle-placed representative of one volume chain of g4 (e.g. the "
             "box inside the rotated leaf universe) + navigated midpoints");
    R.sample("safety:g3.1:face=40 = oracle-placed point at 0.003/0.02 x scale from a face of the "
             "located volume (here inside the rotated daughter), with the exact bound s <= delta");
    return R.finish();
}
