// C12 part "xform": transforms preserve the point set of every surface.
//
//  alg:*    Translation / Transformation / SignedPermutation: transform_up == M x + t (own long
//           double model of the matrix handed to the constructor), transform_down o transform_up
//           == id, rotate_down o rotate_up == id, calc_inverse, make_rotation == Rodrigues formula
//           re-derived in long double, SignedPermutation == explicit +-1 matrix (exact),
//           make_permutation(Axis, QuarterTurn) == own integer rotation model == make_rotation.
//  <type>#i every surface instance x every transform of the alphabet: the sense computed by the
//           *transformed* surface (SurfaceTranslator for Translation, SurfaceTransformer for
//           Transformation) at transform_up(x) equals the sign of the ORIGINAL implicit function
//           (long double, from the original surface.data()) at x, for all lattice points and
//           for points 2^-12 and 2^-24 either side of generated on-surface points.
//  simp:*   SurfaceSimplifier (default tolerance 1e-10, thorough also 1e-6), applied repeatedly
//           until it reports "no simplification": the region {sense == s} is the same before
//           and after (the simplifier may flip s; it says so through the Sense pointer).
//           Special instances sit on the decision boundaries: offsets below the tolerance (must
//           snap) and between the tolerance and its square root (must not snap: the 2^-24 ring
//           [2^-12 ring for tol 1e-6] of near-surface points lies inside the shell a wrongly
//           snapped surface sweeps).
//  tsimp:*  TransformSimplifier output moves no lattice point by more than the tolerance.
//
// Rounding model for the transformed sense: the transformed coefficients are sums of <= 16
// products of the original coefficients with entries of M and t; evaluated at x' they are bounded
// by  B = SA L^2 + SF L + |K|,  L = |x'| + |t| + |o|  (SA, SF = sums of |second/cross| and |first|
// coefficients).  A point is used only when |f(x)| > 3 * 256 eps B.
#include "oracle/c12_quadric.hh"
#include "problems/c12_surfaces.hh"

namespace
{
//---------------------------------------------------------------------------//
struct XF
{
    std::string name;
    bool is_translation = false;
    Translation tr;
    Transformation tf;
    ld M[3][3];
    ld t[3];
    ld tnorm = 0;
};

using Mat3 = SquareMatrixReal3;

static XF make_xf(std::string name, Mat3 const& m, std::array<double, 3> t)
{
    XF x;
    x.name = std::move(name);
    x.tf = Transformation{m, Real3{t[0], t[1], t[2]}};
    for (int i = 0; i < 3; ++i)
    {
        for (int j = 0; j < 3; ++j)
            x.M[i][j] = m[i][j];
        x.t[i] = t[i];
    }
    x.tnorm = sqrtl(x.t[0] * x.t[0] + x.t[1] * x.t[1] + x.t[2] * x.t[2]);
    return x;
}
static XF make_translation(std::string name, std::array<double, 3> t, bool as_translation)
{
    Mat3 id{Real3{1, 0, 0}, Real3{0, 1, 0}, Real3{0, 0, 1}};
    XF x = make_xf(std::move(name), id, t);
    x.is_translation = as_translation;
    x.tr = Translation{Real3{t[0], t[1], t[2]}};
    if (!as_translation)
        x.tf = Transformation{x.tr};  // "promote from a translation"
    return x;
}

//! Rodrigues rotation about unit axis n by angle 2 pi turn, long double
static void rodrigues(ld const n[3], ld turn, ld R[3][3])
{
    ld th = 2 * PI_L * turn;
    ld c = cosl(th), s = sinl(th);
    // exact values for multiples of 1/8 turn are not needed: tolerance covers 1 ulp
    ld K[3][3] = {{0, -n[2], n[1]}, {n[2], 0, -n[0]}, {-n[1], n[0], 0}};
    for (int i = 0; i < 3; ++i)
        for (int j = 0; j < 3; ++j)
            R[i][j] = (i == j ? c : 0) + (1 - c) * n[i] * n[j] + s * K[i][j];
}

struct PermInfo
{
    int perm[3];
    int sign[3];
    int det;
};
static std::vector<PermInfo> signed_perms()
{
    std::vector<PermInfo> r;
    int p[3] = {0, 1, 2};
    do
    {
        int inv = (p[0] > p[1]) + (p[0] > p[2]) + (p[1] > p[2]);
        for (int m = 0; m < 8; ++m)
        {
            PermInfo pi;
            int d = (inv % 2) ? -1 : 1;
            for (int i = 0; i < 3; ++i)
            {
                pi.perm[i] = p[i];
                pi.sign[i] = (m >> i) & 1 ? -1 : 1;
                d *= pi.sign[i];
            }
            pi.det = d;
            r.push_back(pi);
        }
    } while (std::next_permutation(p, p + 3));
    return r;
}
static Mat3 perm_matrix(PermInfo const& pi)
{
    Mat3 m;
    for (int i = 0; i < 3; ++i)
    {
        m[i] = Real3{0, 0, 0};
        m[i][pi.perm[i]] = pi.sign[i];
    }
    return m;
}

static std::vector<XF> transform_alphabet(bool thorough)
{
    std::vector<XF> r;
    std::vector<std::array<double, 3>> ts = {{1, 0, 0},
                                             {0, -2, 0},
                                             {0, 0, 0.5},
                                             {1, -2, 0.5},
                                             {-0.25, 3, 1},
                                             {1e3, 0, 0},
                                             {1e3, -1e3, 2e3},
                                             {0x1p-20, 0, 0},
                                             {0, 0, 0}};
    int k = 0;
    for (auto const& t : ts)
    {
        r.push_back(make_translation(fmt("translation%d", k), t, true));
        r.push_back(make_translation(fmt("translation%d-as-transformation", k), t, false));
        ++k;
    }
    k = 0;
    for (auto const& pi : signed_perms())
    {
        Mat3 m = perm_matrix(pi);
        r.push_back(make_xf(fmt("signedperm%d(det%+d)", k, pi.det), m, {0, 0, 0}));
        r.push_back(make_xf(fmt("signedperm%d(det%+d)+t", k, pi.det), m, {1, -2, 0.5}));
        ++k;
    }
    // reflections: Householder I - 2 n n^T
    k = 0;
    ld const ns[][3] = {{1, 1, 0}, {1, 2, 3}, {0.6L, 0, 0.8L}};
    for (auto const& nv : ns)
    {
        double n[3];
        normalize(nv, n);
        Mat3 m;
        for (int i = 0; i < 3; ++i)
            for (int j = 0; j < 3; ++j)
                m[i][j] = double((i == j ? 1.0L : 0.0L) - 2 * ld(n[i]) * ld(n[j]));
        r.push_back(make_xf(fmt("reflection%d", k), m, {0, 0, 0}));
        r.push_back(make_xf(fmt("reflection%d+t", k), m, {1, -2, 0.5}));
        ++k;
    }
    // generic rotations (built by the real make_rotation; checked against Rodrigues in alg:*)
    {
        double n1[3], n2[3];
        ld v1[3] = {1, 2, 3}, v2[3] = {1, 1, 0};
        normalize(v1, n1);
        normalize(v2, n2);
        std::vector<std::pair<std::string, Mat3>> rots = {
            {"rot(1,2,3;0.3)", make_rotation(Real3{n1[0], n1[1], n1[2]}, Turn{0.3})},
            {"rot(z;0.125)", make_rotation(Axis::z, Turn{0.125})},
            {"rot(1,1,0;1/3)", make_rotation(Real3{n2[0], n2[1], n2[2]}, Turn{1.0 / 3})},
            {"rot(x;0.1)*rot(z;0.375)", make_rotation(Axis::x, Turn{0.1}, make_rotation(Axis::z, Turn{0.375}))},
        };
        std::vector<std::array<double, 3>> tt = {{0, 0, 0}, {1, -2, 0.5}};
        if (thorough)
            tt.push_back({1e3, -1e3, 2e3});
        for (auto const& rm : rots)
            for (auto const& t : tt)
                r.push_back(make_xf(rm.first + fmt("+t(%g,%g,%g)", t[0], t[1], t[2]), rm.second, t));
    }
    return r;
}

//---------------------------------------------------------------------------//
struct XCtx
{
    vf::Run& R;
    std::map<std::string, uint64_t> tags;
    uint64_t evals = 0;
    std::unordered_set<std::string> seen;
    explicit XCtx(vf::Run& r) : R(r) {}
    template<class F>
    void viol(std::string const& sig, std::string const& cid, F&& msg)
    {
        if (seen.insert(sig).second || R.verbose())
            R.violation(sig, cid, msg());
        else
            R.violation(sig, cid, "");
    }
    void flush()
    {
        for (auto const& kv : tags)
            R.tag(kv.first, kv.second);
        R.count("evaluations", evals);
    }
};

static std::vector<std::array<double, 3>> algebra_points()
{
    std::vector<std::array<double, 3>> pts;
    for (double x : {-2.0, -0.5, 0.0, 1.0, 1.5})
        for (double y : {-2.0, -0.5, 0.0, 1.0, 1.5})
            for (double z : {-2.0, -0.5, 0.0, 1.0, 1.5})
                pts.push_back({x, y, z});
    for (auto const& f : far_pts)
        pts.push_back({f[0], f[1], f[2]});
    pts.push_back({0.1, 0.7, -0.3});
    pts.push_back({1e-9, -3e-7, 2e5});
    return pts;
}

static void mulM(ld const M[3][3], ld const t[3], double const x[3], ld out[3], ld mag[3], bool transpose = false)
{
    for (int i = 0; i < 3; ++i)
    {
        ld s = t ? t[i] : 0, m = t ? fabsl(t[i]) : 0;
        for (int j = 0; j < 3; ++j)
        {
            ld e = transpose ? M[j][i] : M[i][j];
            s += e * x[j];
            m += fabsl(e * x[j]);
        }
        out[i] = s;
        mag[i] = m;
    }
}

//! Algebra of one transform (independent of surfaces)
static void check_algebra(XCtx& cx, XF const& T, std::string const& cid)
{
    auto pts = algebra_points();
    auto bad = [&](char const* what, double const x[3], Real3 const& got, ld const want[3], ld tol) {
        cx.viol(std::string("transform:") + what, cid, [&] {
            return fmt("%s %s x=%s got=(%s,%s,%s) expected=(%.20Lg,%.20Lg,%.20Lg) tol=%Lg", T.name.c_str(), what,
                       p3(x).c_str(), vf::dstr(got[0]).c_str(), vf::dstr(got[1]).c_str(),
                       vf::dstr(got[2]).c_str(), want[0], want[1], want[2], tol);
        });
    };
    auto run = [&](auto const& tf) {
        for (auto const& p : pts)
        {
            double x[3] = {p[0], p[1], p[2]};
            ld want[3], mag[3];
            // up
            mulM(T.M, T.t, x, want, mag);
            Real3 up = tf.transform_up(R3(x));
            cx.evals += 4;
            for (int i = 0; i < 3; ++i)
                if (!(fabsl(ld(up[i]) - want[i]) <= 8 * EPS * mag[i]))
                {
                    bad("transform_up-is-not-Rx+t", x, up, want, 8 * EPS * mag[i]);
                    break;
                }
            // down(up(x)) == x   (1e-12 scale: KT eps (|x| + |t|))
            Real3 back = tf.transform_down(up);
            ld sc = fabsl(x[0]) + fabsl(x[1]) + fabsl(x[2]) + fabsl(T.t[0]) + fabsl(T.t[1]) + fabsl(T.t[2]);
            ld xx[3] = {x[0], x[1], x[2]};
            for (int i = 0; i < 3; ++i)
                if (!(fabsl(ld(back[i]) - xx[i]) <= KT * EPS * sc))
                {
                    bad("down-of-up-is-not-identity", x, back, xx, KT * EPS * sc);
                    break;
                }
            // down(x) == M^T (x - t)
            {
                double xm[3];
                ld xmt[3] = {ld(x[0]) - T.t[0], ld(x[1]) - T.t[1], ld(x[2]) - T.t[2]};
                for (int i = 0; i < 3; ++i)
                    xm[i] = double(xmt[i]);
                ld w[3], m2[3];
                mulM(T.M, nullptr, xm, w, m2, true);
                Real3 dn = tf.transform_down(R3(x));
                for (int i = 0; i < 3; ++i)
                    if (!(fabsl(ld(dn[i]) - w[i]) <= 8 * EPS * (m2[i] + sc)))
                    {
                        bad("transform_down-is-not-Rt(x-t)", x, dn, w, 8 * EPS * (m2[i] + sc));
                        break;
                    }
            }
            // rotations
            ld rw[3], rm[3];
            mulM(T.M, nullptr, x, rw, rm);
            Real3 ru = tf.rotate_up(R3(x));
            for (int i = 0; i < 3; ++i)
                if (!(fabsl(ld(ru[i]) - rw[i]) <= 8 * EPS * rm[i]))
                {
                    bad("rotate_up-is-not-Rx", x, ru, rw, 8 * EPS * rm[i]);
                    break;
                }
            Real3 rb = tf.rotate_down(ru);
            ld sx = fabsl(x[0]) + fabsl(x[1]) + fabsl(x[2]);
            for (int i = 0; i < 3; ++i)
                if (!(fabsl(ld(rb[i]) - xx[i]) <= KT * EPS * sx))
                {
                    bad("rotate_down-of-rotate_up-is-not-identity", x, rb, xx, KT * EPS * sx);
                    break;
                }
            // inverse transform
            auto inv = tf.calc_inverse();
            Real3 iu = inv.transform_up(up);
            for (int i = 0; i < 3; ++i)
                if (!(fabsl(ld(iu[i]) - xx[i]) <= KT * EPS * sc))
                {
                    bad("calc_inverse-is-not-inverse", x, iu, xx, KT * EPS * sc);
                    break;
                }
        }
    };
    if (T.is_translation)
        run(T.tr);
    else
        run(T.tf);
    cx.tags["alg:transform-checked"]++;
}

static void check_signed_permutations(XCtx& cx)
{
    auto pts = algebra_points();
    int k = 0;
    for (auto const& pi : signed_perms())
    {
        std::string cid = fmt("alg:signedperm%d", k++);
        if (!cx.R.want(cid))
            continue;
        if (pi.det != 1)
        {
            // improper: the constructor must refuse (CELER_VALIDATE is always on)
            SignedPermutation::SignedAxes ax;
            for (int i = 0; i < 3; ++i)
                ax[Axis(i)] = {pi.sign[i] < 0 ? '-' : '+', Axis(pi.perm[i])};
            bool threw = false;
            try
            {
                SignedPermutation sp{ax};
                (void)sp;
            }
            catch (std::exception const&)
            {
                threw = true;
            }
            cx.tags[threw ? "alg:improper-permutation-rejected" : "alg:improper-permutation-accepted"]++;
            continue;
        }
        SignedPermutation::SignedAxes ax;
        for (int i = 0; i < 3; ++i)
            ax[Axis(i)] = {pi.sign[i] < 0 ? '-' : '+', Axis(pi.perm[i])};
        SignedPermutation sp{ax};
        cx.tags["alg:signed-permutation-checked"]++;
        // round trips of the representation
        auto back = sp.permutation();
        bool same = true;
        for (int i = 0; i < 3; ++i)
            same = same && back[Axis(i)] == ax[Axis(i)];
        auto dat = sp.data();
        SignedPermutation sp2{SignedPermutation::StorageSpan{dat.data(), 1}};
        if (!same || !(sp2 == sp))
            cx.viol("signedperm:representation-round-trip", cid, [&] { return fmt("permutation %d", k - 1); });
        for (auto const& p : pts)
        {
            double x[3] = {p[0], p[1], p[2]};
            Real3 up = sp.rotate_up(R3(x));
            Real3 tu = sp.transform_up(R3(x));
            Real3 dn = sp.rotate_down(R3(x));
            Real3 td = sp.transform_down(R3(x));
            cx.evals += 4;
            for (int i = 0; i < 3; ++i)
            {
                // (R x)_i = sign_i x[perm_i] ; (R^T x)[perm_i] = sign_i x_i   (exact)
                double wu = pi.sign[i] * x[pi.perm[i]];
                double wd = pi.sign[i] * x[i];
                if (up[i] != wu || tu[i] != wu || dn[pi.perm[i]] != wd || td[pi.perm[i]] != wd)
                {
                    cx.viol("signedperm:not-the-signed-permutation-matrix", cid, [&] {
                        return fmt("perm=(%d,%d,%d) sign=(%d,%d,%d) x=%s rotate_up=(%g,%g,%g) rotate_down=(%g,%g,%g)",
                                   pi.perm[0], pi.perm[1], pi.perm[2], pi.sign[0], pi.sign[1], pi.sign[2],
                                   p3(x).c_str(), up[0], up[1], up[2], dn[0], dn[1], dn[2]);
                    });
                    break;
                }
            }
        }
    }
}

//! make_permutation(Axis, QuarterTurn): a rotation about a coordinate axis by q quarter turns.
//! Own model: with (ax, u, v) a cyclic (right-handed) triple the rotation by angle q pi/2 maps
//!   x_ax -> x_ax,  x_u -> c x_u - s x_v,  x_v -> s x_u + c x_v,   c, s = cos, sin(q pi/2) in {0,+-1}
//! (same convention as make_rotation(Axis, Turn), which check_make_rotation ties to the Rodrigues
//! formula); all arithmetic is exact.  Checked: the SignedPermutation's rotate_up / transform_up /
//! rotate_down on the algebra points, its permutation() table, and agreement of every entry with
//! make_rotation(ax, Turn{q/4}) rounded to the nearest integer.
static void check_make_permutation(XCtx& cx)
{
    auto pts = algebra_points();
    for (int a = 0; a < 3; ++a)
        for (int qt : {-5, -2, -1, 0, 1, 2, 3, 4, 5, 6, 7})
        {
            std::string cid = fmt("alg:make_permutation:ax%d,q%d", a, qt);
            if (!cx.R.want(cid))
                continue;
            int const m4 = ((qt % 4) + 4) % 4;
            int const cs[] = {1, 0, -1, 0}, sn[] = {0, 1, 0, -1};
            int const c = cs[m4], sv = sn[m4];
            int const ua = (a + 1) % 3, va = (a + 2) % 3;
            int W[3][3] = {};
            W[a][a] = 1;
            W[ua][ua] = c;
            W[ua][va] = -sv;
            W[va][ua] = sv;
            W[va][va] = c;
            SignedPermutation sp;
            try
            {
                sp = make_permutation(Axis(a), QuarterTurn{qt});
            }
            catch (std::exception const& e)
            {
                cx.viol("make_permutation:throws", cid,
                        [&] { return fmt("make_permutation(axis %d, %d quarter turns) threw: %s", a, qt, e.what()); });
                continue;
            }
            cx.tags["alg:make_permutation-checked"]++;
            cx.tags[c != 0 ? "alg:make_permutation:half-or-full-turn" : "alg:make_permutation:quarter-turn"]++;
            bool bad = false;
            std::string how;
            // against make_rotation (entries of a quarter-turn rotation are within 1 ulp of 0, +-1)
            Mat3 m = make_rotation(Axis(a), Turn{qt / 4.0});
            for (int i = 0; i < 3; ++i)
                for (int j = 0; j < 3; ++j)
                    if (std::lround(m[i][j]) != W[i][j])
                    {
                        // the harness model and make_rotation disagree: make_rotation is judged by
                        // check_make_rotation; report here as well, under its own signature
                        cx.viol("make_rotation:quarter-turn-not-integer-model", cid, [&] {
                            return fmt("axis=%d q=%d entry[%d][%d]=%.17g model %d", a, qt, i, j, m[i][j], W[i][j]);
                        });
                    }
            auto tab = sp.permutation();
            for (int i = 0; i < 3 && !bad; ++i)
            {
                int col = -1;
                for (int j = 0; j < 3; ++j)
                    if (W[i][j] != 0)
                        col = j;
                if (int(tab[Axis(i)].second) != col || (tab[Axis(i)].first == '-') != (W[i][col] < 0))
                {
                    bad = true;
                    how = fmt("row %d is %c%d, expected %c%d", i, tab[Axis(i)].first, int(tab[Axis(i)].second),
                              W[i][col] < 0 ? '-' : '+', col);
                }
            }
            for (auto const& p : pts)
            {
                if (bad)
                    break;
                double x[3] = {p[0], p[1], p[2]};
                Real3 up = sp.rotate_up(R3(x)), tu = sp.transform_up(R3(x)), dn = sp.rotate_down(R3(x));
                cx.evals += 3;
                for (int i = 0; i < 3; ++i)
                {
                    double wu = 0, wd = 0;
                    for (int j = 0; j < 3; ++j)
                    {
                        wu += W[i][j] * x[j];  // exact: one non-zero term
                        wd += W[j][i] * x[j];
                    }
                    if (up[i] != wu || tu[i] != wu || dn[i] != wd)
                    {
                        bad = true;
                        how = fmt("x=%s rotate_up=(%g,%g,%g) rotate_down=(%g,%g,%g), component %d expected up %g down %g",
                                  p3(x).c_str(), up[0], up[1], up[2], dn[0], dn[1], dn[2], i, wu, wd);
                        break;
                    }
                }
            }
            if (bad)
                cx.viol("make_permutation:not-the-axis-rotation", cid, [&] {
                    return fmt("make_permutation(axis %d, %d quarter turns): %s", a, qt, how.c_str());
                });
        }
}

static void check_make_rotation(XCtx& cx)
{
    std::string cid = "alg:make_rotation";
    if (!cx.R.want(cid))
        return;
    ld const axes[][3] = {{1, 2, 3}, {1, 1, 0}, {0, 0, 1}, {-1, 0.5L, 0.25L}, {1, 0, 0}, {0, -1, 0}};
    double const turns[] = {0, 0.05, 0.125, 0.25, 0.3, 1.0 / 3, 0.4375, 0.5};
    for (auto const& av : axes)
    {
        double n[3];
        normalize(av, n);
        ld nl[3] = {n[0], n[1], n[2]};
        for (double tn : turns)
        {
            ld Rl[3][3];
            rodrigues(nl, tn, Rl);
            Mat3 m = make_rotation(Real3{n[0], n[1], n[2]}, Turn{tn});
            cx.evals++;
            for (int i = 0; i < 3; ++i)
                for (int j = 0; j < 3; ++j)
                    if (!(fabsl(ld(m[i][j]) - Rl[i][j]) <= 8 * EPS))
                        cx.viol("make_rotation:not-rodrigues", cid, [&] {
                            return fmt("axis=%s turn=%g entry[%d][%d]=%.17g expected %.20Lg", p3(n).c_str(), tn, i,
                                       j, m[i][j], Rl[i][j]);
                        });
        }
    }
    // cartesian-axis overload for all turns in [0,1)
    for (int a = 0; a < 3; ++a)
        for (double tn : {0.0, 0.125, 0.25, 0.3, 0.5, 0.625, 0.75, 0.9})
        {
            ld nl[3] = {0, 0, 0};
            nl[a] = 1;
            ld Rl[3][3];
            rodrigues(nl, tn, Rl);
            Mat3 m = make_rotation(Axis(a), Turn{tn});
            cx.evals++;
            for (int i = 0; i < 3; ++i)
                for (int j = 0; j < 3; ++j)
                    if (!(fabsl(ld(m[i][j]) - Rl[i][j]) <= 8 * EPS))
                        cx.viol("make_rotation:not-rodrigues", cid, [&] {
                            return fmt("axis=%d turn=%g entry[%d][%d]=%.17g expected %.20Lg", a, tn, i, j,
                                       m[i][j], Rl[i][j]);
                        });
        }
    // (d2) the composing overload make_rotation(Axis, Turn, other): documented as "applies the new
    // axis + turn as a rotation operator to the LEFT of the matrix".  Reference: long double
    // Rodrigues(e_ax, theta) x long double Rodrigues(other) - nothing from the code under test
    // (its result used to be copied into the model of the xform letters only).
    {
        struct Other
        {
            ld axis[3];
            double turn;
        };
        Other const others[] = {{{0, 0, 1}, 0.375}, {{1, 2, 3}, 0.3}};
        for (auto const& o : others)
        {
            double n[3];
            normalize(o.axis, n);
            ld nl[3] = {n[0], n[1], n[2]};
            ld Ol[3][3];
            rodrigues(nl, o.turn, Ol);
            Mat3 om = make_rotation(Real3{n[0], n[1], n[2]}, Turn{o.turn});
            for (int a = 0; a < 3; ++a)
                for (double tn : {0.1, 0.25, 0.625})
                {
                    ld el[3] = {0, 0, 0};
                    el[a] = 1;
                    ld Rl[3][3];
                    rodrigues(el, tn, Rl);
                    Mat3 m = make_rotation(Axis(a), Turn{tn}, om);
                    cx.evals++;
                    for (int i = 0; i < 3; ++i)
                        for (int j = 0; j < 3; ++j)
                        {
                            ld want = 0;
                            for (int k = 0; k < 3; ++k)
                                want += Rl[i][k] * Ol[k][j];
                            // 8 eps per factor (as above) + the 3-term dot product
                            if (!(fabsl(ld(m[i][j]) - want) <= 24 * EPS))
                                cx.viol("make_rotation:composition-not-left-product", cid, [&] {
                                    return fmt("make_rotation(axis %d, %g, rot(%s;%g)) entry[%d][%d]=%.17g, "
                                               "expected (R_ax * other) = %.20Lg",
                                               a, tn, p3(n).c_str(), o.turn, i, j, m[i][j], want);
                                });
                        }
                }
        }
        cx.tags["alg:make_rotation-composition-checked"]++;
    }
    cx.tags["alg:make_rotation-checked"]++;
}

static void check_transform_simplifier(XCtx& cx, std::vector<XF> const& xfs)
{
    std::string cid = "tsimp:all";
    if (!cx.R.want(cid))
        return;
    // (d2) three tolerances with rel != abs: the class documents "we use the relative tolerance";
    // (rel 1e-6, abs 1e-4) and (rel 1e-4, abs 1e-6) have letters BETWEEN the two members
    // (translations 1e-5, 3e-5, rotations of 3e-6 and 1e-5 turn = 1.9e-5, 6.3e-5 rad)
    std::vector<Tolerance<>> const tolerances = {Tolerance<>::from_default(), Tolerance<>::from_relative(1e-6, 100),
                                                 Tolerance<>::from_relative(1e-4, 0.01)};
    std::vector<XF> list = xfs;
    // near-identity rotations and tiny translations
    for (double ang : {1e-10, 1e-9, 1e-7, 3e-6, 1e-5, 1e-4})
    {
        list.push_back(make_xf(fmt("rot(z;%g turn)", ang), make_rotation(Axis::z, Turn{ang}), {1, 0, 0}));
        list.push_back(make_xf(fmt("rot(x;%g turn)+0", ang), make_rotation(Axis::x, Turn{ang}), {0, 0, 0}));
    }
    for (double tt : {1e-9, 1e-8, 2e-8, 1e-6, 1e-5, 3e-5})
    {
        list.push_back(make_translation(fmt("tiny-translation %g", tt), {tt, 0, 0}, true));
        list.push_back(make_translation(fmt("tiny-translation %g as transformation", tt), {0, -tt, 0}, false));
    }
    std::vector<std::array<double, 3>> pts;
    for (double x : {-1.0, 0.0, 0.5})
        for (double y : {-1.0, 0.0, 0.5})
            for (double z : {-1.0, 0.0, 0.5})
                pts.push_back({x, y, z});
    for (auto const& tol : tolerances)
    for (XF const& T : list)
    {
        TransformSimplifier simp{tol};
        VariantTransform vt = T.is_translation ? simp(T.tr) : simp(T.tf);
        std::visit(
            [&](auto const& t2) {
                using TT = std::decay_t<decltype(t2)>;
                if constexpr (!std::is_same_v<TT, Transformation>)
                    if (!T.is_translation || std::is_same_v<TT, NoTransformation>)
                        cx.tags[fmt("tsimp:simplified@rel=%g,abs=%g", double(tol.rel), double(tol.abs))]++;
                if constexpr (std::is_same_v<TT, NoTransformation>)
                    cx.tags["tsimp:to-no-transformation"]++;
                else if constexpr (std::is_same_v<TT, Translation>)
                    cx.tags[T.is_translation ? "tsimp:translation-kept" : "tsimp:to-translation"]++;
                else if constexpr (std::is_same_v<TT, Transformation>)
                    cx.tags["tsimp:transformation-kept"]++;
                else
                    cx.tags["tsimp:other"]++;
                for (auto const& p : pts)
                {
                    double x[3] = {p[0], p[1], p[2]};
                    Real3 a = T.is_translation ? T.tr.transform_up(R3(x)) : T.tf.transform_up(R3(x));
                    Real3 b = t2.transform_up(R3(x));
                    cx.evals++;
                    ld d = 0;
                    for (int i = 0; i < 3; ++i)
                        d += (ld(a[i]) - b[i]) * (ld(a[i]) - b[i]);
                    d = sqrtl(d);
                    // documented: a point at unit length scale moves by no more than eps, once
                    // for the rotation and once for the translation
                    ld lim = 2 * ld(tol.rel) * (1 + sqrtl(ld(x[0]) * x[0] + ld(x[1]) * x[1] + ld(x[2]) * x[2]));
                    if (!(d <= lim))
                        cx.viol("transform-simplifier:moves-points", cid, [&] {
                            return fmt("%s x=%s moved by %Lg > %Lg", T.name.c_str(), p3(x).c_str(), d, lim);
                        });
                }
            },
            vt);
    }
}

//---------------------------------------------------------------------------//
// Surfaces x transforms
struct XPoint
{
    double p[3];
    ld f;  // original implicit function
    ld norm;  // |p|
    bool near;
};

struct SurfPoints
{
    OQ q;
    std::vector<XPoint> pts;
    ld SA = 0, SF = 0, SK = 0, onorm = 0;
};

static SurfPoints make_points(OQ const& q, std::vector<double> const& lat, int n_on)
{
    SurfPoints sp;
    sp.q = q;
    for (int i = 0; i < 3; ++i)
    {
        sp.SA += fabsl(q.A[i]) + fabsl(q.C[i]);
        sp.SF += fabsl(q.F[i]);
        sp.onorm += q.o[i] * q.o[i];
    }
    sp.onorm = sqrtl(sp.onorm);
    sp.SK = fabsl(q.K);
    auto add = [&](double const p[3], bool near) {
        XPoint x;
        for (int i = 0; i < 3; ++i)
            x.p[i] = p[i];
        x.f = evalf(q, p).f;
        x.norm = sqrtl(ld(p[0]) * p[0] + ld(p[1]) * p[1] + ld(p[2]) * p[2]);
        x.near = near;
        sp.pts.push_back(x);
    };
    for (double x : lat)
        for (double y : lat)
            for (double z : lat)
            {
                double p[3] = {x, y, z};
                add(p, false);
            }
    std::vector<Pt> onp;
    gen_on_points(q, lat, n_on, onp);
    for (Pt const& o : onp)
    {
        Grad G = evalg(q, o.p);
        ld gn = sqrtl(G.g[0] * G.g[0] + G.g[1] * G.g[1] + G.g[2] * G.g[2]);
        if (!(gn > 1e4L * KT * EPS * G.gm) || gn == 0)
            continue;
        double sc = std::max({1.0, std::fabs(o.p[0]), std::fabs(o.p[1]), std::fabs(o.p[2])});
        // two rings: 2^-12 sc (judged for every tolerance) and 2^-24 sc (just above the margin
        // 16 tol (M + 1 + |x| + |x|^2) of check_same_region for tol = 1e-10: a surface moved by
        // 1e-7 .. 1e-5 changes the sense of these points)
        for (ld ring : {0x1p-12L, 0x1p-24L})
            for (int sgn : {1, -1})
            {
                double p[3];
                for (int i = 0; i < 3; ++i)
                    p[i] = double(ld(o.p[i]) + sgn * ring * sc * G.g[i] / gn);
                add(p, true);
            }
    }
    return sp;
}

static inline ld xform_bound(SurfPoints const& sp, XPoint const& x, ld tnorm)
{
    ld L = x.norm + 2 * tnorm + sp.onorm;  // |x'| <= |x| + |t|
    return 3 * 256 * EPS * (sp.SA * L * L + sp.SF * L + sp.SK);
}

template<class S>
static void check_surface_transforms(XCtx& cx, S const& s, std::string const& cid, std::vector<XF> const& xfs,
                                     std::vector<double> const& lat, int n_on)
{
    OQ q = derive(s);
    SurfPoints sp = make_points(q, lat, n_on);
    for (XF const& T : xfs)
    {
        auto apply = [&](auto const& s2, auto const& tf) {
            for (XPoint const& x : sp.pts)
            {
                ld B = xform_bound(sp, x, T.tnorm);
                if (!(fabsl(x.f) > B))
                {
                    cx.tags["xform:point-ambiguous"]++;
                    continue;
                }
                Real3 xp = tf.transform_up(R3(x.p));
                int code = int(s2.calc_sense(xp));
                int want = x.f > 0 ? 1 : -1;
                ++cx.evals;
                if (code != want)
                {
                    cx.viol(std::string(q.sig) + (T.is_translation ? ":translated" : ":transformed")
                                + "-surface-has-different-point-set",
                            cid, [&] {
                                return fmt("%s data=%s transform=%s -> data'=%s : x=%s f(x)=%Lg (sense %d) but "
                                           "transformed surface at T(x)=(%s,%s,%s) gives sense %d",
                                           q.sig, data_str(s).c_str(), T.name.c_str(), data_str(s2).c_str(),
                                           p3(x.p).c_str(), x.f, want, vf::dstr(xp[0]).c_str(),
                                           vf::dstr(xp[1]).c_str(), vf::dstr(xp[2]).c_str(), code);
                            });
                }
            }
        };
        if (T.is_translation)
        {
            auto s2 = ::celeritas::detail::SurfaceTranslator{T.tr}(s);
            apply(s2, T.tr);
            cx.tags[std::string("xform:translator:") + q.sig]++;
        }
        else
        {
            auto s2 = ::celeritas::detail::SurfaceTransformer{T.tf}(s);
            apply(s2, T.tf);
            cx.tags[std::string("xform:transformer:") + q.sig]++;
        }
    }
}

//---------------------------------------------------------------------------//
// SurfaceSimplifier
struct SimpCase
{
    SurfPoints const* sp;
    std::string const* cid;
    std::string orig;
    Sense sense0;
    double tol;
    uint32_t* path;  // tags of the path taken (for the nontrivial count)
};

template<class S2>
static void check_same_region(XCtx& cx, S2 const& s2, Sense sense_now, SimpCase const& c, int depth)
{
    SurfPoints const& sp = *c.sp;
    for (XPoint const& x : sp.pts)
    {
        // snapping moves coefficients by <= tol (absolute) or tol (relative): f changes by at most
        // tol (M + 1 + |x| + |x|^2) per step, <= 4 steps, factor 4 slack
        FM v = evalf(sp.q, x.p);
        ld margin = 16 * ld(c.tol) * (v.m + 1 + x.norm + x.norm * x.norm) + KT * EPS * v.m;
        if (!(fabsl(v.f) > margin))
        {
            cx.tags["simp:point-ambiguous"]++;
            continue;
        }
        bool in_region_before = ((v.f > 0 ? Sense::outside : Sense::inside) == c.sense0);
        bool in_region_after = (to_sense(s2.calc_sense(R3(x.p))) == sense_now);
        ++cx.evals;
        if (in_region_before != in_region_after)
        {
            cx.viol(std::string(sp.q.sig) + ":simplified-surface-has-different-point-set", *c.cid, [&] {
                return fmt("%s tol=%g sense=%s -> step %d: %s data=%s sense=%s : x=%s original f=%Lg",
                           c.orig.c_str(), c.tol, c.sense0 == Sense::inside ? "inside" : "outside", depth,
                           derive(s2).sig, data_str(s2).c_str(), sense_now == Sense::inside ? "inside" : "outside",
                           p3(x.p).c_str(), v.f);
            });
        }
    }
}

template<int Depth, class S>
static void simplify_chain(XCtx& cx, S const& s, Sense sense, SimpCase const& c)
{
    Sense sn = sense;
    SurfaceSimplifier simp(&sn, c.tol);
    auto result = simp(s);
    std::visit(
        [&](auto const& r) {
            using T = std::decay_t<decltype(r)>;
            if constexpr (std::is_same_v<T, std::monostate>)
            {
                cx.tags[std::string("simp:") + derive(s).sig + ":final"]++;
                if (sn != sense)
                    cx.viol("simplifier:sense-flipped-without-new-surface", *c.cid,
                            [&] { return c.orig + " " + derive(s).sig + " data=" + data_str(s); });
            }
            else
            {
                cx.tags[std::string("simp:") + derive(s).sig + "->" + derive(r).sig + (sn != sense ? "(flip)" : "")]++;
                check_same_region(cx, r, sn, c, Depth);
                if constexpr (Depth < 4)
                    simplify_chain<Depth + 1>(cx, r, sn, c);
                else
                    cx.tags["simp:chain-longer-than-4"]++;
            }
        },
        result);
}

template<class S>
static void check_simplifier(XCtx& cx, S const& s, std::string const& cid, std::vector<double> const& lat,
                             int n_on, bool thorough)
{
    OQ q = derive(s);
    SurfPoints sp = make_points(q, lat, n_on);
    std::vector<double> tols = {1e-10};
    if (thorough)
        tols.push_back(1e-6);
    for (double tol : tols)
        for (Sense s0 : {Sense::inside, Sense::outside})
        {
            SimpCase c{&sp, &cid, std::string(q.sig) + " data=" + data_str(s), s0, tol, nullptr};
            simplify_chain<0>(cx, s, s0, c);
        }
}

//! Surfaces built to sit on the simplifier's decision boundaries
template<class Fn>
static void enumerate_simplifier_specials(vf::Run& R, uint64_t first_global, Fn&& fn)
{
    Visit V{R, first_global};
    uint64_t i = 0;
    auto unit = [](ld x, ld y, ld z) {
        ld v[3] = {x, y, z};
        double u[3];
        normalize(v, u);
        return Real3{u[0], u[1], u[2]};
    };
    for (double p : {1e-11, -1e-12, 0.0, 1e-9, -0.0})
    {
        V("simp-px", i++, PlaneAligned<Axis::x>{p}, fn);
        V("simp-pz", i++, PlaneAligned<Axis::z>{p}, fn);
    }
    for (auto const& uv : std::vector<std::array<double, 2>>{{1e-11, -1e-12}, {0, 0}, {1e-9, 0}, {7e-11, 7e-11}, {0, -9e-11}})
    {
        V("simp-cz", i++, CylAligned<Axis::z>{Real3{uv[0], uv[1], 0}, 1.0}, fn);
        V("simp-cx", i++, CylAligned<Axis::x>{Real3{0, uv[0], uv[1]}, 0.5}, fn);
        V("simp-s", i++, Sphere{Real3{uv[0], uv[1], -uv[0]}, 2.0}, fn);
        V("simp-ky", i++, ConeAligned<Axis::y>{Real3{uv[0], 0.5, uv[1]}, 0.5}, fn);
        V("simp-kz", i++, ConeAligned<Axis::z>{Real3{uv[0], uv[1], uv[0]}, 2.0}, fn);
    }
    std::vector<Real3> normals = {unit(-1, 0, 0), unit(0, -1, 0), unit(0, 0, 1), unit(0, 0, -1), unit(-1, -1, 0),
                                  unit(1, -1, 0), unit(-1, 1, 0), unit(1, 1e-11L, 0), unit(-1, 1e-11L, -1e-12L),
                                  unit(0.6L, -0.8L, 1e-11L), unit(1e-11L, 1e-11L, 1), unit(-1, -1, 1),
                                  unit(1, -1, -1), unit(-1, 2, -3), unit(0, 1, -1), unit(0, -1, 1)};
    for (auto const& n : normals)
        for (double d : {0.0, 1e-11, 0.5, -0.5})
            V("simp-p", i++, Plane{n, d}, fn);
    // simple quadrics that are other surfaces in disguise, scaled by k
    Real3 o{0.5, -1, 1};
    std::vector<SimpleQuadric> base = {
        SimpleQuadric{Sphere{o, 2.0}},
        SimpleQuadric{Sphere{Real3{0, 0, 0}, 1.0}},
        SimpleQuadric{CylAligned<Axis::x>{o, 0.5}},
        SimpleQuadric{CylAligned<Axis::y>{o, 2.0}},
        SimpleQuadric{CylAligned<Axis::z>{Real3{0, 0, 0}, 1.0}},
        SimpleQuadric{ConeAligned<Axis::x>{o, 0.5}},
        SimpleQuadric{ConeAligned<Axis::y>{o, 2.0}},
        SimpleQuadric{ConeAligned<Axis::z>{Real3{0, 0, 0}, 1.0}},
        SimpleQuadric{Plane{unit(1, 2, 3), 0.5}},
        SimpleQuadric{Plane{unit(0, -1, 0), 0.25}},
        SimpleQuadric{Real3{1, 1, -1}, Real3{0, 0, 0}, 1.0},  // hyperboloids (cone + constant)
        SimpleQuadric{Real3{1, 1, -1}, Real3{0, 0, 0}, -1.0},
        SimpleQuadric{Real3{1, 2, 3}, Real3{0, 0, 0}, -4.0},  // ellipsoid
        SimpleQuadric{Real3{1, 1, 1}, Real3{0, 0, 0}, 1.0},  // imaginary sphere
        SimpleQuadric{Real3{1, 2, 0}, Real3{0, 0, 0}, -1.0},  // elliptic cylinder
        SimpleQuadric{Real3{1, 1, 0}, Real3{0, 0, -1}, 0.0},  // paraboloid
        SimpleQuadric{Real3{1, 1, 0}, Real3{0, 0, 0}, 1.0},  // imaginary cylinder
        SimpleQuadric{Real3{1e-11, 0, -1e-12}, Real3{1, 2, 3}, -0.5},  // plane with dust
        SimpleQuadric{Real3{1, 1 + 5e-11, 1 - 5e-11}, Real3{-1, 2, 0}, -2.0},  // sphere with dust
        SimpleQuadric{Real3{1, 1 + 5e-11, 1e-11}, Real3{-1, 2, 1e-11}, -2.0},  // cylinder with dust
    };
    for (auto const& b : base)
        for (double k : {1.0, -1.0, 2.0, -0.5})
        {
            auto d = b.data();
            V("simp-sq", i++,
              SimpleQuadric{Real3{k * d[0], k * d[1], k * d[2]}, Real3{k * d[3], k * d[4], k * d[5]}, k * d[6]}, fn);
            V("simp-gq", i++,
              GeneralQuadric{Real3{k * d[0], k * d[1], k * d[2]}, Real3{0, 1e-11 * k, 0},
                             Real3{k * d[3], k * d[4], k * d[5]}, k * d[6]},
              fn);
        }
    for (double k : {1.0, -1.0})
    {
        V("simp-gq", i++, GeneralQuadric{Real3{-k, -k, k}, Real3{k, 0, 0}, Real3{0, 0, 0}, -k}, fn);
        V("simp-gq", i++, GeneralQuadric{Real3{0, 0, 0}, Real3{-k, -k, k}, Real3{k, 0, 0}, -k}, fn);
        V("simp-gq", i++, GeneralQuadric{Real3{0, 0, 0}, Real3{-k, k, 0}, Real3{0, 0, k}, 0.5}, fn);
        V("simp-gq", i++, GeneralQuadric{Real3{k, -k, 0}, Real3{0, 0, k}, Real3{0, k, 0}, 0.5}, fn);
    }
    // offsets between the tolerance and its square root (1e-10 .. 1e-5 for the default tolerance,
    // 1e-6 .. 1e-3 for the thorough tier's 1e-6): must NOT be snapped; a simplifier comparing
    // |origin|^2 with tol instead of tol^2, or using SoftZero{sqrt(tol)}, moves the surface by the
    // offset, which the 2^-24 (2^-12) ring of near-surface points sees
    for (double p : {1e-7, -0x1p-20, 1e-5, -0x1p-17, 0x1p-11, -1e-4})
    {
        V("simp-px", i++, PlaneAligned<Axis::x>{p}, fn);
        V("simp-pz", i++, PlaneAligned<Axis::z>{p}, fn);
    }
    for (auto const& uv : std::vector<std::array<double, 2>>{
             {1e-7, 0}, {0, -0x1p-20}, {0x1p-20, 1e-7}, {1e-5, 0}, {0, 0x1p-17}, {-0x1p-11, 0}, {0, 1e-4}})
    {
        V("simp-cz", i++, CylAligned<Axis::z>{Real3{uv[0], uv[1], 0}, 1.0}, fn);
        V("simp-cx", i++, CylAligned<Axis::x>{Real3{0, uv[0], uv[1]}, 0.5}, fn);
        V("simp-cy", i++, CylAligned<Axis::y>{Real3{uv[1], 0, uv[0]}, 2.0}, fn);
        V("simp-s", i++, Sphere{Real3{uv[0], uv[1], -uv[0]}, 2.0}, fn);
        V("simp-s", i++, Sphere{Real3{uv[1], uv[0], uv[1]}, 0.5}, fn);
        V("simp-kx", i++, ConeAligned<Axis::x>{Real3{uv[1], uv[0], 0.25}, 1.0}, fn);
        V("simp-ky", i++, ConeAligned<Axis::y>{Real3{uv[0], 0.5, uv[1]}, 0.5}, fn);
        V("simp-kz", i++, ConeAligned<Axis::z>{Real3{uv[0], uv[1], uv[0]}, 2.0}, fn);
    }
    // (d2) "dust" COEFFICIENTS between the tolerance and its square root (the offsets above cover
    // origins only): plane normal components, SQ second-order terms, GQ cross terms of 1e-7 /
    // 2^-20 / 1e-5 (1e-4 / 2^-11 for the thorough tolerance 1e-6) must NOT be dropped: dropping
    // them moves the surface by 1e-7 |x| .. 1e-5 |x|^2, which the 2^-24 (2^-12) ring sees.
    // (appended last: the indices of the earlier specials are unchanged)
    for (auto const& n : std::vector<Real3>{unit(1, 1e-7L, 0), unit(1, -0x1p-20L, 1e-5L), unit(1e-5L, 0.6L, -0.8L),
                                            unit(1e-4L, 0, 1), unit(0, 1, -0x1p-11L)})
        for (double d : {0.0, 0.5})
            V("simp-p", i++, Plane{n, d}, fn);
    std::vector<SimpleQuadric> dusty = {
        SimpleQuadric{Real3{1e-7, 0, -0x1p-20}, Real3{1, 2, 3}, -0.5},  // NOT a plane
        SimpleQuadric{Real3{1, 1 + 1e-6, 1 - 0x1p-20}, Real3{-1, 2, 0}, -2.0},  // NOT a sphere
        SimpleQuadric{Real3{1, 1 + 1e-6, 0}, Real3{-1, 2, 0}, -2.0},  // NOT a circular cylinder
        SimpleQuadric{Real3{1, 1, 1e-5}, Real3{0, 0, 0}, -1.0},  // NOT a cylinder along z
        SimpleQuadric{Real3{1e-4, 0, 0x1p-11}, Real3{1, 2, 3}, -0.5},  // thorough-tolerance variants
        SimpleQuadric{Real3{1, 1 + 1e-4, 1 - 0x1p-11}, Real3{-1, 2, 0}, -2.0},
    };
    for (auto const& b : dusty)
        for (double k : {1.0, -0.5})
        {
            auto d = b.data();
            V("simp-sq", i++,
              SimpleQuadric{Real3{k * d[0], k * d[1], k * d[2]}, Real3{k * d[3], k * d[4], k * d[5]}, k * d[6]}, fn);
        }
    for (size_t bi : {size_t(0), size_t(3), size_t(6)})  // sphere, cylinder y, cone y of `base`
        for (double k : {1.0, -0.5})
        {
            auto d = base[bi].data();
            V("simp-gq", i++,
              GeneralQuadric{Real3{k * d[0], k * d[1], k * d[2]}, Real3{0, 1e-7 * k, 0},
                             Real3{k * d[3], k * d[4], k * d[5]}, k * d[6]},
              fn);
            V("simp-gq", i++,
              GeneralQuadric{Real3{k * d[0], k * d[1], k * d[2]}, Real3{1e-5 * k, 0, -0x1p-20 * k},
                             Real3{k * d[3], k * d[4], k * d[5]}, k * d[6]},
              fn);
            V("simp-gq", i++,
              GeneralQuadric{Real3{k * d[0], k * d[1], k * d[2]}, Real3{0, 0, 1e-4 * k},
                             Real3{k * d[3], k * d[4], k * d[5]}, k * d[6]},
              fn);
        }
}

}  // namespace

//---------------------------------------------------------------------------//
int part_xform(vf::Run& R)
{
    bool const th = R.thorough();
    XCtx cx(R);
    auto xfs = transform_alphabet(th);

    // ---- algebra: one case per transform, sharded by transform index
    for (size_t k = 0; k < xfs.size(); ++k)
    {
        if (!R.mine(k))
            continue;
        std::string cid = fmt("alg:%zu:%s", k, xfs[k].name.c_str());
        if (!R.want(cid))
            continue;
        R.begin_case(cid, 60);
        check_algebra(cx, xfs[k], cid);
        R.end_case();
    }
    if (R.shard() == 0 || R.replay())
    {
        check_signed_permutations(cx);
        check_make_permutation(cx);
        check_make_rotation(cx);
        check_transform_simplifier(cx, xfs);
    }

    // ---- surfaces x transforms, and the simplifier on the same instances
    std::vector<double> lat = th ? std::vector<double>{-2, -0.5, 0, 1, 1.5} : std::vector<double>{-2, -0.5, 0, 1.5};
    int n_on = th ? 12 : 8;
    bool expired = false;
    uint64_t nsurf = 0;
    enumerate_surfaces(R, th ? 2 : 1, 1, th ? 1 : 0, [&](auto const& s, std::string const& cid) {
        if (expired || R.expired())
        {
            expired = true;
            return;
        }
        R.begin_case(cid, 120);
        check_surface_transforms(cx, s, cid, xfs, lat, n_on);
        check_simplifier(cx, s, cid, lat, n_on, th);
        R.nontrivial(vf::hash_str(cid));
        ++nsurf;
        R.end_case();
    });
    enumerate_simplifier_specials(R, 1u << 30, [&](auto const& s, std::string const& cid) {
        if (expired || R.expired())
        {
            expired = true;
            return;
        }
        R.begin_case(cid, 120);
        check_simplifier(cx, s, cid, lat, n_on, th);
        check_surface_transforms(cx, s, cid, xfs, lat, n_on);
        R.nontrivial(vf::hash_str(cid));
        ++nsurf;
        R.end_case();
    });
    R.count("surfaces:transformed", nsurf);
    R.count("transforms", R.shard() == 0 ? xfs.size() : 0);
    cx.flush();
    R.sample("sq data=[1,1,1,-2,0,0,0] x translation (1,0,0): sense at x+t vs sign f(x) on 4^3 lattice + near-surface points");
    R.sample("kz tsq=4 origin (0.5,-1,1) x signedperm17(det-1)+t(1,-2,0.5) via SurfaceTransformer -> GeneralQuadric");
    R.sample("simp-sq: -0.5 * SimpleQuadric(ConeAligned<y>) -> flip -> ConeAligned<y>, region preserved");
    return 0;
}
