// C20 - generated optical photons are physically valid.
//
// Bounded-exhaustive exploration (E4 lattice x E5 scripted RNG) of the *real*
//   optical::CerenkovDndxCalculator, CerenkovOffload, optical::CerenkovGenerator,
//   ScintillationOffload, optical::ScintillationGenerator
// on hand-built optical::MaterialParams / CerenkovParams / ScintillationParams (no Geant4).
//
// Enumerated (every element of the product is executed; nothing is sampled):
//   dndx:   material x charge{-1,+1,-2,+2} x beta lattice derived from the material's table
//           (every knot's 1/n at -1e-3,-1e-9,-2ulp..+2ulp,+1e-9,+1e-3 relative, mid-knots,
//           far below, close to 1, exactly 1)
//   offc:   CerenkovOffload: material x beta_pre x beta_post(e-/e+ energy) x step length x
//           charge x direction x position x A_u^3 (Poisson draws)
//   offs:   ScintillationOffload: scint material x energy deposition x charge{-,+} x A_u^3;
//           pre-step speed {0.9, 0.3} (by variant) != post-step speed 0.99862874 (9.25 MeV)
//   cer:    CerenkovGenerator: material x (beta_pre, beta_post) ordered pairs x parent
//           direction (axes, oblique, all rotate() branches near +-z) x variant(position,
//           step length, charge, pre-step time) x A_u^6 first canonicals; 2 photons / script
//           variant 3 carries charge +2
//   sci:    ScintillationGenerator: scint material x speed pair (6, incl. post/pre = 18 and
//           post-step speed 0) x variant(position, direction,
//           step, time) x charge{-1,+1,0} x A_u^6; 3 photons / script (first photon, photon
//           that re-uses the spare normal deviate, photon from the declared tail)
// A_u = vf::alphabet_u5 (quick) / alphabet_u7 (thorough; the 6th position of the generator
// scripts stays on alphabet_u5: 7^5 x 5 = 84035 scripts per block).
//
// Oracles (own long double arithmetic; nothing from the code under test):
//   finite energy > 0; Cerenkov energy inside the table; |dir| = |pol| = 1; dir.pol = 0;
//   position on the chord pre->post; time >= pre-step time; Cerenkov cone
//   dir.parent = 1/(n(E) * (beta_pre+beta_post)/2) with n(E) my own linear interpolation;
//   dN/dx finite, >= 0, == 0 below threshold, <= alpha z^2/(hbar c) (Emax-Emin) (documented
//   integrand sin^2 theta <= 1); offload returns an empty distribution below threshold
//   (mean beta * n_max < 1) and otherwise copies the step data verbatim; bounded draws;
//   dN/dx(z) == z^2 dN/dx(+1) bitwise (z^2 in {1,4}).
// optical::MaterialView is built through BOTH constructors: the volume -> material map is
// v -> (v+2) % n, one non-optical volume (view must be false), one second volume of material 0;
// dndx z>0 / offc e+ / cer even materials go through VolumeId, the rest through the material id.
//
// Tolerances (eps = 2^-52):
//   TOL = 1e-12: the library's own "soft" precision (SoftEqualTraits<double>::rel_prec) and
//   100x looser than what the consumer of these photons requires
//   (RayleighInteractor: CELER_EXPECT(soft_zero(dot(dir, pol))), soft_zero = |x| < 1e-14).
//   Quantities that went through rotate() get an extra conditioning term for the parent
//   direction's polar sine s (rotate() recomputes s = sqrt(1 - z^2), absolute error ~eps in
//   s^2): s >= 0.005 (plain branch: (x,y)/s not renormalised) -> 3 eps / s^2 (<= 2.7e-11);
//   0 < s < 0.005 (renormalising branch) -> 2 eps / s.  Parent directions closer than 1e-5 to
//   the pole but not on it are not part of the alphabet (measure ~1e-10 of the sphere).
//
// Parent directions in rotate()'s renormalising branch (0 < s < 0.005) cover all sign patterns
// of (x, y) for z > 0 and, for z < 0, both y < 0 and y >= 0.  For y < 0 the recorded defect below
// is exactly a rotation into the frame of the mirrored parent (x, |y|, z): the photon is then
// judged against the cone about the mirrored parent; only a photon on THAT cone is reported
// under the recorded signature, a photon on neither cone gets
//   cerenkov:off-both-cones[rotate:renormalising-branch,parent y<0: neither about the parent nor
//   about its mirror image]
// which is not recorded (live).
//
// Reported on the unchanged tree (reproductions: harness/c20_repro.cc):
//   cerenkov:off-cone[rotate:renormalising-branch,parent y<0]  rotate() drops the sign of y
//   cerenkov:not-finite[parent exactly along z]                rotate() 0/0 for (0,0,1-2^-53)
//   scint:pol-not-orthogonal[cancellation at small |cos theta|]
// Signatures carry the input class so that a listed finding cannot mask another cause.
#include <algorithm>
#include <array>
#include <cmath>
#include <cstdint>
#include <cstdlib>
#include <memory>
#include <set>
#include <stdexcept>
#include <string>
#include <vector>

#include "corecel/data/CollectionStateStore.hh"
#include "celeritas/Constants.hh"
#include "celeritas/Quantities.hh"
#include "celeritas/Units.hh"
#include "celeritas/io/ImportOpticalMaterial.hh"
#include "celeritas/optical/CerenkovDndxCalculator.hh"
#include "celeritas/optical/CerenkovGenerator.hh"
#include "celeritas/optical/CerenkovOffload.hh"
#include "celeritas/optical/CerenkovParams.hh"
#include "celeritas/optical/GeneratorDistributionData.hh"
#include "celeritas/optical/MaterialParams.hh"
#include "celeritas/optical/MaterialView.hh"
#include "celeritas/optical/ScintillationGenerator.hh"
#include "celeritas/optical/ScintillationOffload.hh"
#include "celeritas/optical/ScintillationParams.hh"
#include "celeritas/optical/TrackInitializer.hh"
#include "celeritas/phys/PDGNumber.hh"
#include "celeritas/phys/ParticleParams.hh"
#include "celeritas/phys/ParticleTrackView.hh"
#include "celeritas/track/SimParams.hh"
#include "celeritas/track/SimTrackView.hh"
#include "engine/harness.hh"
#include "engine/scripted_rng.hh"

//---------------------------------------------------------------------------//
// Scripted engine with a hard cap on the number of words (turns a livelock in a rejection
// loop into an exception instead of a hang)
namespace c20
{
struct DrawCap : std::runtime_error
{
    DrawCap() : std::runtime_error("draw cap") {}
};
class CapEngine
{
  public:
    using result_type = unsigned int;
    static constexpr result_type min() { return 0u; }
    static constexpr result_type max() { return 0xffffffffu; }
    CapEngine(std::vector<uint32_t> script, uint64_t tail_seed, uint64_t cap)
        : e_(std::move(script), tail_seed), cap_(cap)
    {
    }
    result_type operator()()
    {
        if (e_.words() >= cap_)
            throw DrawCap{};
        return e_();
    }
    uint64_t words() const { return e_.words(); }

  private:
    vf::ScriptedEngine e_;
    uint64_t cap_;
};
}  // namespace c20
namespace celeritas
{
//! Same two-word canonical path as the production XORWOW engine
template<class RealType>
class GenerateCanonical<::c20::CapEngine, RealType>
{
  public:
    using real_type = RealType;
    using result_type = RealType;
    result_type operator()(::c20::CapEngine& rng)
    {
        return detail::GenerateCanonical32<RealType>()(rng);
    }
};
}  // namespace celeritas

using namespace celeritas;
using celeritas::optical::GeneratorDistributionData;
using celeritas::optical::TrackInitializer;
using vf::dstr;
using vf::fmt;
using LD = long double;
using c20::CapEngine;

namespace
{
constexpr double EPS = 2.220446049250313e-16;  // 2^-52
constexpr double TOL = 1e-12;
constexpr uint64_t WORD_CAP = 1u << 16;  // per engine (2..3 photons)

//---------------------------------------------------------------------------//
// Materials
struct Tab
{
    std::string name;
    std::vector<double> e;  // photon energy [MeV], strictly increasing
    std::vector<double> n;  // refractive index, strictly increasing
};

std::vector<Tab> make_tables(bool thorough)
{
    std::vector<Tab> t;
    // barely rising: 1e-6 per knot (MaterialParams demands strict monotonicity)
    t.push_back({"barely", {2e-6, 3e-6, 4e-6, 5e-6}, {1.33, 1.330001, 1.330002, 1.330003}});
    // rising, non-uniform grid (water-like values)
    t.push_back({"rising",
                 {1.1e-6, 2e-6, 3.5e-6, 5e-6, 6.8e-6},
                 {1.3236, 1.3318, 1.3435, 1.3786, 1.4679}});
    // low end below every threshold (n < 1): n*beta < 1 for part of the table at any speed
    t.push_back({"sublow", {1e-6, 2e-6, 4e-6, 8e-6}, {0.95, 1.02, 1.2, 1.6}});
    // smallest legal table: two knots, steep
    t.push_back({"twoknot", {1.5e-6, 6e-6}, {1.1, 2.4}});
    if (thorough)
    {
        // smooth 24-knot dispersion curve
        Tab s;
        s.name = "smooth24";
        for (int i = 0; i < 24; ++i)
        {
            double e = 1.0e-6 + 0.25e-6 * i;
            s.e.push_back(e);
            s.n.push_back(1.45 + 0.004 * i + 0.0007 * i * i);
        }
        t.push_back(s);
    }
    return t;
}

//! Own linear interpolation of the table (E inside [front, back])
LD interp(Tab const& t, LD e)
{
    if (e <= t.e.front())
        return t.n.front();
    if (e >= t.e.back())
        return t.n.back();
    size_t hi = std::upper_bound(t.e.begin(), t.e.end(), double(e),
                                 [](double v, double k) { return LD(v) < LD(k); })
                - t.e.begin();
    // t.e[hi-1] <= e < t.e[hi]  (comparison in double is exact here: e is a double)
    LD x0 = t.e[hi - 1], x1 = t.e[hi], y0 = t.n[hi - 1], y1 = t.n[hi];
    return y0 + (y1 - y0) * ((e - x0) / (x1 - x0));
}

struct ScintMat
{
    std::string name;
    double yield;
    double resolution;
    std::vector<ImportScintComponent> comps;
};

std::vector<ScintMat> make_scint(bool thorough)
{
    double const nm = units::nanometer;
    double const ns = units::nanosecond;
    std::vector<ScintMat> s;
    // {yield_frac, lambda_mean, lambda_sigma, rise, fall}; mean/sigma >= 10 keeps the sampled
    // wavelength positive for every reachable normal deviate (|z| <= sqrt(2*64*ln2) = 9.4)
    s.push_back({"one-rise0", 5, 1, {{1.0, 420 * nm, 20 * nm, 0, 6 * ns}}});
    s.push_back({"one-rise", 40, 1, {{1.0, 420 * nm, 20 * nm, 10 * ns, 6 * ns}}});
    s.push_back({"two",
                 3,
                 0.5,
                 {{0.7, 100 * nm, 5 * nm, 0, 1 * ns}, {0.3, 400 * nm, 40 * nm, 5 * ns, 1500 * ns}}});
    s.push_back({"three",
                 5,
                 1,
                 {{0.5, 100 * nm, 5 * nm, 10 * ns, 6 * ns},
                  {0.3, 200 * nm, 10 * nm, 0, 1500 * ns},
                  {0.2, 400 * nm, 20 * nm, 10 * ns, 3000 * ns}}});
    // slow rise, fast fall: the rise-time rejection loop retries often (accept ~ 1/6)
    s.push_back({"slowrise", 8, 1, {{1.0, 300 * nm, 15 * nm, 25 * ns, 5 * ns}}});
    if (thorough)
    {
        s.push_back({"three-b",
                     12,
                     2,
                     {{0.1, 128 * nm, 4 * nm, 0, 7 * ns},
                      {0.1, 175 * nm, 10 * nm, 1 * ns, 100 * ns},
                      {0.8, 550 * nm, 55 * nm, 0.5 * ns, 1000 * ns}}});
    }
    return s;
}

//---------------------------------------------------------------------------//
// Parent directions: every branch of rotate() and both sides of its thresholds
struct Dir
{
    std::string name;
    std::array<double, 3> d;  // not necessarily exactly unit; only used to place post
};

std::vector<Dir> make_dirs(bool thorough)
{
    auto unit = [](std::string n, LD x, LD y, LD z) {
        LD r = std::sqrt(x * x + y * y + z * z);
        return Dir{std::move(n), {double(x / r), double(y / r), double(z / r)}};
    };
    std::vector<Dir> d;
    d.push_back(unit("+x", 1, 0, 0));
    d.push_back(unit("-x", -1, 0, 0));
    d.push_back(unit("+y", 0, 1, 0));
    d.push_back(unit("-y", 0, -1, 0));
    d.push_back(unit("+z", 0, 0, 1));  // rotate(): sintheta == 0 branch
    d.push_back(unit("-z", 0, 0, -1));
    d.push_back(unit("diag", 1, 1, 1));
    d.push_back(unit("obl", -2, 3, -6));
    d.push_back(unit("xz", 0.6L, 0, -0.8L));
    // plain branch close to its lower limit (sin = 0.01, 0.0051)
    d.push_back(unit("s1e-2", 0.006L, -0.008L, 1));
    d.push_back(unit("s5.1e-3", -0.00306L, -0.00408L, -1));
    // renormalising branch (0 < sin < 0.005), all sign patterns of (x, y)
    d.push_back(unit("s1e-3++", 0.0006L, 0.0008L, 1));
    d.push_back(unit("s1e-3+-", 0.0006L, -0.0008L, 1));
    d.push_back(unit("s1e-3-+", -0.0006L, 0.0008L, 1));
    d.push_back(unit("s1e-3--", -0.0006L, -0.0008L, -1));
    d.push_back(unit("s1e-3y-", 0, -0.001L, -1));
    d.push_back(unit("s1e-3x-", -0.001L, 0, 1));
    d.push_back(unit("s4.9e-3-", 0.0029L, -0.00395L, 1));
    // renormalising branch with z < 0 and y >= 0: every other z < 0 letter of this branch has
    // y < 0 and its cone failures therefore carry the recorded signature (rotate() drops the
    // sign of y there); these keep the cone oracle alive for the lower pole
    d.push_back(unit("s1e-3+z-", 0.0006L, 0.0008L, -1));
    d.push_back(unit("s1e-3-z-", -0.0006L, 0.0008L, -1));
    d.push_back(unit("s1e-3x+z-", 0.001L, 0, -1));
    if (thorough)
    {
        d.push_back(unit("s1e-5+-", 0.6e-5L, -0.8e-5L, -1));
        d.push_back(unit("s1e-4--", -0.6e-4L, -0.8e-4L, 1));
        d.push_back(unit("obl2", 3, -4, 12));
        d.push_back(unit("yz", 0, 0.28L, 0.96L));
        d.push_back(unit("s3e-2", -0.018L, 0.024L, -1));
        d.push_back(unit("-diag", -1, -1, -1));
    }
    return d;
}

//! position / step / charge / pre-step time variants
struct Variant
{
    std::array<double, 3> pre;
    double step;  // path length [cm]; chord = 0.9 * step
    double charge;
    double time;  // [s]
};
std::vector<Variant> make_variants()
{
    return {
        {{0, 0, 0}, 0.15, -1, 0.0},
        {{12.5, -300.25, 1000.0}, 1e-4, +1, 1e-9},
        {{-0.001, 0.002, 0.003}, 25.0, -1, 2.5e-3},
        {{12.5, -300.25, 1000.0}, 25.0, +2, 1.0},
    };
}

//---------------------------------------------------------------------------//
// Scripts
struct Scripts
{
    std::vector<uint32_t> const& alpha;  // alphabet of positions 0 .. k-1 (k_last: 0 .. k-2)
    int k;
    std::vector<uint32_t> const* last = nullptr;  // optional smaller alphabet of position k-1
    std::vector<uint32_t> const& at(int i) const { return (last && i == k - 1) ? *last : alpha; }
    uint64_t size() const
    {
        uint64_t n = 1;
        for (int i = 0; i < k; ++i)
            n *= at(i).size();
        return n;
    }
    std::vector<uint32_t> operator()(uint64_t idx) const
    {
        std::vector<uint32_t> s(k);
        for (int i = 0; i < k; ++i)
        {
            auto const& a = at(i);
            s[i] = a[idx % a.size()];
            idx /= a.size();
        }
        return s;
    }
    static std::string str(std::vector<uint32_t> const& s)
    {
        std::string r;
        for (auto w : s)
            r += fmt("%s%08x", r.empty() ? "" : ".", w);
        return r;
    }
};
//! The canonical double a scripted upper word produces (through the engine's own path)
double canon(uint32_t upper)
{
    vf::ScriptedEngine e({upper}, 0);
    return celeritas::generate_canonical<double>(e);
}

//---------------------------------------------------------------------------//
// Real objects
struct World
{
    std::vector<Tab> tabs;
    std::vector<ScintMat> scint;
    std::shared_ptr<optical::MaterialParams const> mat;
    std::shared_ptr<optical::CerenkovParams const> cer;
    std::shared_ptr<optical::ScintillationParams const> sci;
    std::shared_ptr<ParticleParams const> particles;
    std::shared_ptr<SimParams const> sim;
    CollectionStateStore<ParticleStateData, MemSpace::host> pstate;
    CollectionStateStore<SimStateData, MemSpace::host> sstate;
    double emass = 0.5109989461;

    explicit World(bool thorough) : tabs(make_tables(thorough)), scint(make_scint(thorough))
    {
        optical::MaterialParams::Input mi;
        for (auto const& t : tabs)
        {
            ImportOpticalProperty p;
            p.refractive_index.vector_type = ImportPhysicsVectorType::free;
            p.refractive_index.x = t.e;
            p.refractive_index.y = t.n;
            mi.properties.push_back(p);
        }
        // volume -> optical material: NOT the identity. Volume v < n maps to material
        // (v + 2) % n (no fixed point for n >= 3), volume n is not optical, volume n + 1 is a
        // second volume of material 0 (two volumes sharing a material).
        {
            size_t const n = tabs.size();
            for (size_t v = 0; v < n; ++v)
                mi.volume_to_mat.push_back(OpticalMaterialId((v + 2) % n));
            mi.volume_to_mat.push_back(OpticalMaterialId{});
            mi.volume_to_mat.push_back(OpticalMaterialId(0));
        }
        mat = std::make_shared<optical::MaterialParams>(std::move(mi));
        cer = std::make_shared<optical::CerenkovParams>(mat);

        optical::ScintillationParams::Input si;
        for (auto const& s : scint)
        {
            si.resolution_scale.push_back(s.resolution);
            ImportMaterialScintSpectrum ms;
            ms.yield_per_energy = s.yield;
            ms.components = s.comps;
            si.materials.push_back(ms);
        }
        sci = std::make_shared<optical::ScintillationParams>(si);

        ParticleParams::Input pi;
        pi.push_back({"electron", pdg::electron(), units::MevMass{emass},
                      units::ElementaryCharge{-1}, constants::stable_decay_constant});
        pi.push_back({"positron", pdg::positron(), units::MevMass{emass},
                      units::ElementaryCharge{1}, constants::stable_decay_constant});
        particles = std::make_shared<ParticleParams>(std::move(pi));
        pstate = CollectionStateStore<ParticleStateData, MemSpace::host>(particles->host_ref(), 1);
        sim = std::make_shared<SimParams>();
        sstate = CollectionStateStore<SimStateData, MemSpace::host>(sim->host_ref(), 1);
    }

    //! Volume whose optical material is m (alt: the second volume of material 0)
    VolumeId volume_of(size_t m, bool alt = false) const
    {
        size_t const n = tabs.size();
        if (alt && m == 0)
            return VolumeId(n + 1);
        return VolumeId((m + n - 2) % n);
    }
    //! MaterialView of optical material m through either constructor
    optical::MaterialView view(size_t m, bool through_volume, bool alt = false) const
    {
        if (through_volume)
            return optical::MaterialView(mat->host_ref(), volume_of(m, alt));
        return optical::MaterialView(mat->host_ref(), OpticalMaterialId(m));
    }

    ParticleTrackView particle(double energy_mev, bool positron)
    {
        ParticleTrackView::Initializer_t init;
        init.particle_id = particles->find(positron ? pdg::positron() : pdg::electron());
        init.energy = units::MevEnergy{energy_mev};
        ParticleTrackView v(particles->host_ref(), pstate.ref(), TrackSlotId(0));
        v = init;
        return v;
    }
    SimTrackView simview(double step)
    {
        SimTrackView::Initializer_t init;
        init.event_id = EventId{0};
        init.parent_id = TrackId{0};
        SimTrackView v(sim->host_ref(), sstate.ref(), TrackSlotId(0));
        v = init;
        v.step_length(step);
        v.status(TrackStatus::alive);
        return v;
    }
    //! kinetic energy [MeV] of an electron with speed beta (long double)
    double energy_of_beta(double beta) const
    {
        LD g = 1 / std::sqrt((1 - LD(beta)) * (1 + LD(beta)));
        return double(LD(emass) * (g - 1));
    }
};

//! beta lattice of a table for the generator/offload parts (all < 1)
std::vector<double> beta_lattice(Tab const& t, bool thorough)
{
    LD nmin = t.n.front(), nmax = t.n.back();
    std::vector<double> b;
    auto add = [&](LD v) {
        if (v > 0 && v < 0.9999999L)
            b.push_back(double(v));
    };
    add(0.9L / nmax);  // clearly below threshold
    add((1 - 1e-9L) / nmax);  // just below
    for (LD f : {0.9L, 0.5L, 0.25L})
        if (thorough || f != 0.25L)
            add(1 / (nmin + f * (nmax - nmin)));  // part of the table above threshold
    add((1 + 1e-3L) / nmin);  // whole table just above
    add(0.5L * (1 / nmin + 1));
    add(0.999L);
    std::sort(b.begin(), b.end());
    b.erase(std::unique(b.begin(), b.end()), b.end());
    return b;
}

//! fine beta lattice for the dN/dx part (includes 1)
std::vector<double> beta_lattice_fine(Tab const& t)
{
    std::vector<double> b;
    auto add = [&](LD v) {
        if (v > 0 && v <= 1)
            b.push_back(double(v));
    };
    for (size_t i = 0; i < t.n.size(); ++i)
    {
        LD thr = 1 / LD(t.n[i]);
        for (LD r : {-1e-3L, -1e-6L, -1e-9L, 0.0L, 1e-9L, 1e-6L, 1e-3L})
            add(thr * (1 + r));
        double x = double(thr);
        for (int k = 0; k < 3; ++k)
        {
            x = std::nextafter(x, 0.0);
            add(x);
        }
        x = double(thr);
        for (int k = 0; k < 3; ++k)
        {
            x = std::nextafter(x, 2.0);
            add(x);
        }
        if (i + 1 < t.n.size())
            for (LD f : {0.1L, 0.5L, 0.9L})
                add(1 / (t.n[i] + f * (LD(t.n[i + 1]) - t.n[i])));
    }
    for (LD v : {1e-3L, 0.1L, 0.5L, 0.9L, 0.99L, 0.999999L, 1 - 1e-12L, 1.0L})
        add(v);
    add(std::nextafter(1.0, 0.0));
    std::sort(b.begin(), b.end());
    b.erase(std::unique(b.begin(), b.end()), b.end());
    return b;
}

LD dot3(LD const* a, LD const* b)
{
    return a[0] * b[0] + a[1] * b[1] + a[2] * b[2];
}

struct PhotonCheck
{
    vf::Run& R;
    std::string const& cid;
    std::string where;  // signature prefix: "cerenkov" / "scint"
    std::string finite_class;  // signature suffix for non-finite photons (input class)

    //! message is built only for the first occurrence of a signature (or in replay/verbose
    //! mode): a systematic failure fires millions of times
    template<class F>
    void fail(std::string const& what, F&& make_msg) const
    {
        std::string sig = where + ":" + what;
        static std::set<std::string> seen;
        if (seen.insert(sig).second || R.verbose())
            R.violation(sig, cid, make_msg());
        else
            R.violation(sig, cid, std::string());
    }

    //! checks common to both processes; returns false if the photon is not even finite.
    //! ctx() builds the (expensive) description of the photon lazily.
    template<class Ctx>
    bool common(TrackInitializer const& p,
                GeneratorDistributionData const& dist,
                Ctx&& ctx,
                double ortho_extra,
                double* out_ortho = nullptr) const
    {
        bool finite = std::isfinite(p.energy.value()) && std::isfinite(p.time);
        for (int i = 0; i < 3; ++i)
            finite = finite && std::isfinite(p.position[i]) && std::isfinite(p.direction[i])
                     && std::isfinite(p.polarization[i]);
        auto vec = [](Real3 const& v) {
            return fmt("(%s,%s,%s)", dstr(v[0]).c_str(), dstr(v[1]).c_str(), dstr(v[2]).c_str());
        };
        if (!finite)
        {
            fail("not-finite" + finite_class, [&] {
                return fmt("%s: E=%s t=%s pos=%s dir=%s pol=%s", ctx().c_str(),
                           dstr(p.energy.value()).c_str(), dstr(p.time).c_str(),
                           vec(p.position).c_str(), vec(p.direction).c_str(),
                           vec(p.polarization).c_str());
            });
            return false;
        }
        if (!(p.energy.value() > 0))
            fail("energy-not-positive",
                 [&] { return fmt("%s: E=%s", ctx().c_str(), dstr(p.energy.value()).c_str()); });

        LD d[3], q[3];
        for (int i = 0; i < 3; ++i)
        {
            d[i] = p.direction[i];
            q[i] = p.polarization[i];
        }
        LD nd = std::sqrt(dot3(d, d)), nq = std::sqrt(dot3(q, q));
        if (std::fabs(nd - 1) > TOL)
            fail("dir-not-unit", [&] { return fmt("%s: |dir|-1=%.3Le dir=%s", ctx().c_str(), nd - 1, vec(p.direction).c_str()); });
        if (std::fabs(nq - 1) > TOL)
            fail("pol-not-unit", [&] { return fmt("%s: |pol|-1=%.3Le pol=%s", ctx().c_str(), nq - 1, vec(p.polarization).c_str()); });
        LD dq = dot3(d, q);
        if (out_ortho)
            *out_ortho = double(std::fabs(dq));
        if (std::fabs(dq) > TOL + ortho_extra)
        {
            // Signature class.  ScintillationGenerator rebuilds |cos theta| as
            // sqrt(1 - (1 - cos^2)): cancellation leaves an error <= ~2.5 eps/|cos| (capped at
            // ~2 sqrt(eps)).  A failure inside that envelope is the precision loss; anything
            // larger (e.g. a wrong sign) keeps the plain signature.
            std::string sig = "pol-not-orthogonal";
            LD c = std::fabs(d[2]);
            LD envelope = 16 * EPS + std::min(LD(2.5L * EPS) / std::max(c, LD(1e-300L)), LD(3e-8L));
            if (where == "scint" && std::fabs(dq) <= envelope)
                sig += "[cancellation at small |cos theta|]";
            fail(sig, [&] {
                return fmt("%s: dir.pol=%.3Le (tol %.2e) dir=%s pol=%s", ctx().c_str(), dq,
                           TOL + ortho_extra, vec(p.direction).c_str(), vec(p.polarization).c_str());
            });
        }

        // position on the chord pre -> post.  pos_i = fma(u, post_i - pre_i, pre_i) is one
        // rounding of an exact point of the segment: |err_i| <= eps/2 * max(|pre_i|,|post_i|);
        // the margin is 4 eps * (largest coordinate), i.e. > 8x that bound.
        auto const& a = dist.points[StepPoint::pre].pos;
        auto const& b = dist.points[StepPoint::post].pos;
        LD dl[3], w[3], big = 0;
        for (int i = 0; i < 3; ++i)
        {
            dl[i] = LD(b[i]) - LD(a[i]);
            w[i] = LD(p.position[i]) - LD(a[i]);
            big = std::max({big, LD(std::fabs(a[i])), LD(std::fabs(b[i]))});
        }
        LD l2 = dot3(dl, dl);
        LD t = dot3(w, dl) / l2;
        LD tolp = 4 * EPS * big + 1e-300L;
        LD tolt = 2 * tolp / std::sqrt(l2);
        LD perp = 0;
        for (int i = 0; i < 3; ++i)
            perp = std::max(perp, std::fabs(w[i] - t * dl[i]));
        if (perp > tolp || t < -tolt || t > 1 + tolt)
            fail("position-off-segment", [&] {
                return fmt("%s: parameter t=%.17Lg, distance from the chord %.3Le (tol %.3Le); pos=%s "
                           "pre=%s post=%s",
                           ctx().c_str(), t, perp, tolp, vec(p.position).c_str(), vec(a).c_str(),
                           vec(b).c_str());
            });
        if (!(p.time >= dist.time))
            fail("time-before-prestep", [&] {
                return fmt("%s: time=%s < pre-step time %s", ctx().c_str(), dstr(p.time).c_str(),
                           dstr(dist.time).c_str());
            });
        return true;
    }
};

}  // namespace

//---------------------------------------------------------------------------//
int main(int argc, char** argv)
{
    setenv("CELER_LOG", "error", 0);  // MaterialParams warns about n < 1 (intended letter)
    setenv("CELER_LOG_LOCAL", "error", 0);
    vf::Run R(argc, argv, "C20", "c20_optical_gen");
    bool const thorough = R.thorough();
    World W(thorough);
    auto const& alpha = thorough ? vf::alphabet_u7() : vf::alphabet_u5();
    auto const dirs = make_dirs(thorough);
    auto const variants = make_variants();
    auto const& mref = W.mat->host_ref();
    auto const& cref = W.cer->host_ref();
    auto const& sref = W.sci->host_ref();
    LD const K = LD(constants::alpha_fine_structure)
                 / (LD(constants::hbar_planck) * LD(constants::c_light));
    uint64_t outer = 0;  // outermost enumeration index (sharding)
    bool const list_cases = getenv("C20_LIST") != nullptr;  // debugging aid: print block ids

    //// dndx ////
    for (size_t m = 0; m < W.tabs.size(); ++m)
    {
        Tab const& t = W.tabs[m];
        auto betas = beta_lattice_fine(t);
        for (int z : {-1, +1, -2, +2})
        {
            uint64_t idx = outer++;
            if (!R.mine(idx))
                continue;
            std::string cid = fmt("dndx:m=%s,z=%d", t.name.c_str(), z);
            if (!R.want(cid))
                continue;
            R.begin_case(cid, 60);
            // view through the VolumeId constructor for z > 0 (z = +2: the duplicate volume),
            // through the OpticalMaterialId constructor for z < 0
            optical::MaterialView mv = W.view(m, z > 0, z == 2);
            if (!mv || mv.material_id() != OpticalMaterialId(m))
                R.violation("material-view:wrong-material-for-volume", cid,
                            fmt("volume %u -> material %u, expected %zu",
                                W.volume_of(m, z == 2).unchecked_get(),
                                mv.material_id().unchecked_get(), m));
            if (optical::MaterialView(mref, VolumeId(W.tabs.size())))
                R.violation("material-view:non-optical-volume-is-true", cid, "volume n");
            optical::CerenkovDndxCalculator calc(mv, cref, units::ElementaryCharge(z));
            // reference for the charge-scaling claim: unit charge, material-id constructor
            optical::CerenkovDndxCalculator calc1(W.view(m, false), cref, units::ElementaryCharge(1));
            LD nmax = t.n.back(), nmin = t.n.front();
            LD bound = K * LD(z * z) * LD(native_value_from(units::MevEnergy(1.0)))
                       * (LD(t.e.back()) - LD(t.e.front())) * (1 + 1e-12L);
            for (double b : betas)
            {
                double v = calc(units::LightSpeed(b));
                R.count("evaluations");
                R.count("dndx_evaluations");
                LD bn = LD(b) * nmax;
                std::string ctx = fmt("beta=%s (beta*n_max-1=%.3Le)", dstr(b).c_str(), bn - 1);
                if (!std::isfinite(v) || v < 0)
                    R.violation("dndx:negative-or-nan", cid, fmt("%s: dN/dx=%s", ctx.c_str(), dstr(v).c_str()));
                // code compares fl(1/beta) > n_max: 1 rounding -> 4 eps guard band
                if (bn < 1 - 4 * EPS)
                {
                    R.tag("dndx:below-threshold");
                    if (v != 0)
                        R.violation("dndx:nonzero-below-threshold", cid,
                                    fmt("%s: dN/dx=%s", ctx.c_str(), dstr(v).c_str()));
                }
                else if (bn <= 1 + 4 * EPS)
                    R.tag("dndx:at-threshold(unchecked)");
                else
                {
                    R.tag(v == 0 ? "dndx:above-threshold-clamped-to-0" : "dndx:above-threshold");
                    R.tag(LD(b) * nmin > 1 ? "dndx:whole-table" : "dndx:partial-table");
                    if (v != 0)
                        R.nontrivial(vf::hash_mix(vf::hash_str(cid), vf::hash_pod(b)));
                }
                if (v > double(bound))
                    R.violation("dndx:above-documented-bound", cid,
                                fmt("%s: dN/dx=%s > alpha z^2/(hbar c) (Emax-Emin)=%.17Lg", ctx.c_str(),
                                    dstr(v).c_str(), bound));
                // dN/dx = z^2 * (...): z^2 in {1, 4} is a power of two, so the scaling is exact
                double v1 = calc1(units::LightSpeed(b));
                if (std::isfinite(v) && v != double(z * z) * v1)
                    R.violation("dndx:not-proportional-to-charge-squared", cid,
                                fmt("%s: dN/dx(z=%d)=%s, dN/dx(z=+1)=%s", ctx.c_str(), z,
                                    dstr(v).c_str(), dstr(v1).c_str()));
                R.outcome(vf::hash_mix(vf::hash_str(cid), vf::hash_pod(v)));
            }
            R.end_case();
        }
    }

    //// CerenkovOffload ////
    {
        Scripts S{alpha, 3};
        std::vector<double> steps = {1e-4, 0.15, 25.0};
        std::vector<size_t> dsel = {0, 7, 12};  // +x, oblique, near-pole
        for (size_t m = 0; m < W.tabs.size(); ++m)
        {
            Tab const& t = W.tabs[m];
            auto betas = beta_lattice(t, thorough);
            for (double bpre : betas)
                for (double bpost_req : betas)
                {
                    uint64_t idx = outer++;
                    if (!R.mine(idx))
                        continue;
                    std::string cid = fmt("offc:m=%s,bpre=%s,bpost=%s", t.name.c_str(),
                                          dstr(bpre).c_str(), dstr(bpost_req).c_str());
                    if (!R.want(cid))
                        continue;
                    R.begin_case(cid, 60);
                    bool nontriv = false;
                    for (double step : steps)
                        for (int positron = 0; positron < 2; ++positron)
                            for (size_t di : dsel)
                                for (size_t vi : {size_t(0), size_t(1)})
                                {
                                    Variant const& var = variants[vi];
                                    OffloadPreStepData pre;
                                    pre.speed = units::LightSpeed(bpre);
                                    pre.pos = {var.pre[0], var.pre[1], var.pre[2]};
                                    pre.time = var.time;
                                    pre.material = OpticalMaterialId(m);
                                    auto particle = W.particle(W.energy_of_beta(bpost_req), positron);
                                    auto sim = W.simview(step);
                                    Real3 pos = pre.pos;
                                    for (int i = 0; i < 3; ++i)
                                        pos[i] += 0.9 * step * dirs[di].d[i];
                                    optical::MaterialView mv = W.view(m, positron != 0);
                                    CerenkovOffload off(particle, sim, mv, pos, cref, pre);
                                    double bpost = particle.speed().value();
                                    LD bm = 0.5L * (LD(bpre) + LD(bpost));
                                    LD bn = bm * LD(t.n.back());
                                    for (uint64_t s = 0; s < S.size(); ++s)
                                    {
                                        auto script = S(s);
                                        CapEngine rng(script, R.seed(), WORD_CAP);
                                        GeneratorDistributionData r;
                                        try
                                        {
                                            r = off(rng);
                                        }
                                        catch (c20::DrawCap const&)
                                        {
                                            R.violation("offload-cerenkov:draws-unbounded", cid,
                                                        fmt("script %s", Scripts::str(script).c_str()));
                                            continue;
                                        }
                                        R.count("evaluations");
                                        R.count("offload_cerenkov_evaluations");
                                        R.maxi("max_words_cerenkov_offload", rng.words());
                                        std::string ctx
                                            = fmt("step=%s %s dir=%s var=%zu script=%s: beta_mean*n_max-1=%.3Le num_photons=%u",
                                                  dstr(step).c_str(), positron ? "e+" : "e-",
                                                  dirs[di].name.c_str(), vi,
                                                  Scripts::str(script).c_str(), bn - 1, r.num_photons);
                                        if (bool(r) != (r.num_photons > 0))
                                            R.violation("offload-cerenkov:inconsistent-validity", cid, ctx);
                                        // beta_mean is one rounding away from the exact mean and
                                        // 1/beta another one: 1e-12 guard band
                                        if (bn < 1 - 1e-12L)
                                        {
                                            R.tag("offc:below-threshold");
                                            if (r.num_photons != 0 || bool(r))
                                                R.violation("offload-cerenkov:photons-below-threshold", cid, ctx);
                                        }
                                        else
                                        {
                                            R.tag(r.num_photons ? "offc:above-threshold,photons"
                                                                : "offc:above-threshold,none-sampled");
                                        }
                                        if (r)
                                        {
                                            nontriv = true;
                                            bool same
                                                = r.time == pre.time && r.step_length == step
                                                  && r.charge.value() == (positron ? 1.0 : -1.0)
                                                  && r.material == pre.material
                                                  && r.points[StepPoint::pre].speed.value() == bpre
                                                  && r.points[StepPoint::post].speed.value() == bpost;
                                            for (int i = 0; i < 3; ++i)
                                                same = same && r.points[StepPoint::pre].pos[i] == pre.pos[i]
                                                       && r.points[StepPoint::post].pos[i] == pos[i];
                                            if (!same)
                                                R.violation("offload-cerenkov:step-data-not-copied", cid, ctx);
                                            R.maxi("max_num_photons_cerenkov_offload", r.num_photons);
                                            // Not judged here (the property does not speak about
                                            // the count; PoissonDistribution belongs to C15): the
                                            // Gaussian branch (mean > 16) casts a negative deviate
                                            // to unsigned
                                            if (r.num_photons > 1000000u)
                                                R.tag("offc:num_photons>1e6 (negative Gaussian deviate cast to "
                                                      "unsigned in PoissonDistribution; recorded, not judged)");
                                        }
                                    }
                                }
                    if (nontriv)
                        R.nontrivial(vf::hash_str(cid));
                    R.end_case();
                    if (R.expired())
                        break;
                }
        }
    }

    //// ScintillationOffload ////
    {
        Scripts S{alpha, 3};
        std::vector<double> edeps = {0.0, 1e-3, 0.05, 0.75, 2.4, 30.0};
        for (size_t m = 0; m < W.scint.size(); ++m)
            for (double edep : edeps)
            {
                uint64_t idx = outer++;
                if (!R.mine(idx))
                    continue;
                std::string cid = fmt("offs:m=%s,edep=%s", W.scint[m].name.c_str(), dstr(edep).c_str());
                if (!R.want(cid))
                    continue;
                R.begin_case(cid, 60);
                LD mean = LD(W.scint[m].yield) * edep;
                for (int positron = 0; positron < 2; ++positron)
                    for (size_t vi = 0; vi < variants.size(); ++vi)
                    {
                        Variant const& var = variants[vi];
                        OffloadPreStepData pre;
                        // pre-step speed differs from the post-step speed of the 9.25 MeV
                        // particle (0.99862874...) so that the copy oracle below can tell the
                        // two step points apart; two letters, alternating with the variant
                        pre.speed = units::LightSpeed((vi % 2) ? 0.3 : 0.9);
                        pre.pos = {var.pre[0], var.pre[1], var.pre[2]};
                        pre.time = var.time;
                        pre.material = OpticalMaterialId(m);
                        auto particle = W.particle(9.25, positron);
                        auto sim = W.simview(var.step);
                        Real3 pos = pre.pos;
                        for (int i = 0; i < 3; ++i)
                            pos[i] += 0.9 * var.step * dirs[7].d[i];
                        ScintillationOffload off(particle, sim, pos, units::MevEnergy(edep), sref, pre);
                        for (uint64_t s = 0; s < S.size(); ++s)
                        {
                            auto script = S(s);
                            CapEngine rng(script, R.seed(), WORD_CAP);
                            GeneratorDistributionData r;
                            try
                            {
                                r = off(rng);
                            }
                            catch (c20::DrawCap const&)
                            {
                                R.violation("offload-scint:draws-unbounded", cid,
                                            fmt("script %s", Scripts::str(script).c_str()));
                                continue;
                            }
                            R.count("evaluations");
                            R.count("offload_scint_evaluations");
                            R.maxi("max_words_scint_offload", rng.words());
                            std::string ctx = fmt("%s var=%zu script=%s: mean=%.6Lg num_photons=%u",
                                                  positron ? "e+" : "e-", vi,
                                                  Scripts::str(script).c_str(), mean, r.num_photons);
                            if (bool(r) != (r.num_photons > 0))
                                R.violation("offload-scint:inconsistent-validity", cid, ctx);
                            if (mean == 0 && (r.num_photons != 0 || bool(r)))
                                R.violation("offload-scint:photons-without-deposit", cid, ctx);
                            R.tag(mean == 0 ? "offs:no-deposit"
                                            : (mean > 10 ? "offs:gaussian" : "offs:poisson"));
                            if (r)
                            {
                                bool same = r.time == pre.time && r.step_length == var.step
                                            && r.charge.value() == (positron ? 1.0 : -1.0)
                                            && r.material == pre.material
                                            && r.points[StepPoint::pre].speed.value() == pre.speed.value()
                                            && r.points[StepPoint::post].speed.value()
                                                   == particle.speed().value();
                                for (int i = 0; i < 3; ++i)
                                    same = same && r.points[StepPoint::pre].pos[i] == pre.pos[i]
                                           && r.points[StepPoint::post].pos[i] == pos[i];
                                if (!same)
                                    R.violation("offload-scint:step-data-not-copied", cid, ctx);
                                R.maxi("max_num_photons_scint_offload", r.num_photons);
                                R.nontrivial(vf::hash_str(cid));
                            }
                        }
                    }
                R.end_case();
            }
    }

    //// CerenkovGenerator ////
    {
        Scripts S{alpha, 6, &vf::alphabet_u5()};  // thorough: A_u7^5 x A_u5; quick: A_u5^6
        for (size_t m = 0; m < W.tabs.size(); ++m)
        {
            Tab const& t = W.tabs[m];
            auto betas = beta_lattice(t, thorough);
            optical::MaterialView mv = W.view(m, m % 2 == 0, true);
            for (double bpre : betas)
                for (double bpost : betas)
                    for (size_t di = 0; di < dirs.size(); ++di)
                        for (size_t vi = 0; vi < variants.size(); ++vi)
                        {
                            uint64_t idx = outer++;
                            if (!R.mine(idx))
                                continue;
                            if (R.expired())
                                break;
                            std::string cid = fmt("cer:m=%s,bpre=%s,bpost=%s,dir=%s,var=%zu",
                                                  t.name.c_str(), dstr(bpre).c_str(),
                                                  dstr(bpost).c_str(), dirs[di].name.c_str(), vi);
                            if (list_cases)
                                fprintf(stderr, "%s\n", cid.c_str());
                            if (!R.want(cid))
                                continue;
                            Variant const& var = variants[vi];
                            // admissible input = what CerenkovOffload would hand over: it requests
                            // photons iff the real dN/dx at the mean speed is positive
                            double bmean = 0.5 * (bpre + bpost);
                            optical::CerenkovDndxCalculator calc(mv, cref, units::ElementaryCharge(var.charge));
                            if (!(calc(units::LightSpeed(bmean)) > 0))
                            {
                                R.tag("cer:skipped(no photons requested for this step)");
                                continue;
                            }
                            R.begin_case(cid, 120);
                            GeneratorDistributionData dist;
                            dist.num_photons = 2;
                            dist.time = var.time;
                            dist.step_length = var.step;
                            dist.charge = units::ElementaryCharge(var.charge);
                            dist.material = OpticalMaterialId(m);
                            dist.points[StepPoint::pre].speed = units::LightSpeed(bpre);
                            dist.points[StepPoint::post].speed = units::LightSpeed(bpost);
                            dist.points[StepPoint::pre].pos = {var.pre[0], var.pre[1], var.pre[2]};
                            for (int i = 0; i < 3; ++i)
                                dist.points[StepPoint::post].pos[i]
                                    = var.pre[i] + 0.9 * var.step * dirs[di].d[i];
                            // true parent direction of the *stored* segment
                            LD pd[3];
                            for (int i = 0; i < 3; ++i)
                                pd[i] = LD(dist.points[StepPoint::post].pos[i])
                                        - LD(dist.points[StepPoint::pre].pos[i]);
                            LD pn = std::sqrt(dot3(pd, pd));
                            for (int i = 0; i < 3; ++i)
                                pd[i] /= pn;
                            LD srot = std::sqrt(pd[0] * pd[0] + pd[1] * pd[1]);
                            // conditioning of rotate() (see header comment)
                            double cond = 0;
                            char const* rbranch = "rotate:pole";
                            if (srot >= 0.005L)
                            {
                                cond = double(3 * EPS / (srot * srot));
                                rbranch = srot < 0.02L ? "rotate:plain-branch(near its limit)"
                                                       : "rotate:plain-branch";
                            }
                            else if (srot > 0)
                            {
                                cond = double(2 * EPS / srot);
                                rbranch = "rotate:renormalising-branch";
                            }
                            LD binv = 2 / (LD(bpre) + LD(bpost));  // documented: mean speed
                            bool partial = binv > LD(t.n.front());
                            bool pre_below = LD(bpre) * LD(t.n.back()) < 1;
                            bool post_below = LD(bpost) * LD(t.n.back()) < 1;

                            optical::CerenkovGenerator gen(mv, cref, dist);
                            PhotonCheck chk{R, cid, "cerenkov",
                                            srot == 0 ? "[parent exactly along z]" : ""};
                            bool retried = false;
                            double worst_cone = 0, worst_ortho = 0;  // largest *accepted* errors
                            uint64_t block_hash = 0;
                            // signature class of a cone failure: the rotate() branch the parent
                            // direction selects (and the sign of its y component there)
                            std::string cone_sig = "off-cone";
                            if (srot > 0 && srot < 0.005L)
                                cone_sig += pd[1] < 0 ? "[rotate:renormalising-branch,parent y<0]"
                                                      : "[rotate:renormalising-branch,parent y>=0]";
                            // The recorded defect of that branch (sin(phi) rebuilt as
                            // +sqrt(1 - cos(phi)^2)) is EXACTLY a rotation into the frame of the
                            // mirrored parent (x, |y|, z): a photon that misses the cone about the
                            // true parent but lies on the cone about the mirrored parent shows the
                            // recorded defect and nothing else.  A photon that lies on neither
                            // cone gets its own, unrecorded signature.
                            bool const mirror_class = srot > 0 && srot < 0.005L && pd[1] < 0;
                            LD const pdm[3] = {pd[0], std::fabs(pd[1]), pd[2]};
                            std::string const unexplained_sig
                                = "off-both-cones[rotate:renormalising-branch,parent y<0: neither "
                                  "about the parent nor about its mirror image]";
                            double worst_mirror = 0;
                            for (uint64_t s = 0; s < S.size(); ++s)
                            {
                                auto script = S(s);
                                CapEngine rng(script, R.seed(), WORD_CAP);
                                uint64_t before = 0;
                                for (int ph = 0; ph < 2; ++ph)
                                {
                                    TrackInitializer p;
                                    try
                                    {
                                        p = gen(rng);
                                    }
                                    catch (c20::DrawCap const&)
                                    {
                                        R.violation("cerenkov:draws-unbounded", cid,
                                                    fmt("script %s photon %d: more than %llu words",
                                                        Scripts::str(script).c_str(), ph,
                                                        (unsigned long long)WORD_CAP));
                                        break;
                                    }
                                    uint64_t used = rng.words() - before;
                                    before = rng.words();
                                    R.maxi("max_words_per_cerenkov_photon", used);
                                    if (used > 10)
                                        retried = true;
                                    R.count("evaluations");
                                    R.count("cerenkov_photons");
                                    auto ctx = [&] {
                                        return fmt("script=%s photon=%d", Scripts::str(script).c_str(), ph);
                                    };
                                    double ortho = 0;
                                    if (!chk.common(p, dist, ctx, cond, &ortho))
                                        continue;
                                    if (ortho <= TOL + cond)
                                        worst_ortho = std::max(worst_ortho, ortho);
                                    double e = p.energy.value();
                                    // sampled as fma(back-front, xi, front), xi <= 1-2^-32: cannot
                                    // leave the table; 2 ulp slack for the rounding of (back-front)
                                    if (e < t.e.front() * (1 - 2 * EPS) || e > t.e.back() * (1 + 2 * EPS))
                                        chk.fail("energy-outside-table", [&] {
                                            return fmt("%s: E=%s not in [%s, %s]", ctx().c_str(), dstr(e).c_str(),
                                                       dstr(t.e.front()).c_str(), dstr(t.e.back()).c_str());
                                        });
                                    else
                                    {
                                        LD want = binv / interp(t, e);
                                        LD got = 0;
                                        for (int i = 0; i < 3; ++i)
                                            got += LD(p.direction[i]) * pd[i];
                                        LD err = std::fabs(got - want);
                                        LD errm = 0;
                                        if (mirror_class && !(err <= TOL + cond))
                                        {
                                            LD gotm = 0;
                                            for (int i = 0; i < 3; ++i)
                                                gotm += LD(p.direction[i]) * pdm[i];
                                            errm = std::fabs(gotm - want);
                                            if (errm <= TOL + cond)
                                                worst_mirror = std::max(worst_mirror, double(errm));
                                        }
                                        if (err <= TOL + cond)
                                            worst_cone = std::max(worst_cone, double(err));
                                        else
                                            chk.fail(mirror_class && !(errm <= TOL + cond)
                                                         ? unexplained_sig
                                                         : cone_sig, [&] {
                                                return fmt("%s: dir.parent=%.17Lg, 1/(n(E) beta_mean)=%.17Lg "
                                                           "(diff %.3Le, tol %.2e) E=%s n(E)=%.17Lg dir=(%s,%s,%s) "
                                                           "parent=(%.17Lg,%.17Lg,%.17Lg)",
                                                           ctx().c_str(), got, want, got - want, TOL + cond,
                                                           dstr(e).c_str(), interp(t, e),
                                                           dstr(p.direction[0]).c_str(),
                                                           dstr(p.direction[1]).c_str(),
                                                           dstr(p.direction[2]).c_str(), pd[0], pd[1], pd[2]);
                                            });
                                    }
                                    block_hash = vf::hash_mix(block_hash,
                                                              vf::hash_mix(vf::hash_pod(p.energy),
                                                                           vf::hash_pod(p.direction)));
                                }
                            }
                            R.outcome(block_hash);
                            R.tag(rbranch);
                            R.tag(partial ? "cer:table-partly-below-threshold(energy rejection)"
                                          : "cer:whole-table-above-threshold");
                            if (pre_below || post_below)
                                R.tag(pre_below ? "cer:pre-step-below-threshold" : "cer:post-step-below-threshold");
                            if (retried)
                                R.tag("cer:some-rejection-loop-retried");
                            R.maxi("worst_cone_error_1e-18", uint64_t(worst_cone * 1e18));
                            R.maxi("worst_mirrored_cone_error_1e-18(parent y<0)",
                                   uint64_t(worst_mirror * 1e18));
                            if (mirror_class)
                                R.tag("cer:cone-judged-about-mirrored-parent(recorded rotate defect)");
                            else if (srot > 0 && srot < 0.005L && pd[2] < 0)
                                R.tag("cer:renormalising-branch,z<0,y>=0(cone oracle live)");
                            R.maxi("worst_cerenkov_ortho_error_1e-18", uint64_t(worst_ortho * 1e18));
                            if (partial || pre_below || post_below || srot < 0.02L)
                                R.nontrivial(vf::hash_str(cid));
                            R.end_case();
                        }
        }
    }

    //// ScintillationGenerator ////
    {
        Scripts S{alpha, 6, &vf::alphabet_u5()};  // thorough: A_u7^5 x A_u5; quick: A_u5^6
        std::vector<std::array<double, 2>> speeds
            = {{0.99862874144970537, 0.99}, {0.1, 0.05}, {0.5, 0.5}, {0.3, 0.9},
               {0.05, 0.9},   // post/pre = 18 > 3: a sign flip of delta_speed gives a negative time
               {0.4, 0.0}};   // particle stopped within the step
        std::vector<size_t> dsel = {4, 7, 0, 12};  // per variant: +z, oblique, +x, near-pole
        for (size_t m = 0; m < W.scint.size(); ++m)
            for (size_t si = 0; si < speeds.size(); ++si)
                for (size_t vi = 0; vi < variants.size(); ++vi)
                    for (int charge : {-1, +1, 0})
                    {
                        uint64_t idx = outer++;
                        if (!R.mine(idx))
                            continue;
                        if (R.expired())
                            break;
                        std::string cid = fmt("sci:m=%s,speeds=%zu,var=%zu,q=%d",
                                              W.scint[m].name.c_str(), si, vi, charge);
                        if (!R.want(cid))
                            continue;
                        R.begin_case(cid, 120);
                        Variant const& var = variants[vi];
                        GeneratorDistributionData dist;
                        dist.num_photons = 3;
                        dist.time = var.time;
                        dist.step_length = var.step;
                        dist.charge = units::ElementaryCharge(charge);
                        dist.material = OpticalMaterialId(m);
                        dist.points[StepPoint::pre].speed = units::LightSpeed(speeds[si][0]);
                        dist.points[StepPoint::post].speed = units::LightSpeed(speeds[si][1]);
                        dist.points[StepPoint::pre].pos = {var.pre[0], var.pre[1], var.pre[2]};
                        for (int i = 0; i < 3; ++i)
                            dist.points[StepPoint::post].pos[i]
                                = var.pre[i] + 0.9 * var.step * dirs[dsel[vi]].d[i];
                        PhotonCheck chk{R, cid, "scint", ""};
                        bool rise_loop = false;
                        double worst_ortho = 0;  // largest *accepted* |dir.pol|
                        uint64_t block_hash = 0;
                        size_t const ncomp = W.scint[m].comps.size();
                        bool any_rise = false;
                        for (auto const& c : W.scint[m].comps)
                            any_rise = any_rise || c.rise_time > 0;
                        for (uint64_t s = 0; s < S.size(); ++s)
                        {
                            auto script = S(s);
                            optical::ScintillationGenerator gen(sref, dist);
                            // photon 0: script from the start (draws: component, 2 normal,
                            // cos, phi, pol angle | fraction, time...)
                            // photon 1: a new engine with the same script: the spare normal
                            // deviate is used (draws: component, cos, phi, pol angle, fraction,
                            // time | rise-time rejection...)
                            // photon 2: continues photon 1's engine (declared tail)
                            std::unique_ptr<CapEngine> rng;
                            uint64_t before = 0;
                            for (int ph = 0; ph < 3; ++ph)
                            {
                                if (ph < 2)
                                {
                                    rng = std::make_unique<CapEngine>(script, R.seed(), WORD_CAP);
                                    before = 0;
                                }
                                TrackInitializer p;
                                try
                                {
                                    p = gen(*rng);
                                }
                                catch (c20::DrawCap const&)
                                {
                                    R.violation("scint:draws-unbounded", cid,
                                                fmt("script %s photon %d: more than %llu words",
                                                    Scripts::str(script).c_str(), ph,
                                                    (unsigned long long)WORD_CAP));
                                    break;
                                }
                                uint64_t used = rng->words() - before;
                                before = rng->words();
                                R.maxi("max_words_per_scint_photon", used);
                                R.count("evaluations");
                                R.count("scint_photons");
                                // minimum draws: comp + (2 normal | 0 spare) + cos + phi + angle
                                // + (fraction unless neutral) + time
                                uint64_t base = 2 * (5 + (ph == 1 ? 0 : 2) + (charge ? 1 : 0));
                                if (ph < 2 && used > base + (any_rise ? 2 : 0))
                                    rise_loop = true;
                                if (ph < 2 && used < base)
                                    R.harness_error(fmt("draw accounting: %llu < %llu",
                                                        (unsigned long long)used,
                                                        (unsigned long long)base));
                                auto ctx = [&] {
                                    return fmt("script=%s photon=%d", Scripts::str(script).c_str(), ph);
                                };
                                double ortho = 0;
                                if (!chk.common(p, dist, ctx, 0.0, &ortho))
                                    continue;
                                if (ortho <= TOL)
                                    worst_ortho = std::max(worst_ortho, ortho);
                                else
                                    R.count("scint_photons_with_|dir.pol|>1e-12");
                                if (ph == 0 && s % 977 == 0)
                                    R.tag(p.direction[2] > 0 ? "scint:cos>0" : "scint:cos<=0");
                                block_hash = vf::hash_mix(block_hash,
                                                          vf::hash_mix(vf::hash_pod(p.energy),
                                                                       vf::hash_pod(p.direction)));
                            }
                        }
                        R.outcome(block_hash);
                        // which component the first canonical selects (own accumulation)
                        for (auto up : alpha)
                        {
                            LD tot = 0, acc = 0;
                            for (auto const& c : W.scint[m].comps)
                                tot += c.yield_frac;
                            size_t pick = ncomp - 1;
                            for (size_t c = 0; c + 1 < ncomp; ++c)
                            {
                                acc += W.scint[m].comps[c].yield_frac / tot;
                                if (acc > canon(up))
                                {
                                    pick = c;
                                    break;
                                }
                            }
                            R.tag(fmt("scint:component=%zu/%zu,rise%s0", pick, ncomp,
                                      W.scint[m].comps[pick].rise_time > 0 ? ">" : "="));
                        }
                        R.tag(charge ? "scint:charged" : "scint:neutral(end point)");
                        if (rise_loop)
                            R.tag("scint:rise-time-rejection-retried");
                        R.maxi("worst_scint_ortho_error_1e-18", uint64_t(worst_ortho * 1e18));
                        if (ncomp > 1 || any_rise || charge == 0)
                            R.nontrivial(vf::hash_str(cid));
                        R.end_case();
                    }
    }

    R.sample("cer:m=rising,bpre=0.72..,bpost=0.68.. (mean just above 1/n_max),dir=s1e-3+-,var=1 "
             "x all A_u^6 scripts x 2 photons");
    R.sample("sci:m=three,speeds=3,var=2,q=0 x all A_u^6 scripts x 3 photons (first / spare normal / tail)");
    R.sample("dndx:m=sublow,z=-1: every knot's 1/n at +-1e-3,+-1e-6,+-1e-9,+-1..3 ulp, mid-knot points, 1.0");
    R.sample("offc:m=barely,bpre=(1-1e-9)/n_max,bpost=0.9/n_max x step{1e-4,0.15,25} x e-/e+ x A_u^3");
    return R.finish();
}
