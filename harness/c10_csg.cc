// C10 - CSG logic rewriting and encoding preserve the region's boolean function.
//
// Explicit-state exploration (E2) of the CsgTree state machine.  A state is a CsgTree as built
// by a sequence of *effective* insert() calls (an effective insert appends exactly one node, so
// the printed tree determines its own history: the state graph is a tree plus self loops, and
// states need no hash set to be de-duplicated).  At every state with fewer than K nodes ALL
// operations of the insert alphabet are applied (effective or not), the returned node is
// compared with the truth table of the *intended* expression (kept by the harness: an array
// expected[node] that never looks at the library's tree), and every effective result becomes a
// successor state.  On every state the rewriting / encoding operations of the library are
// applied and compared with truth tables over all 2^n sense assignments (n <= 4, 16 bits):
//
//   tbl     own recursive evaluator on the tree == expected[] (insert never changes a function)
//   post    PostfixLogicBuilder (with and without surface remapping) -> LogicEvaluator, every node
//   flag    InternalSurfaceFlagger says "simple" => function is a conjunction of literals
//   str     build_infix_string / InfixStringBuilder, parsed back by the harness
//   sense   SenseEvaluator on real surfaces (3 planes + sphere) at one point per assignment
//   simp    simplify(tree, start), every start: every node's table unchanged
//   repl    replace_and_simplify(tree, n, True|False), every node n: every node's table agrees
//           on the assignments consistent with the replacement; a thrown RuntimeError ("logical
//           contradiction") only if NO assignment is consistent; then on the replaced tree
//           (the order UnitProto::build uses): post, flag, str, simplify again, and dm-aliased:
//           transform_negated_joins on the replaced tree (it contains Aliased nodes and literal
//           constants; trees with a double negation stay excluded) with the volume sets {}, {all
//           alias nodes + all nodes nothing refers to}, every alias node alone, every negated
//           surface alone: volumes keep their function on the consistent assignments, no
//           negation of a join is left, infix of every node (signatures demorgan-aliased:*)
//   dm      transform_negated_joins with volume sets {}, every single node, every pair, all:
//           volumes keep their function, no negation of a join is left, then an explicit
//           infix encoding of every node (fully parenthesised, and with the outermost
//           parentheses omitted; tokens placed in front of a guard page) -> InfixEvaluator,
//           post/flag/str on the new volume roots
//
//   chain   a second, directed lattice (see check_chains): right-nested alternating all/any chains
//           whose postfix stack depth is 5 .. M-1 | M .. M+8 (M = LogicStack::max_stack_depth()):
//           post/flag/str on the root for depth < M, and for every depth {surfaces, one volume
//           with the emitted faces+logic} -> UnitInput -> OrangeParams: rejected ("logic depth")
//           iff depth >= M, else scalars.max_logic_depth == depth and LogicEvaluator on the
//           STORED logic reproduces the table (UnitInserter::calc_max_depth, OrangeParams limit)
//
// Bounds: K = 6 (quick) / 7 (thorough) effective inserts for each of two surface labellings
// ({0,1,2,3} and {5,1,6,3}); a third, strictly decreasing labelling {7,4,2,0} (largest id
// inserted first) with K-1 inserts gets the insert transitions and the encoder checks only (no
// simplify / replace / exchange / De Morgan, no chains);
// insert transitions at every state with < K nodes.  Thorough, labelling 1: depth-7 leaves get
// the encoder checks only.  Part "csg_asan" (thorough): K = 5 under AddressSanitizer.
// The exploration is depth-first and sharded by the index of the depth-<=5 prefix state.
//
// Case ids of the chain lattice: "chain:L<lab>/depth=<d>/outer=<all|any>/neg=<0|1>".
// Case id = the state's path, e.g. "L0/s0/s1/n2/a2.3/n5" (labelling 0; surface, surface,
// not{2}, all{2,3}, not{5}).  --case <path> rebuilds exactly that state and runs every check
// and every insert transition from it.
#include <array>
#include <cstdint>
#include <cstring>
#include <algorithm>
#include <functional>
#include <map>
#include <memory>
#include <set>
#include <sstream>
#include <string>
#include <utility>
#include <variant>
#include <vector>

#include "corecel/Assert.hh"
#include "corecel/cont/Span.hh"
#include "orange/OrangeData.hh"
#include "orange/OrangeInput.hh"
#include "orange/OrangeParams.hh"
#include "orange/OrangeTypes.hh"
#include "orange/orangeinp/CsgTree.hh"
#include "orange/orangeinp/CsgTreeUtils.hh"
#include "orange/orangeinp/CsgTypes.hh"
#include "orange/orangeinp/detail/InternalSurfaceFlagger.hh"
#include "orange/orangeinp/detail/PostfixLogicBuilder.hh"
#include "orange/orangeinp/detail/SenseEvaluator.hh"
#include "orange/surf/VariantSurface.hh"
#include "orange/univ/detail/InfixEvaluator.hh"
#include "orange/univ/detail/LogicEvaluator.hh"
#include "orange/univ/detail/LogicStack.hh"
#include <sys/mman.h>
#include <unistd.h>

#include "engine/harness.hh"

using namespace celeritas;
using namespace celeritas::orangeinp;
using vf::fmt;

namespace
{
//---------------------------------------------------------------------------//
// Truth tables: bit a of a table = value under assignment a; bit k of a = sense of the k-th
// inserted surface (1 = outside = the Surface node is true).
using TT = uint16_t;
constexpr TT VARM[4] = {0xAAAA, 0xCCCC, 0xF0F0, 0xFF00};
inline TT flip_var(TT v, int k)
{
    int sh = 1 << k;
    return TT(((v & VARM[k]) >> sh) | ((v & TT(~VARM[k])) << sh));
}
inline TT mask_of(int nsurf)
{
    return TT((1u << (1u << nsurf)) - 1u);
}

// Surface labelling: k-th inserted surface -> LocalSurfaceId.  Labelling 1 is sparse and not
// monotone so that face sorting / remapping is not the identity.  Labelling 2 is strictly
// DECREASING (the first-inserted surface has the largest id, the last one the smallest; the
// sorted face list is the exact reverse of the order of first use): encoder checks only.
struct Lab
{
    int index;
    uint32_t sid[4];
    int8_t var_of[8];
};
Lab make_lab(int index)
{
    static uint32_t const ids[3][4] = {{0, 1, 2, 3}, {5, 1, 6, 3}, {7, 4, 2, 0}};
    Lab l;
    l.index = index;
    for (int i = 0; i < 8; ++i)
        l.var_of[i] = -1;
    for (int k = 0; k < 4; ++k)
    {
        l.sid[k] = ids[index][k];
        l.var_of[ids[index][k]] = int8_t(k);
    }
    return l;
}

//---------------------------------------------------------------------------//
// Local counters (flushed into vf::Run at the end; the map lookups are too slow for hot loops)
enum Ctr
{
    c_states,
    c_transitions,
    c_evaluations,
    c_op_insert,
    c_op_simplify,
    c_op_replace,
    c_op_demorgan,
    c_op_postfix,
    c_op_infix,
    c_op_flag,
    c_op_string,
    c_op_sense,
    c_derived_trees,
    c_op_params,
    c_N
};
char const* const ctr_name[c_N] = {"states", "transitions", "evaluations", "op_insert",
                                   "op_simplify", "op_replace", "op_demorgan", "op_postfix",
                                   "op_infix_eval", "op_flagger", "op_infix_string",
                                   "op_sense_eval", "derived_trees", "op_orange_params"};
enum Tag
{
    t_ins_new,
    t_ins_dedup,
    t_ins_short_circuit,
    t_ins_identity_dropped,
    t_ins_duplicate_operand,
    t_ins_empty_join,
    t_ins_single_alias,
    t_ins_complementary_kept,
    t_ins_unsorted,
    t_ins_neg_const,
    t_ins_double_neg,
    t_ins_neg_join,
    t_ins_surface_again,
    t_simp_noop,
    t_simp_changed,
    t_repl_ok,
    t_repl_threw_unsat,
    t_repl_unsat_nothrow,
    t_repl_unknown_surfaces,
    t_repl_surface_to_const,
    t_repl_alias_created,
    t_repl_def_moved,
    t_repl_join_rewritten,
    t_repl_resimplify_changed,
    t_dm_no_negated_join,
    t_dm_negated_join,
    t_dm_nested_negated_join,
    t_dm_join_kept_and_negated,
    t_dm_tree_grew,
    t_dm_tree_shrank,
    t_dm_volume_remapped,
    t_dm_volume_const,
    t_post_remap_nonidentity,
    t_post_faces_subset,
    t_post_const,
    t_flag_simple_literal,
    t_flag_simple_conj,
    t_flag_simple_unsat,
    t_flag_internal,
    t_flag_internal_but_conj,
    t_infix_eval,
    t_infix_eval_open,
    t_infix_skipped_false,
    t_str_negated_join,
    t_dma_run,
    t_dma_skipped_dblneg,
    t_dma_alias_volume,
    t_dma_negsurf_volume,
    t_dma_alias_referenced,
    t_chain_built,
    t_chain_evaluated,
    t_chain_accepted,
    t_chain_rejected,
    t_N
};
char const* const tag_name[t_N] = {
    "insert:new-node", "insert:dedup-existing", "insert:short-circuit-constant",
    "insert:identity-operand-dropped", "insert:duplicate-operand", "insert:empty-join",
    "insert:single-operand-alias", "insert:complementary-pair-kept", "insert:unsorted-operands",
    "insert:negated-constant", "insert:double-negation", "insert:negated-join",
    "insert:surface-again", "simplify:no-op", "simplify:changed", "replace:ok",
    "replace:threw-unsatisfiable", "replace:unsatisfiable-no-throw", "replace:unknown-surfaces",
    "replace:surface-became-constant", "replace:alias-created", "replace:definition-moved",
    "replace:join-rewritten", "replace:resimplify-changed", "demorgan:no-negated-join",
    "demorgan:negated-join", "demorgan:nested-negated-join", "demorgan:join-kept-and-negated",
    "demorgan:tree-grew", "demorgan:tree-shrank", "demorgan:volume-remapped",
    "demorgan:volume-constant", "postfix:remap-nonidentity", "postfix:faces-proper-subset",
    "postfix:constant", "flagger:simple-literal", "flagger:simple-conjunction",
    "flagger:simple-unsatisfiable", "flagger:internal", "flagger:internal-but-conjunction",
    "infix:evaluated", "infix:evaluated-outer-parentheses-omitted", "infix:skipped-false-constant", "string:negated-join",
    "demorgan-aliased:run", "demorgan-aliased:skipped-double-negation",
    "demorgan-aliased:alias-node-as-volume", "demorgan-aliased:negated-surface-as-volume",
    "demorgan-aliased:alias-referenced-by-a-node", "chain:built", "chain:evaluated-by-LogicEvaluator",
    "chain:accepted-by-OrangeParams", "chain:rejected-logic-depth"};

struct Stats
{
    uint64_t ctr[c_N] = {};
    uint64_t tag[t_N] = {};
    uint64_t max_postfix_depth = 0, max_nodes = 0, max_dm_nodes = 0, max_logic_len = 0;
    uint64_t max_postfix_depth_chain = 0;
    uint64_t state_tags = 0;  // tags hit by the state being checked (bit mask)
    void hit(Tag t)
    {
        ++tag[t];
        state_tags |= (uint64_t(1) << t);
    }
};
Stats S;

//---------------------------------------------------------------------------//
// Own analysis of a tree: truth table, syntactic support and shape of every node.  Never calls
// a library visitor; detects malformed trees (dangling / cyclic references) instead of
// recursing into them.
struct Info
{
    bool ok = true;
    std::string why;
    std::vector<TT> val;
    std::vector<uint8_t> supp;
    bool has_alias = false, explicit_false = false, neg_join = false, nested_neg_join = false;
    bool dbl_neg = false;
};

struct Analyzer
{
    CsgTree const& t;
    Lab const& lab;
    Info& I;
    std::vector<char> st;
    Analyzer(CsgTree const& tree, Lab const& l, Info& info) : t(tree), lab(l), I(info)
    {
        I.val.assign(t.size(), 0);
        I.supp.assign(t.size(), 0);
        st.assign(t.size(), 0);
    }
    void bad(std::string const& m)
    {
        if (I.ok)
        {
            I.ok = false;
            I.why = m;
        }
    }
    size_t dealias(size_t i, int guard = 64) const
    {
        while (i < t.size() && guard-- > 0)
        {
            auto const* a = std::get_if<Aliased>(&t[NodeId(i)]);
            if (!a)
                break;
            i = a->node.unchecked_get();
        }
        return i;
    }
    TT get(size_t i)
    {
        if (i >= t.size())
        {
            bad(fmt("reference to node %zu outside the tree (size %zu)", i, size_t(t.size())));
            return 0;
        }
        if (st[i] == 2)
            return I.val[i];
        if (st[i] == 1)
        {
            bad(fmt("cyclic reference through node %zu", i));
            return 0;
        }
        st[i] = 1;
        Node const& nd = t[NodeId(i)];
        TT r = 0;
        uint8_t sp = 0;
        if (nd.valueless_by_exception())
        {
            bad(fmt("node %zu is valueless", i));
        }
        else if (std::holds_alternative<True>(nd))
        {
            r = 0xFFFF;
        }
        else if (std::holds_alternative<False>(nd))
        {
            r = 0;
            I.explicit_false = true;
        }
        else if (auto const* a = std::get_if<Aliased>(&nd))
        {
            I.has_alias = true;
            size_t c = a->node.unchecked_get();
            r = get(c);
            if (c < t.size())
                sp = I.supp[c];
        }
        else if (auto const* n = std::get_if<Negated>(&nd))
        {
            size_t c = n->node.unchecked_get();
            r = TT(~get(c));
            if (c < t.size())
            {
                sp = I.supp[c];
                size_t d = dealias(c);
                if (d < t.size() && i > 1)
                {
                    if (auto const* j = std::get_if<Joined>(&t[NodeId(d)]))
                    {
                        I.neg_join = true;
                        for (NodeId o : j->nodes)
                        {
                            size_t od = dealias(o.unchecked_get());
                            if (od < t.size() && std::holds_alternative<Joined>(t[NodeId(od)]))
                                I.nested_neg_join = true;
                        }
                    }
                    else if (std::holds_alternative<Negated>(t[NodeId(d)]))
                        I.dbl_neg = true;
                }
            }
        }
        else if (auto const* s = std::get_if<Surface>(&nd))
        {
            uint32_t id = s->id.unchecked_get();
            if (id >= 8 || lab.var_of[id] < 0)
                bad(fmt("node %zu: unknown surface id %u", i, id));
            else
            {
                r = VARM[lab.var_of[id]];
                sp = uint8_t(1u << lab.var_of[id]);
            }
        }
        else if (auto const* j = std::get_if<Joined>(&nd))
        {
            if (j->op != op_and && j->op != op_or)
                bad(fmt("node %zu: joined with operator %u", i, unsigned(j->op)));
            r = (j->op == op_and) ? TT(0xFFFF) : TT(0);
            for (NodeId o : j->nodes)
            {
                size_t c = o.unchecked_get();
                TT v = get(c);
                r = (j->op == op_and) ? TT(r & v) : TT(r | v);
                if (c < t.size())
                    sp |= I.supp[c];
            }
        }
        st[i] = 2;
        I.val[i] = r;
        I.supp[i] = sp;
        return r;
    }
};

Info analyze(CsgTree const& t, Lab const& lab)
{
    Info I;
    Analyzer A(t, lab, I);
    for (size_t i = 0; i < t.size(); ++i)
        A.get(i);
    return I;
}

std::string tree_str(CsgTree const& t)
{
    std::ostringstream os;
    os << t;
    if (!t.volumes().empty())
    {
        os << " volumes[";
        for (auto v : t.volumes())
            os << v.unchecked_get() << ' ';
        os << ']';
    }
    return os.str();
}

std::string tt_str(TT v, int nsurf)
{
    std::string s;
    for (int a = 0; a < (1 << nsurf); ++a)
        s += ((v >> a) & 1) ? '1' : '0';
    return s;
}

bool same_nodes(CsgTree const& a, CsgTree const& b, size_t n)
{
    if (a.size() < n || b.size() < n)
        return false;
    for (size_t i = 0; i < n; ++i)
        if (a[NodeId(i)] != b[NodeId(i)])
            return false;
    return true;
}

//---------------------------------------------------------------------------//
// Parser for build_infix_string output:
//   expr := 'T' | 'F' | ('+'|'-') uint | '!' expr | ('all'|'any') '(' expr {', ' expr} ')'
struct StrParser
{
    std::string const& s;
    Lab const& lab;
    size_t p = 0;
    bool ok = true;
    bool saw_negated_join = false;
    TT expr(int depth = 0)
    {
        if (!ok || p >= s.size() || depth > 1024)
        {
            ok = false;
            return 0;
        }
        char c = s[p];
        if (c == 'T')
        {
            ++p;
            return 0xFFFF;
        }
        if (c == 'F')
        {
            ++p;
            return 0;
        }
        if (c == '+' || c == '-')
        {
            ++p;
            if (p >= s.size() || s[p] < '0' || s[p] > '9')
            {
                ok = false;
                return 0;
            }
            unsigned id = 0;
            while (p < s.size() && s[p] >= '0' && s[p] <= '9' && id < 100000)
                id = id * 10 + unsigned(s[p++] - '0');
            if (id >= 8 || lab.var_of[id] < 0)
            {
                ok = false;
                return 0;
            }
            TT v = VARM[lab.var_of[id]];
            return c == '+' ? v : TT(~v);
        }
        if (c == '!')
        {
            ++p;
            if (p < s.size() && s[p] == 'a')
                saw_negated_join = true;
            return TT(~expr(depth + 1));
        }
        bool is_all = s.compare(p, 4, "all(") == 0;
        bool is_any = s.compare(p, 4, "any(") == 0;
        if (!is_all && !is_any)
        {
            ok = false;
            return 0;
        }
        p += 4;
        TT r = expr(depth + 1);
        while (ok && s.compare(p, 2, ", ") == 0)
        {
            p += 2;
            TT v = expr(depth + 1);
            r = is_all ? TT(r & v) : TT(r | v);
        }
        if (!ok || p >= s.size() || s[p] != ')')
        {
            ok = false;
            return 0;
        }
        ++p;
        return r;
    }
};

//---------------------------------------------------------------------------//
// Explicit infix encoding (InfixEvaluator.hh: "Explicit infix notation explicitly spells out
// the intersection operator"): every join is parenthesised, negation only in front of a face.
// Returns 0 = ok, 1 = contains the constant False (not expressible: lnot must precede a face),
// 2 = contains the negation of a join (not supported by InfixEvaluator)
int emit_infix(CsgTree const& t, Lab const& lab, size_t i, std::vector<logic_int>& out, int guard)
{
    if (guard <= 0 || i >= t.size())
        return 2;
    Node const& nd = t[NodeId(i)];
    if (std::holds_alternative<True>(nd))
    {
        out.push_back(logic::ltrue);
        return 0;
    }
    if (std::holds_alternative<False>(nd))
        return 1;
    if (auto const* a = std::get_if<Aliased>(&nd))
        return emit_infix(t, lab, a->node.unchecked_get(), out, guard - 1);
    if (auto const* s = std::get_if<Surface>(&nd))
    {
        out.push_back(logic_int(lab.var_of[s->id.unchecked_get()]));
        return 0;
    }
    if (auto const* n = std::get_if<Negated>(&nd))
    {
        size_t c = n->node.unchecked_get();
        int g = 64;
        while (c < t.size() && g-- > 0)
        {
            auto const* a = std::get_if<Aliased>(&t[NodeId(c)]);
            if (!a)
                break;
            c = a->node.unchecked_get();
        }
        if (c >= t.size())
            return 2;
        if (auto const* s = std::get_if<Surface>(&t[NodeId(c)]))
        {
            out.push_back(logic::lnot);
            out.push_back(logic_int(lab.var_of[s->id.unchecked_get()]));
            return 0;
        }
        if (std::holds_alternative<True>(t[NodeId(c)]))
            return 1;
        return 2;
    }
    auto const& j = std::get<Joined>(nd);
    out.push_back(logic::lopen);
    bool first = true;
    for (NodeId o : j.nodes)
    {
        if (!first)
            out.push_back(j.op);
        first = false;
        int rc = emit_infix(t, lab, o.unchecked_get(), out, guard - 1);
        if (rc)
            return rc;
    }
    out.push_back(logic::lclose);
    return 0;
}

//---------------------------------------------------------------------------//
// Token buffer that ends exactly at an inaccessible page: reading one token past the end of an
// expression faults (SIGSEGV -> crash record naming the case) instead of silently succeeding.
struct GuardedTokens
{
    char* base = nullptr;
    size_t page = 4096;
    GuardedTokens()
    {
        page = size_t(sysconf(_SC_PAGESIZE));
        void* m = mmap(nullptr, 2 * page, PROT_READ | PROT_WRITE, MAP_PRIVATE | MAP_ANONYMOUS, -1, 0);
        if (m == MAP_FAILED || mprotect(static_cast<char*>(m) + page, page, PROT_NONE) != 0)
        {
            fprintf(stderr, "HARNESS-ERROR guard page\n");
            _exit(3);
        }
        base = static_cast<char*>(m);
    }
    logic_int const* place(logic_int const* src, size_t n)
    {
        logic_int* dst = reinterpret_cast<logic_int*>(base + page) - n;
        std::memcpy(dst, src, n * sizeof(logic_int));
        return dst;
    }
};

//---------------------------------------------------------------------------//
struct Checker
{
    GuardedTokens guard;
    vf::Run& R;
    Lab lab;
    std::vector<VariantSurface> surfaces;
    bool do_sense = true;
    bool demorgan_on_replaced = true;

    Checker(vf::Run& r, Lab const& l) : R(r), lab(l)
    {
        surfaces.assign(8, VariantSurface{PlaneX{1e9}});
        surfaces[lab.sid[0]] = PlaneX{0.0};
        surfaces[lab.sid[1]] = PlaneY{0.0};
        surfaces[lab.sid[2]] = PlaneZ{0.0};
        surfaces[lab.sid[3]] = Sphere{Real3{0, 0, 0}, 3.0};
    }

    // The exploration is depth-first, so the first failing state is not the smallest one:
    // keep, per signature, the violation found in the state with the shortest history and
    // hand those to vf::Run at the end (replay mode reports immediately).
    struct Kept
    {
        size_t depth;
        std::string cid, msg;
    };
    static std::map<std::string, Kept>& kept()
    {
        static std::map<std::string, Kept> k;
        return k;
    }
    static uint64_t& total_violations()
    {
        static uint64_t n = 0;
        return n;
    }
    void violation(std::string const& sig, std::string const& cid, std::string const& msg)
    {
        ++total_violations();
        if (R.replay())
        {
            R.violation(sig, cid, msg);
            return;
        }
        size_t depth = size_t(std::count(cid.begin(), cid.end(), '/'));
        auto it = kept().find(sig);
        if (it == kept().end())
            kept().emplace(sig, Kept{depth, cid, msg});
        else if (depth < it->second.depth)
            it->second = Kept{depth, cid, msg};
    }
    static void flush_violations(vf::Run& R)
    {
        for (auto const& kv : kept())
            R.violation(kv.first, kv.second.cid, kv.second.msg);
        if (total_violations())
            R.count("violations_found_total", total_violations());
    }

    //-----------------------------------------------------------------------//
    // post / flag / str / sense on every node of one tree; `I` = own analysis of the same tree
    void check_encoders(CsgTree const& t,
                        Info const& I,
                        int nsurf,
                        std::string const& cid,
                        char const* ctx,
                        bool with_sense,
                        std::vector<size_t> const* only_nodes = nullptr)
    {
        using celeritas::detail::LogicEvaluator;
        using celeritas::detail::LogicStack;
        TT const mask = mask_of(nsurf);
        int const nassign = 1 << nsurf;
        size_t const N = t.size();
        if (I.explicit_false)
        {
            violation("tree:explicit-false-node", cid,
                      fmt("[%s] an explicit False node is in the tree (documented: never): %s",
                          ctx, tree_str(t).c_str()));
            return;
        }
        std::vector<size_t> all_nodes;
        if (!only_nodes)
        {
            for (size_t i = 0; i < N; ++i)
                all_nodes.push_back(i);
            only_nodes = &all_nodes;
        }

        // -- postfix --
        std::vector<LocalSurfaceId> mapping = calc_surfaces(t);
        for (size_t i = 1; i < mapping.size(); ++i)
            if (!(mapping[i - 1] < mapping[i]))
                violation("calc_surfaces:not-sorted-unique", cid,
                          fmt("[%s] calc_surfaces not strictly increasing on %s", ctx,
                              tree_str(t).c_str()));
        bool remap_nonid = false;
        for (size_t i = 0; i < mapping.size(); ++i)
            if (mapping[i].unchecked_get() != i)
                remap_nonid = true;
        if (remap_nonid)
            S.hit(t_post_remap_nonidentity);
        orangeinp::detail::PostfixLogicBuilder build_plain(t);
        orangeinp::detail::PostfixLogicBuilder build_mapped(t, mapping);
        for (size_t i : *only_nodes)
        {
            for (int variant = 0; variant < 2; ++variant)
            {
                auto res = variant == 0 ? build_plain(NodeId(i)) : build_mapped(NodeId(i));
                auto const& faces = res.first;
                auto const& lgc = res.second;
                ++S.ctr[c_op_postfix];
                ++S.ctr[c_transitions];
                S.max_logic_len = std::max<uint64_t>(S.max_logic_len, lgc.size());
                std::string err;
                // structure: what UnitInserter / OrangeParams check, and what LogicEvaluator needs
                int depth = 0, maxd = 0;
                uint8_t used = 0;
                if (lgc.empty())
                    err = "empty logic";
                for (size_t q = 0; q < lgc.size() && err.empty(); ++q)
                {
                    logic_int tok = lgc[q];
                    if (!logic::is_operator_token(tok))
                    {
                        if (tok >= faces.size())
                            err = fmt("token %zu: face index %u >= number of faces %zu", q, tok,
                                      faces.size());
                        else
                            used |= uint8_t(1u << tok);
                        ++depth;
                    }
                    else if (tok == logic::ltrue)
                        ++depth;
                    else if (tok == logic::land || tok == logic::lor)
                    {
                        if (depth < 2)
                            err = fmt("token %zu: binary operator with stack depth %d", q, depth);
                        --depth;
                    }
                    else if (tok == logic::lnot)
                    {
                        if (depth < 1)
                            err = fmt("token %zu: negation on an empty stack", q);
                    }
                    else
                        err = fmt("token %zu: %u is not a postfix token", q, tok);
                    maxd = std::max(maxd, depth);
                }
                if (err.empty() && depth != 1)
                    err = fmt("operators do not balance (final stack depth %d)", depth);
                if (err.empty() && maxd >= int(LogicStack::max_stack_depth()))
                    err = fmt("stack depth %d exceeds LogicStack", maxd);
                S.max_postfix_depth = std::max<uint64_t>(S.max_postfix_depth, maxd);
                // faces: strictly increasing, all used, and exactly the surfaces of the node
                uint8_t face_vars = 0;
                int var_of_face[8];
                if (err.empty() && faces.size() > 4)
                    err = fmt("%zu faces", faces.size());
                for (size_t f = 0; f < faces.size() && err.empty(); ++f)
                {
                    if (f > 0 && !(faces[f - 1] < faces[f]))
                        err = "faces not strictly increasing";
                    uint32_t sid = faces[f].unchecked_get();
                    if (variant == 1)
                    {
                        if (sid >= mapping.size())
                        {
                            err = fmt("face %zu = %u is not an index into the mapping", f, sid);
                            break;
                        }
                        sid = mapping[sid].unchecked_get();
                    }
                    if (sid >= 8 || lab.var_of[sid] < 0)
                    {
                        err = fmt("face %zu is unknown surface %u", f, sid);
                        break;
                    }
                    var_of_face[f] = lab.var_of[sid];
                    face_vars |= uint8_t(1u << var_of_face[f]);
                    if (!(used & (1u << f)))
                        err = fmt("face %zu is never referenced by the logic", f);
                }
                if (err.empty() && face_vars != I.supp[i])
                    err = fmt("faces (variable mask %x) are not the surfaces of the node (mask %x)",
                              face_vars, I.supp[i]);
                TT got = 0;
                if (err.empty())
                {
                    std::array<Sense, 8> senses;
                    senses.fill(Sense::inside);
                    LogicEvaluator eval(make_span(lgc));
                    for (int a = 0; a < nassign; ++a)
                    {
                        for (size_t f = 0; f < faces.size(); ++f)
                            senses[f] = ((a >> var_of_face[f]) & 1) ? Sense::outside
                                                                     : Sense::inside;
                        bool v = eval(Span<Sense const>(senses.data(), faces.size()));
                        got |= TT(TT(v) << a);
                    }
                    S.ctr[c_evaluations] += nassign;
                    if ((got ^ I.val[i]) & mask)
                        err = fmt("LogicEvaluator table %s != node table %s",
                                  tt_str(got, nsurf).c_str(), tt_str(I.val[i], nsurf).c_str());
                }
                if (!err.empty())
                {
                    std::string l;
                    for (auto tok : lgc)
                        l += logic::is_operator_token(tok)
                                 ? std::string(1, logic::to_char(logic::OperatorToken(tok)))
                                       + " "
                                 : fmt("%u ", tok);
                    std::string fs;
                    for (auto f : faces)
                        fs += fmt("%u ", f.unchecked_get());
                    violation(variant ? "postfix:remapped-logic-differs" : "postfix:logic-differs",
                              cid,
                              fmt("[%s] node %zu of %s: %s; logic \"%s\" faces {%s}", ctx, i,
                                  tree_str(t).c_str(), err.c_str(), l.c_str(), fs.c_str()));
                }
                if (variant == 0)
                {
                    if (faces.empty())
                        S.hit(t_post_const);
                    else if (int(faces.size()) < nsurf)
                        S.hit(t_post_faces_subset);
                }
            }
        }

        // -- internal surface flagger: two query orders (the cache is filled differently) --
        for (int order = 0; order < 2; ++order)
        {
            orangeinp::detail::InternalSurfaceFlagger flag(t);
            for (size_t q = 0; q < only_nodes->size(); ++q)
            {
                size_t i = (*only_nodes)[order == 0 ? q : only_nodes->size() - 1 - q];
                bool internal = flag(NodeId(i));
                ++S.ctr[c_op_flag];
                ++S.ctr[c_transitions];
                TT v = I.val[i] & mask;
                bool conj = true;
                int nlit = 0;
                for (int k = 0; k < nsurf; ++k)
                    if (I.supp[i] & (1u << k))
                    {
                        ++nlit;
                        if (v & flip_var(v, k) & mask)
                            conj = false;
                    }
                if (!internal)
                {
                    if (!conj)
                        violation("flagger:simple-but-not-conjunction", cid,
                                  fmt("[%s] node %zu of %s flagged as free of internal surfaces but "
                                      "its table %s stays true when a single face is flipped",
                                      ctx, i, tree_str(t).c_str(), tt_str(v, nsurf).c_str()));
                    if (order == 0)
                        S.hit(v == 0 ? t_flag_simple_unsat
                                     : (nlit >= 2 ? t_flag_simple_conj : t_flag_simple_literal));
                }
                else if (order == 0)
                    S.hit(conj ? t_flag_internal_but_conj : t_flag_internal);
            }
        }

        // -- infix string --
        for (size_t i : *only_nodes)
        {
            std::string s = build_infix_string(t, NodeId(i));
            ++S.ctr[c_op_string];
            ++S.ctr[c_transitions];
            StrParser P{s, lab};
            TT got = P.expr();
            if (P.ok && P.p != s.size())
                P.ok = false;
            if (P.saw_negated_join)
                S.hit(t_str_negated_join);
            if (!P.ok)
                violation("string:unparsable", cid,
                          fmt("[%s] node %zu of %s: build_infix_string gave \"%s\"", ctx, i,
                              tree_str(t).c_str(), s.c_str()));
            else if ((got ^ I.val[i]) & mask)
                violation("string:expression-differs", cid,
                          fmt("[%s] node %zu of %s: \"%s\" has table %s, node has %s", ctx, i,
                              tree_str(t).c_str(), s.c_str(), tt_str(got, nsurf).c_str(),
                              tt_str(I.val[i], nsurf).c_str()));
            ++S.ctr[c_evaluations];
        }

        // -- sense evaluator on real surfaces --
        if (with_sense && do_sense)
        {
            for (int a = 0; a < nassign; ++a)
            {
                double sc = ((a >> 3) & 1) ? 4.0 : 1.0;
                Real3 pos{sc * ((a & 1) ? 1.0 : -1.0), sc * ((a & 2) ? 1.0 : -1.0),
                          sc * ((a & 4) ? 1.0 : -1.0)};
                orangeinp::detail::SenseEvaluator eval(t, surfaces, pos);
                for (size_t i : *only_nodes)
                {
                    SignedSense ss = eval(NodeId(i));
                    ++S.ctr[c_op_sense];
                    bool want = (I.val[i] >> a) & 1;
                    if ((ss == SignedSense::inside) != want || ss == SignedSense::on)
                        violation("sense:evaluator-differs", cid,
                                  fmt("[%s] node %zu of %s at assignment %d: SenseEvaluator %d, "
                                      "table says %d",
                                      ctx, i, tree_str(t).c_str(), a, int(ss), int(want)));
                }
            }
            S.ctr[c_transitions] += nassign;
            S.ctr[c_evaluations] += uint64_t(nassign) * only_nodes->size();
        }
    }

    //-----------------------------------------------------------------------//
    void check_simplify(CsgTree const& t, Info const& I, int nsurf, TT care,
                        std::string const& cid, char const* ctx, bool all_starts)
    {
        size_t const N = t.size();
        for (size_t start = 2; start < N; ++start)
        {
            CsgTree c = t;
            try
            {
                simplify(&c, NodeId(start));
            }
            catch (std::exception const& e)
            {
                violation("simplify:threw", cid,
                          fmt("[%s] simplify(start=%zu) on %s threw %s", ctx, start,
                              tree_str(t).c_str(), e.what()));
                continue;
            }
            ++S.ctr[c_op_simplify];
            ++S.ctr[c_transitions];
            bool changed = !(c.size() == N && same_nodes(c, t, N));
            if (std::strcmp(ctx, "built") == 0)
                S.hit(changed ? t_simp_changed : t_simp_noop);
            else if (changed)
                S.hit(t_repl_resimplify_changed);
            if (changed)
            {
                ++S.ctr[c_derived_trees];
                Info J = analyze(c, lab);
                std::string err;
                if (!J.ok)
                    err = "malformed tree: " + J.why;
                else if (c.size() != N)
                    err = "number of nodes changed";
                else
                    for (size_t i = 0; i < N && err.empty(); ++i)
                        if ((J.val[i] ^ I.val[i]) & care)
                            err = fmt("node %zu: table %s became %s (care %s)", i,
                                      tt_str(I.val[i], nsurf).c_str(),
                                      tt_str(J.val[i], nsurf).c_str(),
                                      tt_str(care, nsurf).c_str());
                S.ctr[c_evaluations] += N;
                if (!err.empty())
                    violation("simplify:function-changed", cid,
                              fmt("[%s] simplify(start=%zu): %s; before %s after %s", ctx, start,
                                  err.c_str(), tree_str(t).c_str(), tree_str(c).c_str()));
            }
            if (!all_starts)
                break;
        }
    }

    //-----------------------------------------------------------------------//
    // The infix STRING of a tree that has NOT been simplified yet: a surface (or any other
    // node) exchanged for a constant, as CsgTree::exchange / the first half of
    // replace_and_simplify leave it - constants then sit INSIDE joins.  build_infix_string is
    // documented to print such trees; every node's string must still parse to the node's table.
    void check_exchange_strings(CsgTree const& t, int nsurf, std::string const& cid)
    {
        size_t const N = t.size();
        TT const mask = mask_of(nsurf);
        for (size_t n = 2; n < N; ++n)
            for (int cst = 0; cst < 2; ++cst)
            {
                CsgTree c = t;
                try
                {
                    if (cst)
                        c.exchange(NodeId(n), Node{True{}});
                    else
                        c.exchange(NodeId(n), Node{False{}});
                }
                catch (std::exception const&)
                {
                    S.hit(t_repl_threw_unsat);
                    continue;
                }
                Info J = analyze(c, lab);
                if (!J.ok)
                    continue;
                for (size_t i = 0; i < N; ++i)
                {
                    std::string s;
                    try
                    {
                        s = build_infix_string(c, NodeId(i));
                    }
                    catch (std::exception const& e)
                    {
                        violation("string:throws-on-exchanged-tree", cid,
                                  fmt("exchange(%zu,%s) on %s, node %zu: %s", n,
                                      cst ? "True" : "False", tree_str(t).c_str(), i, e.what()));
                        break;
                    }
                    ++S.ctr[c_op_string];
                    ++S.ctr[c_transitions];
                    ++S.ctr[c_evaluations];
                    StrParser P{s, lab};
                    TT got = P.expr();
                    if (P.ok && P.p != s.size())
                        P.ok = false;
                    if (!P.ok)
                        violation("string:unparsable", cid,
                                  fmt("[after exchange(%zu,%s)] node %zu of %s: build_infix_string "
                                      "gave \"%s\"",
                                      n, cst ? "True" : "False", i, tree_str(c).c_str(), s.c_str()));
                    else if ((got ^ J.val[i]) & mask)
                        violation("string:expression-differs", cid,
                                  fmt("[after exchange(%zu,%s)] node %zu of %s: \"%s\" has table %s, "
                                      "node has %s",
                                      n, cst ? "True" : "False", i, tree_str(c).c_str(), s.c_str(),
                                      tt_str(got, nsurf).c_str(), tt_str(J.val[i], nsurf).c_str()));
                }
            }
    }

    //-----------------------------------------------------------------------//
    void check_replace(CsgTree const& t, Info const& I, int nsurf, std::string const& cid)
    {
        size_t const N = t.size();
        TT const mask = mask_of(nsurf);
        for (size_t n = 2; n < N; ++n)
            for (int cst = 0; cst < 2; ++cst)
            {
                TT care = TT((cst ? I.val[n] : TT(~I.val[n])) & mask);
                CsgTree c = t;
                bool threw = false;
                std::string what;
                std::vector<NodeId> unknown;
                try
                {
                    unknown = cst ? replace_and_simplify(&c, NodeId(n), Node{True{}})
                                  : replace_and_simplify(&c, NodeId(n), Node{False{}});
                }
                catch (RuntimeError const& e)
                {
                    threw = true;
                    what = e.what();
                }
                catch (std::exception const& e)
                {
                    violation("replace:unexpected-exception", cid,
                              fmt("replace_and_simplify(%zu,%s) on %s threw %s", n,
                                  cst ? "True" : "False", tree_str(t).c_str(), e.what()));
                    continue;
                }
                ++S.ctr[c_op_replace];
                ++S.ctr[c_transitions];
                std::string rid = fmt("replace(%zu,%s)", n, cst ? "True" : "False");
                if (threw)
                {
                    if (care != 0)
                        violation("replace:spurious-contradiction", cid,
                                  fmt("%s on %s threw although assignments %s are consistent: %s",
                                      rid.c_str(), tree_str(t).c_str(),
                                      tt_str(care, nsurf).c_str(), what.substr(0, 300).c_str()));
                    else
                        S.hit(t_repl_threw_unsat);
                    continue;
                }
                if (care == 0)
                {
                    // nothing is promised when the replacement is unsatisfiable
                    S.hit(t_repl_unsat_nothrow);
                    continue;
                }
                S.hit(t_repl_ok);
                ++S.ctr[c_derived_trees];
                Info J = analyze(c, lab);
                std::string err;
                if (!J.ok)
                    err = "malformed tree: " + J.why;
                else if (c.size() != N)
                    err = "number of nodes changed";
                else
                    for (size_t i = 0; i < N && err.empty(); ++i)
                        if ((J.val[i] ^ I.val[i]) & care)
                            err = fmt("node %zu: table %s became %s on consistent assignments %s",
                                      i, tt_str(I.val[i], nsurf).c_str(),
                                      tt_str(J.val[i], nsurf).c_str(),
                                      tt_str(care, nsurf).c_str());
                S.ctr[c_evaluations] += N;
                if (!err.empty())
                {
                    violation("replace:function-changed", cid,
                              fmt("%s: %s; before %s after %s", rid.c_str(), err.c_str(),
                                  tree_str(t).c_str(), tree_str(c).c_str()));
                    continue;
                }
                // returned "unknown" nodes are surfaces that are still in the tree
                if (!unknown.empty())
                    S.hit(t_repl_unknown_surfaces);
                for (NodeId u : unknown)
                    if (!(u < c.size()) || !std::holds_alternative<Surface>(c[u]))
                        violation("replace:unknown-node-not-a-surface", cid,
                                  fmt("%s on %s returned node %u", rid.c_str(),
                                      tree_str(t).c_str(), u.unchecked_get()));
                // coverage tags
                for (size_t i = 2; i < N; ++i)
                {
                    Node const& before = t[NodeId(i)];
                    Node const& after = c[NodeId(i)];
                    if (before == after)
                        continue;
                    if (std::holds_alternative<Surface>(before))
                        S.hit(t_repl_surface_to_const);
                    if (std::holds_alternative<Aliased>(after))
                        S.hit(t_repl_alias_created);
                    else if (std::holds_alternative<Joined>(after))
                        S.hit(std::holds_alternative<Joined>(before) ? t_repl_join_rewritten
                                                                      : t_repl_def_moved);
                    else
                        S.hit(t_repl_def_moved);
                }
                // the order production uses: replace, then encode every volume
                std::string ctx = "after " + rid;
                check_encoders(c, J, nsurf, cid, ctx.c_str(), false);
                check_simplify(c, J, nsurf, care, cid, ctx.c_str(), false);
                if (demorgan_on_replaced)
                    check_demorgan(c, J, nsurf, cid, false, true, care, ctx.c_str());
            }
    }

    //-----------------------------------------------------------------------//
    // aliased = false: trees as built by insert() (alias-free by construction).
    // aliased = true: a tree produced by replace_and_simplify (the order UnitProto::build uses:
    // build, replace the exterior, then encode the volumes): contains Aliased nodes and literal
    // constants; the volumes' functions must be kept on the `care` assignments (those consistent
    // with the replacement).  DeMorganSimplifier dereferences aliases throughout and the
    // library's own unit test (transform_negated_joins_with_aliases) runs it on such a tree;
    // trees with a double negation (through an alias) stay excluded.  Volume sets: {}, {all alias
    // nodes and all nodes no other node refers to}, and every alias node / negated surface alone.
    void check_demorgan(CsgTree const& t, Info const& I, int nsurf, std::string const& cid,
                        bool pairs, bool aliased = false, TT care = 0xFFFF,
                        char const* ctx = "built")
    {
        using celeritas::detail::InfixEvaluator;
        size_t const N = t.size();
        TT const mask = TT(mask_of(nsurf) & care);
        int const nassign = 1 << nsurf;
        std::string const pre = aliased ? "demorgan-aliased:" : "demorgan:";
        // documented precondition of DeMorganSimplifier
        if (!aliased && (I.has_alias || I.dbl_neg))
            return;
        if (aliased && I.dbl_neg)
        {
            S.hit(t_dma_skipped_dblneg);
            return;
        }
        std::vector<std::vector<size_t>> sets;
        sets.push_back({});
        if (aliased)
        {
            S.hit(t_dma_run);
            std::vector<char> referenced(N, 0);
            for (size_t i = 2; i < N; ++i)
            {
                Node const& nd = t[NodeId(i)];
                auto ref = [&](NodeId c) {
                    if (c.unchecked_get() < N)
                    {
                        referenced[c.unchecked_get()] = 1;
                        if (std::holds_alternative<Aliased>(t[c]))
                            S.hit(t_dma_alias_referenced);
                    }
                };
                if (auto const* a = std::get_if<Aliased>(&nd))
                    referenced[a->node.unchecked_get() < N ? a->node.unchecked_get() : 0] = 1;
                else if (auto const* n = std::get_if<Negated>(&nd))
                    ref(n->node);
                else if (auto const* j = std::get_if<Joined>(&nd))
                    for (NodeId o : j->nodes)
                        ref(o);
            }
            std::vector<size_t> top;
            for (size_t i = 2; i < N; ++i)
            {
                Node const& nd = t[NodeId(i)];
                bool is_alias = std::holds_alternative<Aliased>(nd);
                bool neg_surf = false;
                if (auto const* n = std::get_if<Negated>(&nd))
                {
                    size_t d = n->node.unchecked_get();
                    for (int g = 0; g < 64 && d < N; ++g)
                    {
                        auto const* a = std::get_if<Aliased>(&t[NodeId(d)]);
                        if (!a)
                            break;
                        d = a->node.unchecked_get();
                    }
                    neg_surf = d < N && std::holds_alternative<Surface>(t[NodeId(d)]);
                }
                if (is_alias || !referenced[i])
                    top.push_back(i);
                if (is_alias || neg_surf)
                {
                    sets.push_back({i});
                    S.hit(is_alias ? t_dma_alias_volume : t_dma_negsurf_volume);
                }
            }
            if (!top.empty())
                sets.push_back(top);
        }
        else
            for (size_t i = 0; i < N; ++i)
                sets.push_back({i});
        if (!aliased && N > 3)
        {
            std::vector<size_t> all;
            for (size_t i = 2; i < N; ++i)
                all.push_back(i);
            sets.push_back(all);
            std::vector<size_t> rev(all.rbegin(), all.rend());
            sets.push_back(rev);
        }
        if (pairs && !aliased)
            for (size_t i = 2; i < N; ++i)
                for (size_t j = i + 1; j < N; ++j)
                    sets.push_back({i, j});
        if (!aliased)
        {
            S.hit(I.neg_join ? t_dm_negated_join : t_dm_no_negated_join);
            if (I.nested_neg_join)
                S.hit(t_dm_nested_negated_join);
        }
        for (auto const& vols : sets)
        {
            CsgTree in = t;
            for (size_t v : vols)
                in.insert_volume(NodeId(v));
            CsgTree out;
            try
            {
                out = transform_negated_joins(in);
            }
            catch (std::exception const& e)
            {
                violation(pre + "threw", cid,
                          fmt("[%s] transform_negated_joins on %s threw %s", ctx,
                              tree_str(in).c_str(), e.what()));
                continue;
            }
            ++S.ctr[c_op_demorgan];
            ++S.ctr[c_transitions];
            ++S.ctr[c_derived_trees];
            S.max_dm_nodes = std::max<uint64_t>(S.max_dm_nodes, out.size());
            Info J = analyze(out, lab);
            std::string err;
            if (!J.ok)
                err = "malformed tree: " + J.why;
            else if (out.volumes().size() != vols.size())
                err = fmt("%zu volumes became %zu", vols.size(), out.volumes().size());
            else if (J.neg_join)
                err = "a negation of a join is left in the result";
            else
                for (size_t k = 0; k < vols.size() && err.empty(); ++k)
                {
                    size_t nv = out.volumes()[k].unchecked_get();
                    if (nv >= out.size())
                        err = fmt("volume %zu -> node %zu outside the tree", k, nv);
                    else if ((J.val[nv] ^ I.val[vols[k]]) & mask)
                        err = fmt("volume %zu (node %zu, table %s) -> node %zu with table %s", k,
                                  vols[k], tt_str(I.val[vols[k]], nsurf).c_str(), nv,
                                  tt_str(J.val[nv], nsurf).c_str());
                    else if (nv != vols[k])
                        S.hit(t_dm_volume_remapped);
                    if (vols[k] < 2)
                        S.hit(t_dm_volume_const);
                }
            S.ctr[c_evaluations] += vols.size();
            if (!err.empty())
            {
                violation(pre + "function-changed", cid,
                          fmt("[%s] transform_negated_joins: %s; in %s out %s", ctx, err.c_str(),
                              tree_str(in).c_str(), tree_str(out).c_str()));
                continue;
            }
            if (aliased)
                ;
            else if (out.size() > N)
                S.hit(t_dm_tree_grew);
            else if (out.size() < N)
                S.hit(t_dm_tree_shrank);
            if (!aliased && I.neg_join && out.size() > N)
            {
                // a join that is both used directly and negated is kept twice
                S.hit(t_dm_join_kept_and_negated);
            }
            // infix encoding of every node of the De Morgan'ed tree
            std::vector<logic_int> lgc;
            for (size_t i = 0; i < out.size(); ++i)
            {
                lgc.clear();
                int rc = emit_infix(out, lab, i, lgc, 64);
                if (rc == 1)
                {
                    S.hit(t_infix_skipped_false);
                    continue;
                }
                if (rc == 2)
                {
                    violation(pre + "negated-join-left", cid,
                              fmt("node %zu of %s is not expressible in infix logic", i,
                                  tree_str(out).c_str()));
                    continue;
                }
                // two spellings: every join parenthesised, and (for a join) the outermost
                // parentheses omitted as in the library's own InfixEvaluator examples.  The
                // tokens are placed directly in front of an inaccessible page so that a scan
                // past the end of the expression is a crash attributed to this case.
                bool is_join = lgc.size() > 1 && lgc.front() == logic::lopen;
                for (int spelling = 0; spelling < (is_join ? 2 : 1); ++spelling)
                {
                    size_t n = lgc.size() - (spelling ? 2 : 0);
                    logic_int const* p = guard.place(lgc.data() + (spelling ? 1 : 0), n);
                    InfixEvaluator eval(Span<logic_int const>(p, n));
                    TT got = 0;
                    for (int a = 0; a < nassign; ++a)
                    {
                        bool v = eval(
                            [a](FaceId f) { return bool((a >> f.unchecked_get()) & 1); });
                        got |= TT(TT(v) << a);
                    }
                    ++S.ctr[c_op_infix];
                    ++S.ctr[c_transitions];
                    S.ctr[c_evaluations] += nassign;
                    S.hit(spelling ? t_infix_eval_open : t_infix_eval);
                    if ((got ^ J.val[i]) & mask_of(nsurf))
                    {
                        std::string l;
                        for (size_t q = 0; q < n; ++q)
                            l += logic::is_operator_token(p[q])
                                     ? std::string(1, logic::to_char(logic::OperatorToken(p[q])))
                                     : fmt("%u", p[q]);
                        violation("infix:evaluator-differs", cid,
                                  fmt("node %zu of %s: infix \"%s\" evaluates to %s, node table %s",
                                      i, tree_str(out).c_str(), l.c_str(),
                                      tt_str(got, nsurf).c_str(),
                                      tt_str(J.val[i], nsurf).c_str()));
                    }
                }
            }
            // postfix / flagger / string on the new volume roots
            if (!vols.empty() && vols.size() <= 2)
            {
                std::vector<size_t> roots;
                for (auto v : out.volumes())
                    roots.push_back(v.unchecked_get());
                check_encoders(out, J, nsurf, cid, "after transform_negated_joins", false,
                               &roots);
            }
        }
    }
};

//---------------------------------------------------------------------------//
// States and the insert alphabet
struct State
{
    CsgTree tree;
    std::vector<TT> exp;  // intended function of every node (never read from the tree)
    int nsurf = 0;
    int depth = 0;
    std::string path;
};

struct Op
{
    char kind;  // 's' surface, 'n' negated, 'a' all, 'o' any
    uint8_t n;
    uint8_t a[3];
};

std::string op_str(Op const& o)
{
    std::string s(1, o.kind);
    for (int i = 0; i < o.n; ++i)
        s += fmt(i ? ".%u" : "%u", unsigned(o.a[i]));
    if ((o.kind == 'a' || o.kind == 'o') && o.n == 0)
        s += "-";
    return s;
}

bool parse_op(std::string const& s, Op& o)
{
    if (s.empty())
        return false;
    o.kind = s[0];
    o.n = 0;
    if (std::strchr("snao", o.kind) == nullptr)
        return false;
    size_t p = 1;
    if (p < s.size() && s[p] == '-')
        return p + 1 == s.size();
    while (p < s.size())
    {
        unsigned v = 0;
        if (s[p] < '0' || s[p] > '9' || o.n >= 3)
            return false;
        while (p < s.size() && s[p] >= '0' && s[p] <= '9')
            v = v * 10 + unsigned(s[p++] - '0');
        o.a[o.n++] = uint8_t(v);
        if (p < s.size())
        {
            if (s[p] != '.')
                return false;
            ++p;
        }
    }
    return true;
}

Node make_node(Op const& o, Lab const& lab)
{
    switch (o.kind)
    {
        case 's':
            return Surface{LocalSurfaceId{lab.sid[o.a[0]]}};
        case 'n':
            return Negated{NodeId{o.a[0]}};
        default: {
            std::vector<NodeId> v;
            for (int i = 0; i < o.n; ++i)
                v.push_back(NodeId{o.a[i]});
            return Joined{o.kind == 'a' ? op_and : op_or, std::move(v)};
        }
    }
}

TT intended(Op const& o, std::vector<TT> const& exp)
{
    switch (o.kind)
    {
        case 's':
            return VARM[o.a[0]];
        case 'n':
            return TT(~exp[o.a[0]]);
        case 'a': {
            TT r = 0xFFFF;
            for (int i = 0; i < o.n; ++i)
                r &= exp[o.a[i]];
            return r;
        }
        default: {
            TT r = 0;
            for (int i = 0; i < o.n; ++i)
                r |= exp[o.a[i]];
            return r;
        }
    }
}

void enumerate_ops(State const& st, int max_surf, std::vector<Op>& ops)
{
    ops.clear();
    uint8_t const N = uint8_t(st.tree.size());
    // surfaces: every existing one again (de-duplication), and the next new one
    for (int k = 0; k <= st.nsurf && k < max_surf; ++k)
        ops.push_back(Op{'s', 1, {uint8_t(k), 0, 0}});
    for (uint8_t x = 0; x < N; ++x)
        ops.push_back(Op{'n', 1, {x, 0, 0}});
    for (char kind : {'a', 'o'})
    {
        ops.push_back(Op{kind, 0, {0, 0, 0}});
        for (uint8_t x = 0; x < N; ++x)
            ops.push_back(Op{kind, 1, {x, 0, 0}});
        for (uint8_t x = 0; x < N; ++x)
            for (uint8_t y = 0; y < N; ++y)
                ops.push_back(Op{kind, 2, {x, y, 0}});
        for (uint8_t x = 0; x < N; ++x)
            for (uint8_t y = 0; y < N; ++y)
                for (uint8_t z = 0; z < N; ++z)
                    ops.push_back(Op{kind, 3, {x, y, z}});
    }
}

void tag_insert(Op const& o, State const& st)
{
    if (o.kind == 's')
    {
        if (o.a[0] < st.nsurf)
            S.hit(t_ins_surface_again);
        return;
    }
    CsgTree const& t = st.tree;
    if (o.kind == 'n')
    {
        Node const& c = t[NodeId(o.a[0])];
        if (o.a[0] < 2)
            S.hit(t_ins_neg_const);
        else if (std::holds_alternative<Negated>(c))
            S.hit(t_ins_double_neg);
        else if (std::holds_alternative<Joined>(c))
            S.hit(t_ins_neg_join);
        return;
    }
    unsigned constant = o.kind == 'a' ? 1 : 0, ignore = o.kind == 'a' ? 0 : 1;
    bool has_const = false, has_ign = false, dup = false, unsorted = false, compl_ = false;
    unsigned distinct = 0;
    for (int i = 0; i < o.n; ++i)
    {
        if (o.a[i] == constant)
            has_const = true;
        if (o.a[i] == ignore)
            has_ign = true;
        bool seen = false;
        for (int j = 0; j < i; ++j)
            if (o.a[j] == o.a[i])
                seen = true;
        if (seen)
            dup = true;
        else if (o.a[i] != ignore)
            ++distinct;
        if (i > 0 && o.a[i] < o.a[i - 1])
            unsorted = true;
        if (auto const* n = std::get_if<Negated>(&t[NodeId(o.a[i])]))
            for (int j = 0; j < o.n; ++j)
                if (o.a[i] > 1 && n->node.unchecked_get() == o.a[j])
                    compl_ = true;
    }
    if (has_const)
        S.hit(t_ins_short_circuit);
    else
    {
        if (has_ign)
            S.hit(t_ins_identity_dropped);
        if (dup)
            S.hit(t_ins_duplicate_operand);
        if (distinct == 0)
            S.hit(t_ins_empty_join);
        else if (distinct == 1)
            S.hit(t_ins_single_alias);
        if (unsorted)
            S.hit(t_ins_unsorted);
        if (compl_ && distinct >= 2)
            S.hit(t_ins_complementary_kept);
    }
}

std::string shape_of(CsgTree const& t)
{
    std::string s;
    for (size_t i = 2; i < t.size(); ++i)
    {
        Node const& n = t[NodeId(i)];
        if (std::holds_alternative<Surface>(n))
            s += 'S';
        else if (auto const* g = std::get_if<Negated>(&n))
        {
            Node const& c = t[g->node];
            s += std::holds_alternative<Joined>(c) ? 'M' : 'N';
        }
        else if (auto const* j = std::get_if<Joined>(&n))
        {
            s += (j->op == op_and ? 'A' : 'O');
            s += char('0' + j->nodes.size());
            for (auto o : j->nodes)
            {
                Node const& c = t[o];
                s += std::holds_alternative<Surface>(c)   ? 's'
                     : std::holds_alternative<Negated>(c) ? 'n'
                                                          : 'j';
            }
        }
        else
            s += '?';
    }
    return s;
}

//---------------------------------------------------------------------------//
struct Explorer
{
    vf::Run& R;
    Checker& C;
    int K;  // maximum number of effective inserts
    int D;  // sharding depth
    int max_surf = 4;
    bool pairs_at_leaves;
    bool light_leaves = false;
    bool encoders_only = false;  // labelling 2: only the operations that look at surface ids
    uint64_t unit_counter = 0;
    uint64_t samples = 0;
    bool stop = false;

    // apply one op of the alphabet to `w` (a copy of st.tree); returns true if a node was added
    bool apply(State const& st, Op const& o, CsgTree& w, bool check, TT& want)
    {
        size_t const N = st.tree.size();
        want = intended(o, st.exp);
        CsgTree::Insertion ins;
        try
        {
            ins = w.insert(make_node(o, C.lab));
        }
        catch (std::exception const& e)
        {
            C.violation("insert:threw", st.path,
                        fmt("insert(%s) on %s threw %s", op_str(o).c_str(),
                            tree_str(st.tree).c_str(), e.what()));
            w = st.tree;
            return false;
        }
        bool grew = w.size() != N;
        if (!check)
            return grew && ins.second && w.size() == N + 1;
        ++S.ctr[c_op_insert];
        ++S.ctr[c_transitions];
        ++S.ctr[c_evaluations];
        tag_insert(o, st);
        int nsurf = st.nsurf + ((o.kind == 's' && o.a[0] == st.nsurf) ? 1 : 0);
        TT mask = mask_of(nsurf);
        std::string err;
        size_t id = ins.first.unchecked_get();
        if (grew != ins.second)
            err = fmt("'inserted' flag %d but size %zu -> %zu", int(ins.second), N,
                      size_t(w.size()));
        else if (grew && (w.size() != N + 1 || id != N))
            err = fmt("new node id %zu, size %zu -> %zu", id, N, size_t(w.size()));
        else if (id >= w.size())
            err = fmt("returned node id %zu outside the tree", id);
        else if (!same_nodes(w, st.tree, N))
            err = "an existing node was modified";
        else
        {
            TT got;
            if (!grew)
                got = st.exp[id];
            else
            {
                // evaluate the single new node from the intended tables of its operands
                Node const& nd = w[NodeId(N)];
                bool ok = true;
                got = 0;
                if (auto const* s = std::get_if<Surface>(&nd))
                {
                    uint32_t sid = s->id.unchecked_get();
                    ok = sid < 8 && C.lab.var_of[sid] >= 0;
                    if (ok)
                        got = VARM[C.lab.var_of[sid]];
                }
                else if (auto const* n = std::get_if<Negated>(&nd))
                {
                    ok = n->node.unchecked_get() < N;
                    if (ok)
                        got = TT(~st.exp[n->node.unchecked_get()]);
                }
                else if (auto const* j = std::get_if<Joined>(&nd))
                {
                    got = j->op == op_and ? TT(0xFFFF) : TT(0);
                    ok = (j->op == op_and || j->op == op_or);
                    for (auto c : j->nodes)
                    {
                        if (c.unchecked_get() >= N)
                        {
                            ok = false;
                            break;
                        }
                        TT v = st.exp[c.unchecked_get()];
                        got = j->op == op_and ? TT(got & v) : TT(got | v);
                    }
                }
                else
                    ok = false;  // True/False/Aliased are never appended by insert
                if (!ok)
                    err = fmt("appended node %s is malformed", to_string(nd).c_str());
            }
            if (err.empty() && ((got ^ want) & mask))
                err = fmt("returned node %zu has table %s, the inserted expression has %s", id,
                          tt_str(got, nsurf).c_str(), tt_str(want, nsurf).c_str());
        }
        if (!err.empty())
        {
            C.violation("insert:function-differs", st.path,
                        fmt("insert(%s) on %s: %s; tree after: %s", op_str(o).c_str(),
                            tree_str(st.tree).c_str(), err.c_str(), tree_str(w).c_str()));
            if (grew)
                w = st.tree;
            return false;
        }
        S.hit(grew ? t_ins_new : t_ins_dedup);
        return grew;
    }

    // AddressSanitizer flavour: attribute a report to the state that caused it
    int asan_seen = 0;
    void asan_check(State const& st, char const* where)
    {
        int now = vf::detail::g_asan_errors;
        if (now != asan_seen)
        {
            asan_seen = now;
            C.violation("asan:memory-error", st.path,
                        fmt("AddressSanitizer reported an error during %s of %s (see stderr)",
                            where, tree_str(st.tree).c_str()));
        }
    }

    void run_checks(State const& st)
    {
        struct AtExit
        {
            Explorer& e;
            State const& s;
            ~AtExit() { e.asan_check(s, "the checks"); }
        } at_exit{*this, st};
        R.begin_case(st.path, 120);
        S.state_tags = 0;
        ++S.ctr[c_states];
        S.max_nodes = std::max<uint64_t>(S.max_nodes, st.tree.size());
        Info I = analyze(st.tree, C.lab);
        TT const mask = mask_of(st.nsurf);
        std::string err;
        if (!I.ok)
            err = "malformed tree: " + I.why;
        else
            for (size_t i = 0; i < st.tree.size() && err.empty(); ++i)
                if ((I.val[i] ^ st.exp[i]) & mask)
                    err = fmt("node %zu has table %s, intended %s", i,
                              tt_str(I.val[i], st.nsurf).c_str(),
                              tt_str(st.exp[i], st.nsurf).c_str());
        S.ctr[c_evaluations] += st.tree.size();
        if (!err.empty())
        {
            C.violation("insert:tree-differs-from-intended", st.path,
                        fmt("%s: %s", tree_str(st.tree).c_str(), err.c_str()));
            R.end_case();
            return;
        }
        bool leaf = st.depth >= K;
        C.check_encoders(st.tree, I, st.nsurf, st.path, "built", true);
        if (!(leaf && light_leaves) && !encoders_only)
        {
            // (labelling 1, thorough: the depth-K leaves only get the encoders, which are the
            // only operations that look at surface ids; the rest is covered under labelling 0)
            C.check_simplify(st.tree, I, st.nsurf, mask, st.path, "built", true);
            C.check_replace(st.tree, I, st.nsurf, st.path);
            C.check_exchange_strings(st.tree, st.nsurf, st.path);
            C.check_demorgan(st.tree, I, st.nsurf, st.path, !leaf || pairs_at_leaves);
        }
        if (st.depth >= 2)
            R.nontrivial(vf::hash_mix(vf::hash_str(shape_of(st.tree)), S.state_tags));
        if (samples < 3 && st.depth == K)
        {
            ++samples;
            R.sample(st.path + " = " + tree_str(st.tree));
        }
        R.end_case();
    }

    template<class F>
    void expand(State const& st, bool check, F&& on_child)
    {
        std::vector<Op> ops;
        enumerate_ops(st, max_surf, ops);
        std::vector<Node> seen;
        CsgTree w = st.tree;
        if (check)
            R.begin_case(st.path + " (insert transitions)", 120);
        for (Op const& o : ops)
        {
            TT want;
            bool grew = apply(st, o, w, check, want);
            if (!grew)
                continue;
            Node const& nn = w[NodeId(st.tree.size())];
            bool dup = false;
            for (Node const& s : seen)
                if (s == nn)
                {
                    dup = true;
                    break;
                }
            if (dup)
            {
                w = st.tree;
                continue;
            }
            seen.push_back(nn);
            State c;
            c.tree = std::move(w);
            w = st.tree;
            c.exp = st.exp;
            c.exp.push_back(want);
            c.nsurf = st.nsurf + ((o.kind == 's' && o.a[0] == st.nsurf) ? 1 : 0);
            c.depth = st.depth + 1;
            c.path = st.path + "/" + op_str(o);
            on_child(std::move(c));
            if (stop)
                break;
        }
        if (check)
        {
            R.end_case();
            asan_check(st, "the insert transitions");
        }
    }

    void dfs(State const& st, bool inherited)
    {
        if (stop)
            return;
        if (R.expired())
        {
            stop = true;
            return;
        }
        bool own = inherited;
        if (st.depth <= D)
            own = R.mine(unit_counter++);
        if (own)
            run_checks(st);
        if (st.depth >= K)
            return;
        if (st.depth >= D && !own)
            return;
        expand(st, own, [&](State&& c) { dfs(c, own); });
    }
};

//---------------------------------------------------------------------------//
// DEEP CHAINS (second, directed lattice next to the exploration).
//
// The exploration never has more than ~4 entries on the LogicStack.  Here: right-nested chains
//     J_1 = op_1{s, X_2},  X_k = J_k or not(J_k),  J_k = op_k{s_(k mod 4), X_(k+1)}, ...,
//     J_L = op_L{s_(L mod 4), s_((L+1) mod 4)},      op alternating between all / any,
// over the 4 surfaces (inserted first, so that they have the lowest node ids and are emitted
// before the nested join: one more stack entry per level).  L is chosen so that the running
// postfix stack depth (computed by the harness from the emitted logic, never assumed) is
// 5, 8, 9, 15, 16, 17, 24, 31, 32, 33, 40 and M-2, M-1 | M, M+1, M+8, where M =
// LogicStack::max_stack_depth() (bits of celeritas::size_type: 64 in this host build, 32 with
// CUDA/HIP) and OrangeParams accepts max_logic_depth < M.  For each chain x outer operator x
// {plain, every second level negated} x labelling:
//   depth <  M: check_encoders on the root (PostfixLogicBuilder plain + remapped ->
//               LogicEvaluator on all 16 assignments vs the harness's own table, flagger, string)
//   every depth: {4 surfaces + a bounding sphere, [EXTERIOR], one volume with the emitted (faces,
//               logic)} as a hand-made UnitInput -> OrangeParams (UnitInserter::calc_max_depth,
//               the logic-depth VALIDATE).  Required: depth >= M -> rejected with the "logic
//               depth" RuntimeError; depth < M -> accepted, scalars.max_logic_depth equals the
//               harness's depth, and LogicEvaluator on the logic STORED in the params reproduces
//               the table.  Never "accepted and different".
void check_chains(vf::Run& R, Checker& C, bool thorough)
{
    using celeritas::detail::LogicEvaluator;
    using celeritas::detail::LogicStack;
    Lab const& lab = C.lab;
    int const limit = int(LogicStack::max_stack_depth());
    std::set<int> depths{5, 8, 9, 15, 16, 17, 24, 31, 32, 33, 40,
                         limit - 2, limit - 1, limit, limit + 1, limit + 8};
    std::set<int> reached;
    uint64_t index = 0;
    for (int want_depth : depths)
        for (int outer = 0; outer < 2; ++outer)
            for (int negv = 0; negv < 2; ++negv)
            {
                uint64_t const my_index = 5000000 + 97 * (index++) + lab.index;
                std::string cid = fmt("chain:L%d/depth=%d/outer=%s/neg=%d", lab.index, want_depth,
                                      outer ? "any" : "all", negv);
                if (R.replay() ? !R.want(cid) : !R.mine(my_index))
                {
                    reached.insert(want_depth);  // checked by the shard that owns it
                    continue;
                }
                R.begin_case(cid, 60);
                ++S.ctr[c_states];
                int const L = want_depth - 1;
                CsgTree t;
                NodeId sn[4];
                for (int k = 0; k < 4; ++k)
                    sn[k] = t.insert(Surface{LocalSurfaceId{lab.sid[k]}}).first;
                NodeId x = t.insert(Joined{((L + outer) % 2) ? op_and : op_or,
                                           {sn[L % 4], sn[(L + 1) % 4]}})
                               .first;
                for (int k = L - 1; k >= 1; --k)
                {
                    if (negv && (k % 2))
                        x = t.insert(Negated{x}).first;
                    x = t.insert(Joined{((k + outer) % 2) ? op_and : op_or, {sn[k % 4], x}}).first;
                }
                size_t const root = x.unchecked_get();
                Info I = analyze(t, lab);
                if (!I.ok)
                    R.harness_error(cid + ": chain tree malformed: " + I.why);
                S.max_nodes = std::max<uint64_t>(S.max_nodes, t.size());

                // the logic as production would store it (remapped faces: indices into the
                // unit's surface list = calc_surfaces order)
                std::vector<LocalSurfaceId> mapping = calc_surfaces(t);
                orangeinp::detail::PostfixLogicBuilder build_mapped(t, mapping);
                auto res = build_mapped(NodeId(root));
                auto const& faces = res.first;
                auto const& lgc = res.second;
                int depth = 0, maxd = 0;
                for (logic_int tok : lgc)
                {
                    if (!logic::is_operator_token(tok) || tok == logic::ltrue)
                        ++depth;
                    else if (tok == logic::land || tok == logic::lor)
                        --depth;
                    maxd = std::max(maxd, depth);
                }
                if (maxd != want_depth)
                    R.harness_error(fmt("%s: chain reaches stack depth %d", cid.c_str(), maxd));
                reached.insert(maxd);
                S.hit(t_chain_built);
                if (maxd < limit)
                {
                    std::vector<size_t> roots{root};
                    C.check_encoders(t, I, 4, cid, "chain", false, &roots);
                    S.hit(t_chain_evaluated);
                }

                // hand-made unit -> OrangeParams
                UnitInput u;
                u.label = Label{"chain"};
                for (LocalSurfaceId sid : mapping)
                    u.surfaces.push_back(C.surfaces[sid.unchecked_get()]);
                u.surfaces.push_back(Sphere{Real3{0, 0, 0}, 10.0});
                u.bbox = BBox{{-10, -10, -10}, {10, 10, 10}};
                {
                    VolumeInput v;
                    v.label = Label{"[EXTERIOR]"};
                    v.faces = {LocalSurfaceId{unsigned(mapping.size())}};
                    v.logic = {logic_int(0)};
                    v.zorder = ZOrder::exterior;
                    v.bbox = BBox::from_infinite();
                    u.volumes.push_back(v);
                }
                {
                    VolumeInput v;
                    v.label = Label{"chain"};
                    v.faces = faces;
                    v.logic = lgc;
                    v.flags = VolumeRecord::internal_surfaces;
                    v.zorder = ZOrder::media;
                    v.bbox = BBox::from_infinite();
                    u.volumes.push_back(v);
                }
                OrangeInput inp;
                inp.universes.push_back(std::move(u));
                inp.tol = Tolerance<>::from_default();
                std::unique_ptr<OrangeParams> params;
                std::string threw;
                bool depth_error = false;
                try
                {
                    params = std::make_unique<OrangeParams>(std::move(inp));
                }
                catch (std::exception const& e)
                {
                    threw = e.what();
                    depth_error = threw.find("logic") != std::string::npos
                                  && threw.find("depth") != std::string::npos;
                    if (threw.empty())
                        threw = "(empty message)";
                }
                ++S.ctr[c_transitions];
                ++S.ctr[c_op_params];
                if (maxd >= limit)
                {
                    if (threw.empty())
                        C.violation("chain:too-deep-logic-accepted", cid,
                                    fmt("a volume whose postfix logic needs %d stack entries "
                                        "(LogicStack holds %d) was accepted by OrangeParams "
                                        "(scalars.max_logic_depth = %u)",
                                        maxd, limit,
                                        unsigned(params->host_ref().scalars.max_logic_depth)));
                    else if (!depth_error)
                        C.violation("chain:too-deep-logic-other-error", cid,
                                    fmt("depth %d rejected, but not by the logic depth check: %s",
                                        maxd, threw.substr(0, 300).c_str()));
                    else
                        S.hit(t_chain_rejected);
                }
                else if (!threw.empty())
                {
                    C.violation("chain:valid-logic-rejected", cid,
                                fmt("a volume whose postfix logic needs %d stack entries (< %d) "
                                    "was rejected: %s",
                                    maxd, limit, threw.substr(0, 300).c_str()));
                }
                else
                {
                    S.hit(t_chain_accepted);
                    S.max_postfix_depth_chain = std::max<uint64_t>(S.max_postfix_depth_chain, maxd);
                    auto const& hr = params->host_ref();
                    unsigned got_depth = unsigned(hr.scalars.max_logic_depth);
                    if (int(got_depth) != maxd)
                        C.violation("chain:max-logic-depth-differs", cid,
                                    fmt("scalars.max_logic_depth = %u, the logic's running stack "
                                        "depth is %d", got_depth, maxd));
                    auto const& su = hr.simple_units[SimpleUnitId{0}];
                    VolumeRecord const& vr = hr.volume_records[su.volumes[LocalVolumeId{1}]];
                    auto stored = hr.logic_ints[vr.logic];
                    auto stored_faces = hr.local_surface_ids[vr.faces];
                    std::string err;
                    if (stored.size() != lgc.size() || stored_faces.size() != faces.size())
                        err = fmt("stored logic has %zu tokens / %zu faces, built %zu / %zu",
                                  size_t(stored.size()), size_t(stored_faces.size()), lgc.size(),
                                  faces.size());
                    else
                    {
                        LogicEvaluator eval(stored);
                        TT got = 0;
                        std::array<Sense, 8> senses;
                        for (int a = 0; a < 16; ++a)
                        {
                            for (size_t f = 0; f < stored_faces.size(); ++f)
                            {
                                uint32_t sid = mapping[stored_faces[f].unchecked_get()].unchecked_get();
                                senses[f] = ((a >> lab.var_of[sid]) & 1) ? Sense::outside
                                                                         : Sense::inside;
                            }
                            bool v = eval(Span<Sense const>(senses.data(), stored_faces.size()));
                            got |= TT(TT(v) << a);
                        }
                        S.ctr[c_evaluations] += 16;
                        if (got != I.val[root])
                            err = fmt("LogicEvaluator on the stored logic gives %s, the chain's "
                                      "table is %s", tt_str(got, 4).c_str(),
                                      tt_str(I.val[root], 4).c_str());
                    }
                    if (!err.empty())
                        C.violation("chain:stored-logic-differs", cid, err);
                }
                R.end_case();
            }
    (void)thorough;
    if (!R.replay())
        for (int d : {limit - 1, limit})
            if (!reached.count(d))
                R.harness_error(fmt("chains: stack depth %d was not reached", d));
}

State root_state(Lab const& lab)
{
    State st;
    st.exp = {TT(0xFFFF), TT(0)};
    st.path = fmt("L%d", lab.index);
    return st;
}

}  // namespace

//---------------------------------------------------------------------------//
int main(int argc, char** argv)
{
    vf::Run R(argc, argv, "C10", "c10_csg");
    bool const thorough = R.thorough();

    // bounds: K = number of effective inserts (nodes besides true/false) per labelling
    // (the AddressSanitizer part runs the same exploration two levels shallower)
    int const shallow = (R.part() == "csg_asan") ? 2 : 0;
    // labelling 2 (strictly decreasing ids): one level shallower, encoder checks only
    int const K_of_lab[3] = {(thorough ? 7 : 6) - shallow, (thorough ? 7 : 6) - shallow,
                             (thorough ? 7 : 6) - shallow - 1};

    if (R.replay() && R.replay_case().rfind("chain:L", 0) == 0)
    {
        // case id of the deep-chain lattice: chain:L<lab>/depth=<d>/outer=<op>/neg=<0|1>
        std::string cid = R.replay_case();
        if (cid.size() < 8 || (cid[7] != '0' && cid[7] != '1'))
            R.harness_error("bad case id " + cid);
        Lab lab = make_lab(cid[7] - '0');
        Checker C(R, lab);
        check_chains(R, C, thorough);
    }
    else if (R.replay())
    {
        // case id: L<lab>/<op>/<op>... optionally followed by " (insert transitions)"
        std::string cid = R.replay_case();
        size_t sp = cid.find(' ');
        if (sp != std::string::npos)
            cid = cid.substr(0, sp);
        if (cid.size() < 2 || cid[0] != 'L' || cid[1] < '0' || cid[1] > '2')
            R.harness_error("bad case id " + cid);
        Lab lab = make_lab(cid[1] - '0');
        Checker C(R, lab);
        Explorer E{R, C, 0, 0};
        E.pairs_at_leaves = true;
        E.encoders_only = lab.index == 2;
        State st = root_state(lab);
        size_t p = 2;
        while (p < cid.size())
        {
            if (cid[p] != '/')
                R.harness_error("bad case id " + cid);
            size_t q = cid.find('/', p + 1);
            std::string tok = cid.substr(p + 1, q == std::string::npos ? q : q - p - 1);
            Op o;
            if (!parse_op(tok, o))
                R.harness_error("bad op '" + tok + "' in case id");
            for (int i = 0; i < o.n; ++i)
                if (o.kind == 's' ? o.a[i] > st.nsurf || o.a[i] >= 4 : o.a[i] >= st.tree.size())
                    R.harness_error("op '" + tok + "' refers to a node that does not exist");
            CsgTree w = st.tree;
            TT want;
            if (!E.apply(st, o, w, false, want))
                R.harness_error("op '" + tok + "' in case id is not an effective insert");
            State c;
            c.tree = std::move(w);
            c.exp = st.exp;
            c.exp.push_back(want);
            c.nsurf = st.nsurf + ((o.kind == 's' && o.a[0] == st.nsurf) ? 1 : 0);
            c.depth = st.depth + 1;
            c.path = st.path + "/" + tok;
            st = std::move(c);
            p = q;
        }
        E.K = st.depth + 1;
        fprintf(stderr, "replay state %s = %s\n", st.path.c_str(), tree_str(st.tree).c_str());
        E.run_checks(st);
        E.expand(st, true, [](State&&) {});
    }
    else
    {
        for (int li = 0; li < 3; ++li)
        {
            Lab lab = make_lab(li);
            Checker C(R, lab);
            Explorer E{R, C, K_of_lab[li], std::min(5, K_of_lab[li] - 1)};
            E.pairs_at_leaves = true;
            E.light_leaves = thorough && li == 1;
            E.encoders_only = li == 2;
            // keep the unit index distinct between the labellings so that shards interleave
            E.unit_counter = uint64_t(li) * 7;
            State st = root_state(lab);
            E.dfs(st, false);
            if (E.stop)
                R.cap_hit(fmt("deadline reached while exploring labelling %d (K=%d)", li,
                              K_of_lab[li]));
            if (li < 2)
                check_chains(R, C, thorough);
        }
    }

    Checker::flush_violations(R);
    for (int i = 0; i < c_N; ++i)
        if (S.ctr[i])
            R.count(ctr_name[i], S.ctr[i]);
    R.count("traces_validated", S.ctr[c_transitions]);
    for (int i = 0; i < t_N; ++i)
        if (S.tag[i])
            R.tag(tag_name[i], S.tag[i]);
    R.maxi("postfix_stack_depth", S.max_postfix_depth);
    R.maxi("postfix_stack_depth_accepted_chain", S.max_postfix_depth_chain);
    R.maxi("postfix_logic_length", S.max_logic_len);
    R.maxi("nodes_in_built_tree", S.max_nodes);
    R.maxi("nodes_after_demorgan", S.max_dm_nodes);
    R.sample("L0/s/s/n2/a2.3/n5 = {0: true, 1: not{0}, 2: surface 0, 3: surface 1, 4: not{2}, "
             "5: all{2,3}, 6: not{5}}: every node encoded / replaced by True and False / "
             "De Morgan'ed with volume sets {}, {i}, {i,j}, all");
    return R.finish();
}
