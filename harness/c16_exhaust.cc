// C16 - running out of secondary or initializer storage never corrupts or loses physics.
//
// Fault enumeration: the fault is "which allocation is the first to exceed the capacity"; it
// is enumerated implicitly by running EVERY explored event history (E1, all interaction
// outcome sequences within the deviation bound, harness/loop_explore.hh) at EVERY capacity
// of a lattice.  AddressSanitizer flavour.
//
//  part A  secondary stack capacity c in {0?,1,..,7} (c = factor x slots), slots {1,2,3}:
//    * an interaction whose request exceeds c must fail explicitly (physics-failure action),
//      one that is alone in its Stepper call and fits must succeed;
//    * a failed interaction leaves the track alive (it steps again) and emits nothing: the
//      number of children of every track equals the surviving secondaries of its SUCCESSFUL
//      interactions (nothing partial);
//    * the event completes and the C01 energy ledger balances;
//    * dedicated sub-case: a stopped positron whose only at-rest outcome needs 2 secondaries,
//      with c = 1 and c = 2.
//  part B  initializer capacity Q in {1,2,3,4,6}, slots {1,2}: when the pending initializers
//    would exceed Q the Stepper call throws celeritas::RuntimeError (and nothing else: no
//    ASan report, no other exception, reported `queued` never exceeds Q); after
//    reset_state() + reseed the next event's step stream equals the one on a fresh state.
#include "harness/loop_explore.hh"

using namespace celeritas;
using namespace vf;

static uint64_t stream_hash(std::vector<StepRec> const& recs)
{
    uint64_t h = 1469598103934665603ull;
    for (auto const& r : recs)
    {
        h = hash_mix(h, hash_pod(r.track) ^ (hash_pod(r.step_count) << 1));
        h = hash_mix(h, hash_pod(r.post.energy));
        h = hash_mix(h, hash_pod(r.post.pos));
        h = hash_mix(h, hash_pod(r.action));
        h = hash_mix(h, hash_pod(r.edep));
    }
    return h;
}

static int asan_errors()
{
#if defined(__SANITIZE_ADDRESS__)
    return vf::detail::g_asan_errors;
#else
    return 0;
#endif
}

struct CapCfg
{
    std::string id;
    unsigned slots;
    int cap;
    bool at_rest_only;
};

static void part_secondary(vf::Run& R)
{
    bool const thorough = R.thorough();
    int const bound = 2;
    std::vector<CapCfg> cfgs;
    for (unsigned s : {1u, 2u, 3u})
        for (int cap = 0; cap <= 7; ++cap)
        {
            if (!thorough && s == 3 && cap > 4)
                continue;
            cfgs.push_back({fmt("sec.s%u.c%d", s, cap), s, cap, false});
        }
    for (int cap : {1, 2})
        cfgs.push_back({fmt("sec-atrest.s1.c%d", cap), 1, cap, true});
    auto prims = primary_lattice(false);
    {
        std::vector<PrimaryCase> p2;
        for (auto const& p : prims)
            if (p.id.find(".e0.") == std::string::npos
                && (p.id.find(".d2") != std::string::npos || thorough))
                p2.push_back(p);
        prims.swap(p2);
    }
    uint64_t outer = 0;
    for (auto const& cc : cfgs)
    {
        for (auto const& pc : prims)
        {
            if (!R.mine(outer++))
                continue;
            if (R.expired())
                return;
            std::string root = cc.id + ":" + pc.id;
            if (R.replay() && R.replay_case().compare(0, root.size() + 1, root + "|") != 0)
                continue;
            if (cc.at_rest_only && pc.kind != 2)
                continue;
            LoopConfig cfg;
            cfg.geometry = 1;
            cfg.along = AlongStep::linear;
            cfg.slots = cc.slots;
            cfg.xs_gamma = 3.0;
            cfg.xs_electron = 4.0;
            cfg.secondary_stack_factor = (cc.cap + 0.5) / cc.slots;
            if (cc.at_rest_only)
                cfg.menu = {Outcome::absorb_in_flight, Outcome::annihilate};
            std::unique_ptr<LoopProblem> P;
            try
            {
                P = make_loop_problem(cfg);
            }
            catch (RuntimeError const& e)
            {
                // an explicit rejection of the configuration is a "reported error"
                R.tag("config-rejected:" + cc.id);
                continue;
            }
            R.begin_case(root, 600);
            ExploreStats st;
            EventRun er;
            LoggingChooser ch;
            unsigned call = 0;
            ch.call = &call;
            P->recorder->call_stamp = &call;
            int asan0 = asan_errors();
            auto body = [&](Choices& c) {
                P->recorder->steps.clear();
                ch.c = &c;
                ch.log.clear();
                g_loop_chooser = &ch;
                er = EventRun{};
                call = 0;
                try
                {
                    auto stp = P->make_stepper();
                    stp->reseed(UniqueEventId{0});
                    Primary p = P->primary(pc.kind, pc.energy, pc.pos, pc.dir, 0);
                    StepperResult r = (*stp)(Span<Primary const>{&p, 1});
                    er.calls = 1;
                    unsigned const horizon = cc.at_rest_only ? 300 : 5000;
                    while (r && er.calls < horizon)
                    {
                        call = er.calls;
                        r = (*stp)();
                        ++er.calls;
                    }
                    er.completed = !r;
                }
                catch (std::exception const& e)
                {
                    er.exception = e.what();
                }
                g_loop_chooser = nullptr;
            };
            auto on_exec = [&](Choices const& c) {
                R.count("evaluations");
                R.count("transitions", er.calls);
                std::string cid = root + "|" + choices_to_string(c.chosen());
                if (asan_errors() != asan0)
                {
                    R.violation("exhaust:asan-report", cid, "AddressSanitizer reported an error");
                    asan0 = asan_errors();
                    return true;
                }
                if (!er.exception.empty())
                {
                    R.violation("exhaust:exception", cid, er.exception);
                    return true;
                }
                if (!er.completed)
                {
                    R.violation(cc.at_rest_only
                                    ? "exhaust:at-rest-request-larger-than-stack-never-completes"
                                    : "exhaust:event-does-not-complete",
                                cid,
                                fmt("%s: event still has tracks after %u Stepper calls (secondary "
                                    "stack capacity %d)",
                                    cc.id.c_str(), er.calls, cc.cap));
                    return true;
                }
                Verdict v = check_energy(*P, pc, P->recorder->steps);
                if (v)
                {
                    R.violation(v.sig, cid, cc.id + ": " + v.msg);
                    return true;
                }
                // The scripted interactor reports for every interaction whether the allocation
                // of its secondaries failed (Interaction::from_failure returned)
                TrackMap tracks = group_tracks(P->recorder->steps);
                std::map<std::pair<unsigned, unsigned>, unsigned> expected_children, seen_children;
                std::map<std::pair<unsigned, unsigned>, unsigned> last_query_call;
                std::map<unsigned, int> requested_in_call;
                for (auto const& q : ch.log)
                {
                    auto menu = feasible_outcomes(*P->shared, q.q.particle, q.q.energy);
                    Outcome o = menu.at(q.chosen);
                    requested_in_call[q.call] += int(outcome_secondaries(*P->shared, o, q.q.particle, q.q.energy).size());
                }
                for (size_t qi = 0; qi < ch.log.size(); ++qi)
                {
                    auto const& q = ch.log[qi];
                    auto key = std::make_pair(q.q.event, q.q.track);
                    if (!tracks.count(key))
                    {
                        R.violation("exhaust:interaction-without-track", cid, "");
                        return true;
                    }
                    bool failed = q.alloc_failed;
                    auto menu = feasible_outcomes(*P->shared, q.q.particle, q.q.energy);
                    Outcome o = menu.at(q.chosen);
                    auto secs = outcome_secondaries(*P->shared, o, q.q.particle, q.q.energy);
                    int need = int(secs.size());
                    R.tag(failed ? "interaction:failed" : "interaction:ok");
                    if (need > cc.cap && !failed)
                    {
                        R.violation("exhaust:oversized-request-did-not-fail", cid,
                                    fmt("%s: %s needs %d secondaries, capacity %d, but the allocation "
                                        "succeeded",
                                        cc.id.c_str(), to_cstring(o), need, cc.cap));
                        return true;
                    }
                    if (failed && requested_in_call[q.call] <= cc.cap)
                    {
                        R.violation("exhaust:spurious-failure", cid,
                                    fmt("%s: %s needs %d secondaries, all requests of that call need "
                                        "%d <= capacity %d, but it failed",
                                        cc.id.c_str(), to_cstring(o), need, requested_in_call[q.call],
                                        cc.cap));
                        return true;
                    }
                    if (failed)
                    {
                        // The track must stay alive at the interaction point with unchanged
                        // energy: its step record of this call is followed by another step that
                        // starts exactly where and with what this one ended.  (It then samples
                        // a new interaction length - the process is memoryless - so the next
                        // interaction may come after further continuous loss, or never.)
                        auto const& steps = tracks[key].steps;
                        StepRec const* cur = nullptr;
                        StepRec const* nxt = nullptr;
                        for (size_t k = 0; k < steps.size(); ++k)
                            if (steps[k]->call == q.call)
                            {
                                cur = steps[k];
                                nxt = k + 1 < steps.size() ? steps[k + 1] : nullptr;
                            }
                        if (!cur || !nxt)
                        {
                            R.violation("exhaust:failed-track-did-not-continue", cid,
                                        fmt("%s: event %u track %u: no step after the failed "
                                            "interaction of call %u",
                                            cc.id.c_str(), q.q.event, q.q.track, q.call));
                            return true;
                        }
                        if (cur->post.energy != q.q.energy || nxt->pre.energy != q.q.energy
                            || nxt->pre.pos != cur->post.pos)
                        {
                            R.violation("exhaust:state-changed-over-failed-interaction", cid,
                                        fmt("%s: event %u track %u interacted at E=%.17g; the failed "
                                            "step ends with E=%.17g and the next step starts with "
                                            "E=%.17g",
                                            cc.id.c_str(), q.q.event, q.q.track, q.q.energy,
                                            cur->post.energy, nxt->pre.energy));
                            return true;
                        }
                    }
                    else
                    {
                        // surviving secondaries (production cuts of "mat": gamma 0.02, e+- 0.05)
                        for (auto const& sc : secs)
                        {
                            double cut = sc.first == 0 ? 0.02 : 0.05;
                            if (!(sc.second < cut))
                                ++expected_children[key];
                        }
                    }
                }
                for (auto const& kv : tracks)
                {
                    StepRec const* first = kv.second.steps.front();
                    if (first->parent != no_id)
                        ++seen_children[{first->event, first->parent}];
                }
                for (auto const& kv : tracks)
                {
                    unsigned want = expected_children.count(kv.first) ? expected_children[kv.first] : 0;
                    unsigned got = seen_children.count(kv.first) ? seen_children[kv.first] : 0;
                    if (want != got)
                    {
                        R.violation("exhaust:secondaries-not-whole-interactions", cid,
                                    fmt("%s: event %u track %u: its successful interactions emitted %u "
                                        "surviving secondaries, %u child tracks exist",
                                        cc.id.c_str(), kv.first.first, kv.first.second, want, got));
                        return true;
                    }
                }
                uint64_t h = stream_hash(P->recorder->steps);
                R.outcome(h);
                if (c.deviations() > 0)
                    R.nontrivial(hash_mix(hash_str(root), h));
                return !((st.executions & 31) == 0 && R.expired());
            };
            if (R.replay())
            {
                std::string rc = R.replay_case();
                Choices c(choices_from_string(rc.substr(root.size() + 1)));
                body(c);
                on_exec(c);
                for (auto const& s : P->recorder->steps)
                    fprintf(stderr,
                            "  ev%u trk%u par%d n%u part%d %s len %.17g edep %.17g E %.17g->%.17g vol "
                            "%d->%d\n",
                            s.event, s.track, int(s.parent), s.step_count, s.particle,
                            P->action_labels.at(s.action).c_str(), s.step_length, s.edep,
                            s.pre.energy, s.post.energy, s.pre.volume, s.post.volume);
                for (auto const& q : ch.log)
                    fprintf(stderr, "  query call %u trk %u kind %d E %.17g n %d chosen %d\n", q.call,
                            q.q.track, q.q.particle, q.q.energy, q.n, q.chosen);
            }
            else
                explore(body, on_exec, bound, &st);
            R.count("roots");
            R.end_case();
        }
    }
}

static void part_initializer(vf::Run& R)
{
    bool const thorough = R.thorough();
    int const bound = thorough ? 3 : 2;
    auto prims = primary_lattice(false);
    {
        std::vector<PrimaryCase> p2;
        for (auto const& p : prims)
            if (p.id.find(".e2.") != std::string::npos && p.id.find(".p0.d0") != std::string::npos)
                p2.push_back(p);  // 100 MeV from the centre: enough energy for many generations
        prims.swap(p2);
    }
    PrimaryCase const ref = {0, 1.0, {0.2, 0.1, 0.05}, {0, 0, 1}, "ref"};
    uint64_t outer = 1000000;
    for (unsigned slots : {1u, 2u})
        for (unsigned cap : {1u, 2u, 3u, 4u, 6u})
            for (auto const& pc : prims)
            {
                if (!R.mine(outer++))
                    continue;
                if (R.expired())
                    return;
                std::string root = fmt("init.s%u.q%u:%s", slots, cap, pc.id.c_str());
                if (R.replay() && R.replay_case().compare(0, root.size() + 1, root + "|") != 0)
                    continue;
                LoopConfig cfg;
                cfg.geometry = 1;
                cfg.along = AlongStep::linear;
                cfg.slots = slots;
                cfg.init_capacity = cap;
                cfg.xs_gamma = 5.0;
                cfg.xs_electron = 8.0;
                auto P = make_loop_problem(cfg);
                // reference stream of the probe event on a fresh state
                uint64_t ref_hash;
                {
                    Choices c0({});
                    EventRun e0 = run_event(*P, ref, c0);
                    if (!e0.completed)
                        R.harness_error("reference event does not complete");
                    ref_hash = stream_hash(P->recorder->steps);
                }
                R.begin_case(root, 600);
                ExploreStats st;
                int asan0 = asan_errors();
                struct Obs
                {
                    bool threw{false}, other_exception{false}, completed{false};
                    std::string what;
                    unsigned max_queued{0};
                    uint64_t after_hash{0};
                    bool after_ok{false};
                    unsigned calls{0};
                } ob;
                auto body = [&](Choices& c) {
                    ob = Obs{};
                    P->recorder->steps.clear();
                    ExploreChooser ch;
                    ch.c = &c;
                    g_loop_chooser = &ch;
                    auto stp = P->make_stepper();
                    try
                    {
                        stp->reseed(UniqueEventId{0});
                        Primary p = P->primary(pc.kind, pc.energy, pc.pos, pc.dir, 0);
                        StepperResult r = (*stp)(Span<Primary const>{&p, 1});
                        ob.calls = 1;
                        ob.max_queued = r.queued;
                        while (r && ob.calls < 5000)
                        {
                            r = (*stp)();
                            ob.max_queued = std::max<unsigned>(ob.max_queued, r.queued);
                            ++ob.calls;
                        }
                        ob.completed = !r;
                    }
                    catch (RuntimeError const& e)
                    {
                        ob.threw = true;
                        ob.what = e.what();
                    }
                    catch (std::exception const& e)
                    {
                        ob.other_exception = true;
                        ob.what = e.what();
                    }
                    g_loop_chooser = nullptr;
                    if (ob.threw)
                    {
                        // recover: reset, reseed, run the reference event with default choices
                        try
                        {
                            stp->reset_state();
                            P->recorder->steps.clear();
                            stp->reseed(UniqueEventId{0});
                            Primary p = P->primary(ref.kind, ref.energy, ref.pos, ref.dir, 0);
                            StepperResult r = (*stp)(Span<Primary const>{&p, 1});
                            unsigned n = 1;
                            while (r && n++ < 5000)
                                r = (*stp)();
                            ob.after_ok = !r;
                            ob.after_hash = stream_hash(P->recorder->steps);
                        }
                        catch (std::exception const& e)
                        {
                            ob.after_ok = false;
                            ob.what += std::string(" | after reset: ") + e.what();
                        }
                    }
                };
                auto on_exec = [&](Choices const& c) {
                    R.count("evaluations");
                    R.count("transitions", ob.calls);
                    std::string cid = root + "|" + choices_to_string(c.chosen());
                    if (asan_errors() != asan0)
                    {
                        R.violation("exhaust:asan-report", cid, "AddressSanitizer reported an error");
                        asan0 = asan_errors();
                        return true;
                    }
                    if (ob.other_exception)
                    {
                        R.violation("exhaust:unexpected-exception-type", cid, ob.what);
                        return true;
                    }
                    if (ob.max_queued > cap)
                    {
                        R.violation("exhaust:queued-exceeds-capacity", cid,
                                    fmt("queued=%u with initializer capacity %u and no error", ob.max_queued, cap));
                        return true;
                    }
                    if (ob.threw)
                    {
                        R.tag("initializer:overflow-reported");
                        if (ob.what.find("capacity") == std::string::npos)
                        {
                            R.violation("exhaust:unexpected-error", cid, ob.what);
                            return true;
                        }
                        if (!ob.after_ok || ob.after_hash != ref_hash)
                        {
                            R.violation("exhaust:state-not-usable-after-reset", cid,
                                        fmt("after the reported overflow, reset_state() and reseed, the "
                                            "reference event %s (%s)",
                                            ob.after_ok ? "gives a different step stream" : "fails",
                                            ob.what.c_str()));
                            return true;
                        }
                        R.nontrivial(hash_mix(hash_str(root), hash_str(choices_to_string(c.chosen()))));
                    }
                    else
                    {
                        R.tag("initializer:fits");
                        if (!ob.completed)
                        {
                            R.violation("exhaust:event-does-not-complete", cid, "");
                            return true;
                        }
                    }
                    R.outcome(hash_mix(ob.threw, ob.max_queued));
                    return !((st.executions & 31) == 0 && R.expired());
                };
                if (R.replay())
                {
                    std::string rc = R.replay_case();
                    Choices c(choices_from_string(rc.substr(root.size() + 1)));
                    body(c);
                    on_exec(c);
                }
                else
                    explore(body, on_exec, bound, &st);
                // inserting more primaries than the capacity must be reported as well
                {
                    auto stp = P->make_stepper();
                    std::vector<Primary> many;
                    for (unsigned i = 0; i < cap + 1; ++i)
                        many.push_back(P->primary(0, 1.0, {0.1 * i, 0, 0}, {1, 0, 0}, 0));
                    bool threw = false;
                    try
                    {
                        (*stp)(make_span(many));
                    }
                    catch (RuntimeError const&)
                    {
                        threw = true;
                    }
                    R.count("evaluations");
                    if (!threw || asan_errors() != asan0)
                        R.violation("exhaust:too-many-primaries-not-reported", root + "|primaries",
                                    fmt("%u primaries into capacity %u", cap + 1, cap));
                }
                R.count("roots");
                R.end_case();
            }
}

int main(int argc, char** argv)
{
    vf::Run R(argc, argv, "C16", "c16_exhaust");
    if (R.part() == "secondary")
        part_secondary(R);
    else if (R.part() == "initializer")
        part_initializer(R);
    else
        R.harness_error("unknown part");
    R.sample("sec.s2.c1:k0.e2.p0.d2|3 = 2 slots, secondary stack of 1: 100 MeV gamma, first interaction "
             "'absorb_two' (needs 2) must fail explicitly, retried with the default");
    R.sample("init.s1.q2:k0.e2.p0.d0|7.7 = 1 slot, initializer capacity 2: two 'scatter_three' in a row "
             "overflow the queue: RuntimeError, reset, reference event reproduces");
    return R.finish();
}
