// C16 - running out of secondary or initializer storage never corrupts or loses physics.
//
// Fault enumeration: the fault is "which allocation is the first to exceed the capacity"; it
// is enumerated implicitly by running EVERY explored event history (E1, all interaction
// outcome sequences within the deviation bound, harness/loop_explore.hh) at EVERY capacity
// of a lattice.  AddressSanitizer flavour.
//
//  part A  secondary stack capacity c in {0?,1,..,7} (c = factor x slots), slots {1,2,3};
//    roots: ONE primary per event (track order none; the 100 MeV primaries from the centre also
//    with init_charge and reindex_status) and, for slots >= 2, TWO / THREE primaries handed to
//    the first call (events 0,1,2; all three track orders), so that several tracks allocate
//    from the stack in the same step:
//    * the allocations of one Stepper call are judged by the sequential model of the stack
//      (cleared at every pre-step; a request of n succeeds iff used + n <= c and then
//      used += n; a failed request leaves `used` unchanged): every request must fail / succeed
//      exactly as the model says (oversized, beyond-the-rest, spurious failure);
//    * a failed in-flight interaction carries the physics-failure action in the step stream
//      and a successful one never does (a failed AT-REST interaction keeps the model's action:
//      tagged observation, DESIGN 9.3); the failed track stays alive (it steps again from the same
//      point with the same energy) and emits nothing: the number of children of every track
//      equals the surviving secondaries of its SUCCESSFUL interactions (nothing partial);
//    * the event completes and the C01 energy ledger balances (per event);
//    * dedicated sub-case: a stopped positron whose only at-rest outcome needs 2 secondaries,
//      with c = 1 and c = 2.
//  part B  initializer capacity Q in {1,2,3,4,6}, slots {1,2}, track order {none, init_charge,
//    reindex_status}; secondary stack at its default factor 3 and, for slots 2 and Q in {2,3},
//    also starved to 2 / 3 entries (roots init.s2.q<Q>.c<c>: both limits tight together; the
//    ledger counts only the secondaries of interactions whose allocation succeeded):
//    * a Stepper call throws celeritas::RuntimeError (and nothing else: no ASan report, no
//      other exception, reported `queued` never exceeds Q) IF AND ONLY IF the ledger says that
//      the pending initializers exceed Q:  need_k = queued_{k-1} - tracks started in call k
//      + surviving secondaries of the successful interactions of call k - [order !=
//      init_charge] absorbed parents with >= 1 surviving secondary (first secondary is
//      initialised in place);  need_k <= Q and a throw = "exhaust:spurious-overflow" (exact fit
//      must work), need_k > Q without a throw = "exhaust:overflow-not-reported"; on calls that
//      return, queued must equal need_k;
//    * after reset_state() + reseed the reference event (a 1 MeV gamma whose first interaction
//      emits 1 or 3 secondaries - as many as Q holds - so that slots and queue are used) gives
//      the same step stream as on a fresh state;
//    * primaries at the limit: exactly Q primaries into the empty queue are accepted and the
//      event completes; Q+1 throw, and the SAME stepper runs the reference event correctly
//      after reset_state(); for every explored history with one deviation, at its first call
//      that leaves q > 0 initializers pending: Q-q primaries are accepted, Q-q+1 throw
//      RuntimeError (no ASan report) and the stepper is usable after reset_state().
#include "harness/loop_explore.hh"
#if defined(__SANITIZE_ADDRESS__)
#    include <sanitizer/asan_interface.h>
#    include <sanitizer/common_interface_defs.h>
#endif

using namespace celeritas;
using namespace vf;

static uint64_t stream_hash(std::vector<StepRec> const& recs)
{
    uint64_t h = 1469598103934665603ull;
    for (auto const& r : recs)
    {
        h = hash_mix(h, hash_pod(r.track) ^ (hash_pod(r.step_count) << 1));
        h = hash_mix(h, hash_pod(r.post.energy));
        h = hash_mix(h, hash_pod(r.post.pos));
        h = hash_mix(h, hash_pod(r.action));
        h = hash_mix(h, hash_pod(r.edep));
    }
    return h;
}

static int asan_errors()
{
#if defined(__SANITIZE_ADDRESS__)
    return vf::detail::g_asan_errors;
#else
    return 0;
#endif
}

#if defined(__SANITIZE_ADDRESS__)
//! AddressSanitizer is about to end the process on its own (fatal report, or an internal CHECK
//! that fails because earlier wild writes of the code under test damaged its chunk headers):
//! leave a crash record naming the running case, so that the driver reports a violation of
//! that case (signature asan:<part>) instead of a broken check without a verdict.
static void on_asan_death()
{
    vf::detail::write_crash("ASAN", 0);
    _exit(5);
}
//! Called by AddressSanitizer with the text of every report, BEFORE the offending access is
//! executed: the report becomes a violation of the running case and the shard ends in an
//! orderly way instead of going on with memory that is about to be damaged.
static vf::Run* g_run = nullptr;
static void on_asan_report(char const* text)
{
    static bool entered = false;
    if (entered || !g_run)
        return;
    entered = true;
    std::string t = text ? text : "";
    g_run->violation("exhaust:asan-report", vf::detail::g_case,
                     "AddressSanitizer: " + t.substr(0, 1500));
    g_run->end_case();
    g_run->cap_hit("shard stopped after its first AddressSanitizer report");
    int rc = g_run->finish();
    fflush(nullptr);
    _exit(rc);
}
#endif

//! After an AddressSanitizer report the heap may be corrupted (recover mode keeps running and
//! ASan itself may later die on its own damaged bookkeeping, leaving no result file): the
//! report is recorded as a violation of the current case and the shard ends in an orderly way.
[[noreturn]] static void stop_after_asan(vf::Run& R)
{
    R.end_case();
    R.cap_hit("shard stopped after its first AddressSanitizer report");
    int rc = R.finish();
    fflush(nullptr);
    _exit(rc);
}

struct CapCfg
{
    std::string id;
    unsigned slots;
    int cap;
    bool at_rest_only;
};

//! One exploration root: the primaries handed to the first call (event id = index) + order
struct SecRoot
{
    std::string id;
    std::vector<PrimaryCase> prims;
    TrackOrder order;
};

// production cuts of "mat" (problems/loop_zoo.hh): gamma 0.02, e+- 0.05 MeV
static unsigned surviving(std::vector<std::pair<int, double>> const& secs)
{
    unsigned n = 0;
    for (auto const& sc : secs)
    {
        double cut = sc.first == 0 ? 0.02 : 0.05;
        if (!(sc.second < cut))
            ++n;
    }
    return n;
}
static bool parent_absorbed(Outcome o)
{
    switch (o)
    {
        case Outcome::absorb:
        case Outcome::absorb_two:
        case Outcome::absorb_pair:
        case Outcome::absorb_subcut:
        case Outcome::annihilate:
        case Outcome::absorb_in_flight:
        case Outcome::absorb_subcut_positron: return true;
        default: return false;
    }
}

static void part_secondary(vf::Run& R)
{
    bool const thorough = R.thorough();
    std::vector<CapCfg> cfgs;
    for (unsigned s : {1u, 2u, 3u})
        for (int cap = 0; cap <= 7; ++cap)
        {
            if (!thorough && s == 3 && cap > 4)
                continue;
            cfgs.push_back({fmt("sec.s%u.c%d", s, cap), s, cap, false});
        }
    for (int cap : {1, 2})
        cfgs.push_back({fmt("sec-atrest.s1.c%d", cap), 1, cap, true});
    auto prims = primary_lattice(false);
    {
        std::vector<PrimaryCase> p2;
        for (auto const& p : prims)
            if (p.id.find(".e0.") == std::string::npos
                && (p.id.find(".d2") != std::string::npos || thorough))
                p2.push_back(p);
        prims.swap(p2);
    }
    double const a3 = 0.5773502691896258;
    PrimaryCase const mA = {0, 100.0, {0.2, 0.1, 0.05}, {1, 0, 0}, "mA"};
    PrimaryCase const mB = {0, 100.0, {0.3, -0.2, 0.1}, {0, -1, 0}, "mB"};
    PrimaryCase const mC = {1, 100.0, {0.2, 0.1, 0.05}, {a3, a3, a3}, "mC"};
    std::vector<TrackOrder> const orders
        = {TrackOrder::none, TrackOrder::init_charge, TrackOrder::reindex_status};
    uint64_t outer = 0;
    for (auto const& cc : cfgs)
    {
        std::vector<SecRoot> roots;
        for (auto const& pc : prims)
        {
            roots.push_back({pc.id, {pc}, TrackOrder::none});
            // more than one point of the configuration lattice: the 100 MeV primaries from
            // the centre also under the other track orders
            if (!cc.at_rest_only && pc.id.find(".e2.p0.") != std::string::npos)
                for (size_t o = 1; o < orders.size(); ++o)
                    roots.push_back({pc.id + fmt(".o%d", int(orders[o])), {pc}, orders[o]});
        }
        if (!cc.at_rest_only && cc.slots >= 2)
            for (auto o : orders)
            {
                // several primaries in the first call: several tracks of ONE step allocate
                roots.push_back({fmt("m2.o%d", int(o)), {mA, mB}, o});
                if (cc.slots >= 3)
                    roots.push_back({fmt("m3.o%d", int(o)), {mA, mB, mC}, o});
            }
        for (auto const& rt : roots)
        {
            if (!R.mine(outer++))
                continue;
            if (R.expired())
                return;
            std::string root = cc.id + ":" + rt.id;
            if (R.replay() && R.replay_case().compare(0, root.size() + 1, root + "|") != 0)
                continue;
            // thorough: a third deviation for the several-primaries roots at the small capacities
            // (three allocating tracks in one step / fail, succeed, fail sequences)
            int const bound = (thorough && rt.prims.size() > 1 && cc.cap <= 3) ? 3 : 2;
            if (cc.at_rest_only && rt.prims[0].kind != 2)
                continue;
            LoopConfig cfg;
            cfg.geometry = 1;
            cfg.along = AlongStep::linear;
            cfg.slots = cc.slots;
            cfg.track_order = rt.order;
            cfg.xs_gamma = 3.0;
            cfg.xs_electron = 4.0;
            cfg.secondary_stack_factor = (cc.cap + 0.5) / cc.slots;
            // ample (<= 3 primaries + 2 deviations x 3 secondaries pending); the default 4096 makes
            // every Stepper construction allocate and poison ~0.5 MB under ASan
            cfg.init_capacity = 256;
            if (cc.at_rest_only)
                cfg.menu = {Outcome::absorb_in_flight, Outcome::annihilate};
            // everything that builds or drives a Stepper runs inside a named case (crash / hang /
            // ASan-death attribution); executions rename it to "root|<choice prefix>"
            R.begin_case(root + "|", 600);
            std::unique_ptr<LoopProblem> P;
            try
            {
                P = make_loop_problem(cfg);
            }
            catch (RuntimeError const& e)
            {
                // an explicit rejection of the configuration is a "reported error"
                R.tag("config-rejected:" + cc.id);
                R.end_case();
                continue;
            }
            ExploreStats st;
            EventRun er;
            LoggingChooser ch;
            unsigned call = 0;
            ch.call = &call;
            P->recorder->call_stamp = &call;
            int asan0 = asan_errors();
            auto body = [&](Choices& c) {
                R.begin_case(root + "|" + choices_to_string(c.prefix()), 600);
                P->recorder->steps.clear();
                ch.c = &c;
                ch.log.clear();
                g_loop_chooser = &ch;
                er = EventRun{};
                call = 0;
                try
                {
                    auto stp = P->make_stepper();
                    stp->reseed(UniqueEventId{0});
                    std::vector<Primary> pv;
                    for (size_t k = 0; k < rt.prims.size(); ++k)
                    {
                        auto const& pc = rt.prims[k];
                        pv.push_back(P->primary(pc.kind, pc.energy, pc.pos, pc.dir, unsigned(k)));
                    }
                    StepperResult r = (*stp)(make_span(pv));
                    er.calls = 1;
                    unsigned const horizon = cc.at_rest_only ? 300 : 5000;
                    while (r && er.calls < horizon && asan_errors() == asan0)
                    {
                        call = er.calls;
                        r = (*stp)();
                        ++er.calls;
                    }
                    er.completed = !r;
                }
                catch (std::exception const& e)
                {
                    er.exception = e.what();
                }
                g_loop_chooser = nullptr;
            };
            auto on_exec = [&](Choices const& c) {
                R.count("evaluations");
                R.count("transitions", er.calls);
                std::string cid = root + "|" + choices_to_string(c.chosen());
                if (asan_errors() != asan0)
                {
                    R.violation("exhaust:asan-report", cid, "AddressSanitizer reported an error");
                    stop_after_asan(R);
                }
                if (!er.exception.empty())
                {
                    R.violation("exhaust:exception", cid, er.exception);
                    return true;
                }
                if (!er.completed)
                {
                    // the at-rest annihilation of the scripted e+ needs two entries: with a
                    // stack smaller than ONE request no retry can ever succeed (recorded finding);
                    // with capacity >= 2 the event has to complete like any other
                    R.violation(cc.at_rest_only && cc.cap < 2
                                    ? "exhaust:at-rest-request-larger-than-stack-never-completes"
                                    : "exhaust:event-does-not-complete",
                                cid,
                                fmt("%s: event still has tracks after %u Stepper calls (secondary "
                                    "stack capacity %d)",
                                    cc.id.c_str(), er.calls, cc.cap));
                    return true;
                }
                // C01 energy ledger, event by event (primary k is event k)
                for (size_t k = 0; k < rt.prims.size(); ++k)
                {
                    Verdict v;
                    if (rt.prims.size() == 1)
                        v = check_energy(*P, rt.prims[0], P->recorder->steps);
                    else
                    {
                        std::vector<StepRec> mine;
                        for (auto const& r : P->recorder->steps)
                            if (r.event == k)
                                mine.push_back(r);
                        v = check_energy(*P, rt.prims[k], mine);
                    }
                    if (v)
                    {
                        R.violation(v.sig, cid, cc.id + fmt(": event %zu: ", k) + v.msg);
                        return true;
                    }
                }
                // The scripted interactor reports for every interaction whether the allocation
                // of its secondaries failed (Interaction::from_failure returned)
                TrackMap tracks = group_tracks(P->recorder->steps);
                std::map<std::pair<unsigned, unsigned>, unsigned> expected_children, seen_children;
                // sequential model of the secondary stack: cleared at every pre-step, requests
                // are served in execution (= query) order
                std::map<unsigned, int> used_in_call, requests_in_call;
                for (size_t qi = 0; qi < ch.log.size(); ++qi)
                {
                    auto const& q = ch.log[qi];
                    auto key = std::make_pair(q.q.event, q.q.track);
                    if (!tracks.count(key))
                    {
                        R.violation("exhaust:interaction-without-track", cid, "");
                        return true;
                    }
                    bool failed = q.alloc_failed;
                    auto menu = feasible_outcomes(*P->shared, q.q.particle, q.q.energy);
                    Outcome o = menu.at(q.chosen);
                    auto secs = outcome_secondaries(*P->shared, o, q.q.particle, q.q.energy);
                    int need = int(secs.size());
                    int& used = used_in_call[q.call];
                    R.tag(failed ? "interaction:failed" : "interaction:ok");
                    if (need > 0 && ++requests_in_call[q.call] == 2)
                        R.tag("call:several-requests-in-one-step");
                    if (need > cc.cap && !failed)
                    {
                        R.violation("exhaust:oversized-request-did-not-fail", cid,
                                    fmt("%s: %s needs %d secondaries, capacity %d, but the allocation "
                                        "succeeded",
                                        cc.id.c_str(), to_cstring(o), need, cc.cap));
                        return true;
                    }
                    if (need > 0 && !failed && used + need > cc.cap)
                    {
                        R.violation("exhaust:request-beyond-remaining-capacity-did-not-fail", cid,
                                    fmt("%s: call %u: %s needs %d secondaries, %d of capacity %d "
                                        "already taken by earlier tracks of this step, but the "
                                        "allocation succeeded",
                                        cc.id.c_str(), q.call, to_cstring(o), need, used, cc.cap));
                        return true;
                    }
                    if (failed && used + need <= cc.cap)
                    {
                        R.violation("exhaust:spurious-failure", cid,
                                    fmt("%s: call %u: %s needs %d secondaries, earlier tracks of this "
                                        "step hold %d, capacity %d, but it failed",
                                        cc.id.c_str(), q.call, to_cstring(o), need, used, cc.cap));
                        return true;
                    }
                    if (failed && used > 0)
                        R.tag("call:failed-next-to-successful-request");
                    if (!failed)
                        used += need;
                    // the step record of this interaction
                    auto const& steps = tracks[key].steps;
                    StepRec const* cur = nullptr;
                    StepRec const* nxt = nullptr;
                    for (size_t k = 0; k < steps.size(); ++k)
                        if (steps[k]->call == q.call)
                        {
                            cur = steps[k];
                            nxt = k + 1 < steps.size() ? steps[k + 1] : nullptr;
                        }
                    if (!cur)
                    {
                        R.violation("exhaust:interaction-without-step-record", cid,
                                    fmt("%s: event %u track %u interacted in call %u but delivered "
                                        "no step record",
                                        cc.id.c_str(), q.q.event, q.q.track, q.call));
                        return true;
                    }
                    // "fails explicitly": the failure is visible in the public step stream
                    bool const says_failed = P->action_labels.at(cur->action) == "physics-failure";
                    if (failed && !says_failed && q.q.energy == 0)
                    {
                        // Observation recorded in DESIGN 9.3 (not a violation of the property as
                        // stated): an at-rest step already has length 0, SimTrackView::step_limit
                        // keeps the earlier action on a tie, so the model's action id stays
                        R.tag("observation:failed-at-rest-interaction-keeps-model-action");
                    }
                    else if (failed != says_failed)
                    {
                        R.violation(failed ? "exhaust:failure-not-reported"
                                           : "exhaust:failure-reported-for-successful-interaction",
                                    cid,
                                    fmt("%s: event %u track %u call %u: allocation of %d secondaries "
                                        "%s, step action is '%s'",
                                        cc.id.c_str(), q.q.event, q.q.track, q.call, need,
                                        failed ? "failed" : "succeeded",
                                        P->action_labels.at(cur->action).c_str()));
                        return true;
                    }
                    if (failed)
                    {
                        // The track must stay alive at the interaction point with unchanged
                        // energy: its step record of this call is followed by another step that
                        // starts exactly where and with what this one ended.  (It then samples
                        // a new interaction length - the process is memoryless - so the next
                        // interaction may come after further continuous loss, or never.)
                        if (!nxt)
                        {
                            R.violation("exhaust:failed-track-did-not-continue", cid,
                                        fmt("%s: event %u track %u: no step after the failed "
                                            "interaction of call %u",
                                            cc.id.c_str(), q.q.event, q.q.track, q.call));
                            return true;
                        }
                        if (cur->post.energy != q.q.energy || nxt->pre.energy != q.q.energy
                            || nxt->pre.pos != cur->post.pos)
                        {
                            R.violation("exhaust:state-changed-over-failed-interaction", cid,
                                        fmt("%s: event %u track %u interacted at E=%.17g; the failed "
                                            "step ends with E=%.17g and the next step starts with "
                                            "E=%.17g",
                                            cc.id.c_str(), q.q.event, q.q.track, q.q.energy,
                                            cur->post.energy, nxt->pre.energy));
                            return true;
                        }
                    }
                    else
                    {
                        expected_children[key] += surviving(secs);
                    }
                }
                for (auto const& kv : tracks)
                {
                    StepRec const* first = kv.second.steps.front();
                    if (first->parent != no_id)
                        ++seen_children[{first->event, first->parent}];
                }
                for (auto const& kv : tracks)
                {
                    unsigned want = expected_children.count(kv.first) ? expected_children[kv.first] : 0;
                    unsigned got = seen_children.count(kv.first) ? seen_children[kv.first] : 0;
                    if (want != got)
                    {
                        R.violation("exhaust:secondaries-not-whole-interactions", cid,
                                    fmt("%s: event %u track %u: its successful interactions emitted %u "
                                        "surviving secondaries, %u child tracks exist",
                                        cc.id.c_str(), kv.first.first, kv.first.second, want, got));
                        return true;
                    }
                }
                uint64_t h = stream_hash(P->recorder->steps);
                R.outcome(h);
                if (c.deviations() > 0)
                    R.nontrivial(hash_mix(hash_str(root), h));
                return !((st.executions & 31) == 0 && R.expired());
            };
            if (R.replay())
            {
                std::string rc = R.replay_case();
                Choices c(choices_from_string(rc.substr(root.size() + 1)));
                body(c);
                on_exec(c);
                for (auto const& s : P->recorder->steps)
                    fprintf(stderr,
                            "  call %u ev%u trk%u par%d n%u part%d %s len %.17g edep %.17g E "
                            "%.17g->%.17g vol %d->%d\n",
                            s.call, s.event, s.track, int(s.parent), s.step_count, s.particle,
                            P->action_labels.at(s.action).c_str(), s.step_length, s.edep,
                            s.pre.energy, s.post.energy, s.pre.volume, s.post.volume);
                for (auto const& q : ch.log)
                    fprintf(stderr, "  query call %u ev %u trk %u kind %d E %.17g n %d chosen %d failed %d\n",
                            q.call, q.q.event, q.q.track, q.q.particle, q.q.energy, q.n, q.chosen,
                            int(q.alloc_failed));
            }
            else
                explore(body, on_exec, bound, &st);
            R.count("roots");
            R.end_case();
        }
    }
}

//---------------------------------------------------------------------------//
// part B
//---------------------------------------------------------------------------//
//! Reference event: 1 MeV gamma whose FIRST interaction is the given outcome, everything
//! else default (absorbed)
struct RefChooser : LoopChooser
{
    ScriptedShared const* shared{nullptr};
    Outcome first{Outcome::absorb};
    unsigned asked{0};
    int choose(int n, InteractionQuery const& q) override
    {
        if (asked++ != 0)
            return 0;
        auto menu = feasible_outcomes(*shared, q.particle, q.energy);
        for (int i = 0; i < int(menu.size()) && i < n; ++i)
            if (menu[i] == first)
                return i;
        return 0;
    }
};

struct RefResult
{
    bool ok{false};
    uint64_t hash{0};
    unsigned max_queued{0}, max_alive{0};
    std::string what;
};

//! Run the reference event on the given (fresh or reset) stepper
static RefResult run_reference(LoopProblem& P, Stepper<MemSpace::host>& stp, PrimaryCase const& ref,
                               Outcome first)
{
    RefResult out;
    RefChooser rc;
    rc.shared = P.shared.get();
    rc.first = first;
    LoopChooser* saved = g_loop_chooser;
    g_loop_chooser = &rc;
    try
    {
        P.recorder->steps.clear();
        stp.reseed(UniqueEventId{0});
        Primary p = P.primary(ref.kind, ref.energy, ref.pos, ref.dir, 0);
        StepperResult r = stp(Span<Primary const>{&p, 1});
        unsigned n = 1;
        out.max_queued = r.queued;
        out.max_alive = r.alive;
        int const a0 = asan_errors();
        while (r && n++ < 5000 && asan_errors() == a0)
        {
            r = stp();
            out.max_queued = std::max<unsigned>(out.max_queued, r.queued);
            out.max_alive = std::max<unsigned>(out.max_alive, r.alive);
        }
        out.ok = !r;
        out.hash = stream_hash(P.recorder->steps);
    }
    catch (std::exception const& e)
    {
        out.ok = false;
        out.what = e.what();
    }
    g_loop_chooser = saved;
    return out;
}

static void part_initializer(vf::Run& R)
{
    bool const thorough = R.thorough();
    auto prims = primary_lattice(false);
    {
        std::vector<PrimaryCase> p2;
        for (auto const& p : prims)
            if (p.id.find(".e2.") != std::string::npos && p.id.find(".p0.d0") != std::string::npos)
                p2.push_back(p);  // 100 MeV from the centre: enough energy for many generations
        prims.swap(p2);
    }
    PrimaryCase const ref = {0, 1.0, {0.2, 0.1, 0.05}, {0, 0, 1}, "ref"};
    std::vector<TrackOrder> const orders
        = {TrackOrder::none, TrackOrder::init_charge, TrackOrder::reindex_status};
    uint64_t outer = 1000000;
    for (auto order : orders)
     for (unsigned slots : {1u, 2u})
        for (unsigned cap : {1u, 2u, 3u, 4u, 6u})
         // scap: secondary stack capacity; 0 = the default factor 3 (never starved).  For slots 2
         // and Q in {2,3} also a STARVED stack of 2 / 3 entries: both limits tight together
         for (unsigned scap : {0u, 2u, 3u})
            for (auto const& pc : prims)
            {
                if (scap && !(slots == 2 && (cap == 2 || cap == 3)))
                    continue;
                if (!R.mine(outer++))
                    continue;
                if (R.expired())
                    return;
                int const bound = thorough ? 3 : 2;
                std::string const sc = scap ? fmt(".c%u", scap) : std::string();
                std::string root = order == TrackOrder::none
                                       ? fmt("init.s%u.q%u%s:%s", slots, cap, sc.c_str(), pc.id.c_str())
                                       : fmt("init.s%u.q%u%s.o%d:%s", slots, cap, sc.c_str(),
                                             int(order), pc.id.c_str());
                if (R.replay() && R.replay_case().compare(0, root.size() + 1, root + "|") != 0)
                    continue;
                LoopConfig cfg;
                cfg.geometry = 1;
                cfg.along = AlongStep::linear;
                cfg.slots = slots;
                cfg.init_capacity = cap;
                if (scap)
                    cfg.secondary_stack_factor = (scap + 0.5) / slots;
                cfg.track_order = order;
                cfg.xs_gamma = 5.0;
                cfg.xs_electron = 8.0;
                R.begin_case(root + "|reference", 600);
                auto P = make_loop_problem(cfg);
                int asan0 = asan_errors();
                // reference event: its first interaction emits as many secondaries as Q holds,
                // so that after a reset BOTH the slots and the initializer queue are used again
                Outcome const ref_first = (cap >= 3 && (scap == 0 || scap >= 3))
                                              ? Outcome::scatter_three
                                              : Outcome::scatter_plus_one;
                uint64_t ref_hash;
                {
                    auto stp = P->make_stepper();
                    RefResult e0 = run_reference(*P, *stp, ref, ref_first);
                    if (!e0.ok && !e0.what.empty())
                    {
                        // by construction the reference event never has more than min(Q, 3)
                        // initializers pending: an error here is a spurious overflow
                        R.violation("exhaust:spurious-overflow[reference-event]", root + "|reference",
                                    fmt("the reference event (1 MeV gamma, first interaction %s, at most "
                                        "%d initializers pending, capacity %u) fails on a FRESH state: ",
                                        to_cstring(ref_first), cap >= 3 ? 3 : 1, cap)
                                        + e0.what.substr(0, 400));
                        R.end_case();
                        continue;
                    }
                    if (!e0.ok)
                        R.harness_error("reference event does not complete");
                    if (e0.max_queued == 0)
                        R.harness_error("reference event never queues an initializer");
                    ref_hash = e0.hash;
                    R.maxi("ref_event_max_queued", e0.max_queued);
                }
                ExploreStats st;
                struct Obs
                {
                    bool threw{false}, other_exception{false}, completed{false};
                    std::string what;
                    unsigned max_queued{0};
                    RefResult after;
                    unsigned calls{0};
                    unsigned throw_call{0};
                    std::vector<StepperResult> results;
                } ob;
                LoggingChooser ch;
                unsigned call = 0;
                ch.call = &call;
                P->recorder->call_stamp = &call;
                // records of the explored event (the recorder is reused by the reference event)
                std::vector<StepRec> event_recs;
                auto primary_of = [&](int i) {
                    // extra primaries of the at-the-limit probes (inside "mat")
                    return P->primary(i % 2, 1.0, {0.1 * (i % 8), 0.05 * (i / 8), 0}, {1, 0, 0}, 0);
                };
                // run the event (choices from c) for at most `max_calls` Stepper calls
                auto run_prefix = [&](Stepper<MemSpace::host>& stp, unsigned max_calls) {
                    stp.reseed(UniqueEventId{0});
                    Primary p = P->primary(pc.kind, pc.energy, pc.pos, pc.dir, 0);
                    call = 0;
                    StepperResult r = stp(Span<Primary const>{&p, 1});
                    ob.results.push_back(r);
                    ob.calls = 1;
                    ob.max_queued = r.queued;
                    while (r && ob.calls < max_calls && asan_errors() == asan0)
                    {
                        call = ob.calls;
                        r = stp();
                        ob.results.push_back(r);
                        ob.max_queued = std::max<unsigned>(ob.max_queued, r.queued);
                        ++ob.calls;
                    }
                    return r;
                };
                auto body = [&](Choices& c) {
                    R.begin_case(root + "|" + choices_to_string(c.prefix()), 600);
                    ob = Obs{};
                    P->recorder->steps.clear();
                    ch.c = &c;
                    ch.log.clear();
                    g_loop_chooser = &ch;
                    auto stp = P->make_stepper();
                    try
                    {
                        StepperResult r = run_prefix(*stp, 5000);
                        ob.completed = !r;
                    }
                    catch (RuntimeError const& e)
                    {
                        ob.threw = true;
                        ob.throw_call = call;
                        ob.what = e.what();
                    }
                    catch (std::exception const& e)
                    {
                        ob.other_exception = true;
                        ob.what = e.what();
                    }
                    g_loop_chooser = nullptr;
                    event_recs = P->recorder->steps;
                    if (ob.threw)
                    {
                        // recover: reset, reseed, run the reference event on the SAME stepper
                        try
                        {
                            stp->reset_state();
                            ob.after = run_reference(*P, *stp, ref, ref_first);
                        }
                        catch (std::exception const& e)
                        {
                            ob.after.ok = false;
                            ob.after.what = e.what();
                        }
                    }
                };
                // primaries into a NON-EMPTY queue at the limit: replay the history up to its
                // first call that leaves q > 0 initializers pending, then hand `extra` primaries
                // to the next call (all interactions of that call: default = absorbed, so the
                // queue cannot grow during the call)
                struct Probe
                {
                    bool threw{false}, other{false};
                    std::string what;
                    unsigned queued{0};
                    RefResult after;
                };
                auto probe_insert = [&](std::vector<int> const& chosen, unsigned ncalls,
                                        unsigned extra) {
                    Probe out;
                    Choices c2(chosen);
                    Obs saved = ob;
                    auto saved_log = ch.log;
                    ch.c = &c2;
                    ch.log.clear();
                    g_loop_chooser = &ch;
                    auto stp = P->make_stepper();
                    P->recorder->steps.clear();
                    try
                    {
                        ob = Obs{};
                        run_prefix(*stp, ncalls);
                        ch.c = nullptr;  // defaults from here on
                        std::vector<Primary> pv;
                        for (unsigned i = 0; i < extra; ++i)
                            pv.push_back(primary_of(int(i)));
                        StepperResult r = (*stp)(make_span(pv));
                        out.queued = r.queued;
                    }
                    catch (RuntimeError const& e)
                    {
                        out.threw = true;
                        out.what = e.what();
                    }
                    catch (std::exception const& e)
                    {
                        out.other = true;
                        out.what = e.what();
                    }
                    g_loop_chooser = nullptr;
                    if (out.threw)
                    {
                        try
                        {
                            stp->reset_state();
                            out.after = run_reference(*P, *stp, ref, ref_first);
                        }
                        catch (std::exception const& e)
                        {
                            out.after.ok = false;
                            out.after.what = e.what();
                        }
                    }
                    ob = saved;
                    ch.log = saved_log;
                    return out;
                };
                auto on_exec = [&](Choices const& c) {
                    R.count("evaluations");
                    R.count("transitions", ob.calls);
                    std::string cid = root + "|" + choices_to_string(c.chosen());
                    if (asan_errors() != asan0)
                    {
                        R.violation("exhaust:asan-report", cid, "AddressSanitizer reported an error");
                        stop_after_asan(R);
                    }
                    if (ob.other_exception)
                    {
                        R.violation("exhaust:unexpected-exception-type", cid, ob.what);
                        return true;
                    }
                    if (ob.max_queued > cap)
                    {
                        R.violation("exhaust:queued-exceeds-capacity", cid,
                                    fmt("queued=%u with initializer capacity %u and no error", ob.max_queued, cap));
                        return true;
                    }
                    // Ledger of the pending initializers, call by call (see the file comment)
                    {
                        std::vector<unsigned> nrec(ob.calls + 1, 0);
                        for (auto const& r : event_recs)
                            if (r.call < nrec.size())
                                ++nrec[r.call];
                        std::vector<long> delta(ob.calls + 1, 0);
                        for (auto const& q : ch.log)
                        {
                            if (q.alloc_failed)
                                R.tag(ob.threw ? "initializer:starved-stack-failure-in-overflowing-history"
                                               : "initializer:starved-stack-failure-in-fitting-history");
                            if (q.alloc_failed || q.call >= delta.size())
                                continue;
                            auto menu = feasible_outcomes(*P->shared, q.q.particle, q.q.energy);
                            Outcome o = menu.at(q.chosen);
                            unsigned k = surviving(
                                outcome_secondaries(*P->shared, o, q.q.particle, q.q.energy));
                            delta[q.call] += k;
                            if (k > 0 && parent_absorbed(o) && order != TrackOrder::init_charge)
                                delta[q.call] -= 1;
                        }
                        unsigned const last = ob.threw ? ob.throw_call : ob.calls - 1;
                        long queued_prev = 1;  // the primary, pending when the first call starts
                        long alive_prev = 0;
                        for (unsigned k = 0; k <= last && k < nrec.size(); ++k)
                        {
                            long need = queued_prev - (long(nrec[k]) - alive_prev) + delta[k];
                            bool const threw_here = ob.threw && k == ob.throw_call;
                            if (threw_here && need <= long(cap))
                            {
                                R.violation("exhaust:spurious-overflow", cid,
                                            fmt("call %u: %ld initializers pending before it, %u "
                                                "tracks stepped (%ld alive before), the ledger needs "
                                                "%ld <= capacity %u, but: %s",
                                                k, queued_prev, nrec[k], alive_prev, need, cap,
                                                ob.what.substr(0, 300).c_str()));
                                return true;
                            }
                            if (!threw_here && need > long(cap))
                            {
                                R.violation("exhaust:overflow-not-reported", cid,
                                            fmt("call %u: the ledger needs %ld pending initializers, "
                                                "capacity %u, but the call returned (queued=%u)",
                                                k, need, cap, ob.results[k].queued));
                                return true;
                            }
                            if (threw_here)
                                break;
                            if (long(ob.results[k].queued) != need)
                            {
                                R.violation("exhaust:queued-differs-from-ledger", cid,
                                            fmt("call %u: queued=%u, the ledger of started tracks "
                                                "and emitted secondaries gives %ld",
                                                k, ob.results[k].queued, need));
                                return true;
                            }
                            if (need == long(cap))
                                R.tag("initializer:exact-fit");
                            queued_prev = ob.results[k].queued;
                            alive_prev = ob.results[k].alive;
                        }
                    }
                    if (ob.threw)
                    {
                        R.tag("initializer:overflow-reported");
                        if (ob.what.find("capacity") == std::string::npos)
                        {
                            R.violation("exhaust:unexpected-error", cid, ob.what);
                            return true;
                        }
                        if (!ob.after.ok || ob.after.hash != ref_hash)
                        {
                            R.violation("exhaust:state-not-usable-after-reset", cid,
                                        fmt("after the reported overflow, reset_state() and reseed, the "
                                            "reference event %s (%s)",
                                            ob.after.ok ? "gives a different step stream" : "fails",
                                            (ob.what + " | after reset: " + ob.after.what).c_str()));
                            return true;
                        }
                        R.nontrivial(hash_mix(hash_str(root), hash_str(choices_to_string(c.chosen()))));
                    }
                    else
                    {
                        R.tag("initializer:fits");
                        if (!ob.completed)
                        {
                            R.violation("exhaust:event-does-not-complete", cid, "");
                            return true;
                        }
                    }
                    // primaries arriving while initializers are pending, at the limit
                    if (c.deviations() == 1)
                    {
                        unsigned k = 0;
                        while (k < ob.results.size() && ob.results[k].queued == 0)
                            ++k;
                        if (k < ob.results.size() && ob.results[k].queued <= cap)
                        {
                            unsigned const q = ob.results[k].queued;
                            std::vector<int> chosen = c.chosen();
                            for (int over = 0; over <= 1; ++over)
                            {
                                unsigned const extra = cap - q + over;
                                if (extra == 0)
                                    continue;
                                Probe pr = probe_insert(chosen, k + 1, extra);
                                R.count("evaluations");
                                std::string pid = cid + fmt(" +%u primaries after call %u (queued %u)",
                                                            extra, k, q);
                                if (asan_errors() != asan0)
                                {
                                    R.violation("exhaust:asan-report", cid,
                                                "AddressSanitizer reported an error: " + pid);
                                    stop_after_asan(R);
                                }
                                if (pr.other)
                                {
                                    R.violation("exhaust:unexpected-exception-type", cid, pid + ": " + pr.what);
                                    return true;
                                }
                                if (!over)
                                {
                                    R.tag("primaries:into-pending-queue-exact-fit");
                                    if (pr.threw)
                                    {
                                        R.violation("exhaust:spurious-overflow[primaries]", cid,
                                                    pid + fmt(": %u + %u <= capacity %u but: ", q, extra, cap)
                                                        + pr.what.substr(0, 300));
                                        return true;
                                    }
                                    if (pr.queued > cap)
                                    {
                                        R.violation("exhaust:queued-exceeds-capacity", cid, pid);
                                        return true;
                                    }
                                }
                                else
                                {
                                    R.tag("primaries:into-pending-queue-one-too-many");
                                    if (!pr.threw)
                                    {
                                        R.violation("exhaust:too-many-primaries-not-reported", cid,
                                                    pid + fmt(": %u + %u > capacity %u", q, extra, cap));
                                        return true;
                                    }
                                    if (!pr.after.ok || pr.after.hash != ref_hash)
                                    {
                                        R.violation("exhaust:state-not-usable-after-reset[primaries]", cid,
                                                    pid + ": after the reported overflow and reset_state() "
                                                          "the reference event "
                                                        + (pr.after.ok ? "gives a different step stream"
                                                                       : "fails: " + pr.after.what));
                                        return true;
                                    }
                                }
                            }
                        }
                    }
                    R.outcome(hash_mix(ob.threw, ob.max_queued));
                    return !((st.executions & 31) == 0 && R.expired());
                };
                if (R.replay()
                    && (R.replay_case() == root + "|primaries" || R.replay_case() == root + "|reference"))
                {
                    // only the reference event above / the probe below
                }
                else if (R.replay())
                {
                    std::string rc = R.replay_case();
                    Choices c(choices_from_string(rc.substr(root.size() + 1)));
                    body(c);
                    on_exec(c);
                    for (size_t k = 0; k < ob.results.size(); ++k)
                        fprintf(stderr, "  call %zu: active %u alive %u queued %u\n", k,
                                ob.results[k].active, ob.results[k].alive, ob.results[k].queued);
                    for (auto const& q : ch.log)
                        fprintf(stderr, "  query call %u trk %u kind %d E %.17g n %d chosen %d\n", q.call,
                                q.q.track, q.q.particle, q.q.energy, q.n, q.chosen);
                    if (ob.threw)
                        fprintf(stderr, "  threw in call %u: %s\n", ob.throw_call, ob.what.c_str());
                }
                else
                    explore(body, on_exec, bound, &st);
                // primaries into the EMPTY queue: exactly `cap` are accepted and transported;
                // `cap + 1` are reported, and the same stepper is usable after reset_state()
                if (!R.replay() || R.replay_case() == root + "|primaries")
                {
                    std::string cid = root + "|primaries";
                    R.begin_case(cid, 600);
                    for (unsigned n : {cap, cap + 1})
                    {
                        auto stp = P->make_stepper();
                        std::vector<Primary> many;
                        for (unsigned i = 0; i < n; ++i)
                            many.push_back(primary_of(int(i)));
                        bool threw = false, completed = false;
                        std::string what;
                        unsigned maxq = 0;
                        g_loop_chooser = nullptr;
                        try
                        {
                            stp->reseed(UniqueEventId{0});
                            StepperResult r = (*stp)(make_span(many));
                            maxq = r.queued;
                            unsigned k = 1;
                            while (r && k++ < 5000)
                            {
                                r = (*stp)();
                                maxq = std::max<unsigned>(maxq, r.queued);
                            }
                            completed = !r;
                        }
                        catch (RuntimeError const& e)
                        {
                            threw = true;
                            what = e.what();
                        }
                        R.count("evaluations");
                        if (asan_errors() != asan0)
                        {
                            R.violation("exhaust:asan-report", cid,
                                        fmt("AddressSanitizer reported an error: %u primaries into capacity %u", n, cap));
                            stop_after_asan(R);
                        }
                        else if (n == cap && (threw || !completed || maxq > cap))
                            R.violation(threw ? "exhaust:spurious-overflow[primaries]"
                                              : "exhaust:event-does-not-complete",
                                        cid,
                                        fmt("%u primaries into the empty queue of capacity %u: %s", n, cap,
                                            threw ? what.substr(0, 300).c_str() : "not transported"));
                        else if (n == cap + 1 && !threw)
                            R.violation("exhaust:too-many-primaries-not-reported", cid,
                                        fmt("%u primaries into capacity %u", cap + 1, cap));
                        else if (n == cap + 1)
                        {
                            RefResult after;
                            try
                            {
                                stp->reset_state();
                                after = run_reference(*P, *stp, ref, ref_first);
                            }
                            catch (std::exception const& e)
                            {
                                after.ok = false;
                                after.what = e.what();
                            }
                            if (asan_errors() != asan0)
                            {
                                R.violation("exhaust:asan-report", cid,
                                            "AddressSanitizer reported an error in the event after the "
                                            "rejected primaries");
                                stop_after_asan(R);
                            }
                            else if (!after.ok || after.hash != ref_hash)
                                R.violation("exhaust:state-not-usable-after-reset[primaries]", cid,
                                            fmt("%u primaries into capacity %u were rejected; after "
                                                "reset_state() and reseed the reference event on the same "
                                                "stepper %s",
                                                cap + 1, cap,
                                                after.ok ? "gives a different step stream"
                                                         : ("fails: " + after.what).c_str()));
                        }
                    }
                }
                R.count("roots");
                R.end_case();
            }
}

int main(int argc, char** argv)
{
    vf::Run R(argc, argv, "C16", "c16_exhaust");
#if defined(__SANITIZE_ADDRESS__)
    __sanitizer_set_death_callback(on_asan_death);
    g_run = &R;
    __asan_set_error_report_callback(on_asan_report);
#endif
    if (R.part() == "secondary")
        part_secondary(R);
    else if (R.part() == "initializer")
        part_initializer(R);
    else
        R.harness_error("unknown part");
    R.sample("sec.s2.c1:k0.e2.p0.d2|3 = 2 slots, secondary stack of 1: 100 MeV gamma, first interaction "
             "'absorb_two' (needs 2) must fail explicitly, retried with the default");
    R.sample("init.s1.q2:k0.e2.p0.d0|7.7 = 1 slot, initializer capacity 2: two 'scatter_three' in a row "
             "overflow the queue: RuntimeError exactly in the call whose ledger exceeds 2, reset, "
             "reference event (gamma, first interaction scatter_plus_one) reproduces");
    R.sample("sec.s2.c3:m2.o0|3.3 = 2 slots, stack of 3, two 100 MeV gammas in the first call, both "
             "'absorb_two' in the same step: the first takes 2, the second (needs 2, 1 left) must fail");
    return R.finish();
}
