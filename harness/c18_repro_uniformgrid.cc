// Standalone reproduction of the two UniformGrid::find findings of C18 (header-only):
//   g++ -std=c++17 -O2 -I/repo/src -I/verif/build/rel/celeritas/include harness/c18_repro_uniformgrid.cc -o /tmp/c18_repro && /tmp/c18_repro
#include <cmath>
#include <cstdio>
#include "corecel/grid/UniformGrid.hh"
using namespace celeritas;
int main()
{
    auto data = UniformGridData::from_bounds(std::log(1e-4), std::log(100.0), 8);
    UniformGrid grid(data);
    // (1) last-bin overrun
    double v = std::nextafter(grid.back(), 0.0);
    printf("size=%u front=%.17g back=%.17g delta=%.17g\n", grid.size(), grid.front(), grid.back(), data.delta);
    printf("find(back-1ulp=%a) = %u   (valid bins 0..%u; value<back: %d)\n", v, grid.find(v), grid.size() - 2, v < grid.back());
    // (2) interior: value one ulp below grid[3]
    double k3 = grid[3];
    double w = std::nextafter(k3, -INFINITY);
    printf("grid[3]=%a; find(grid[3]-1ulp=%a) = %u  (expected 2: grid[2]=%a <= v < grid[3])\n", k3, w, grid.find(w), grid[2]);
    // (3) interior: value exactly grid[i] assigned to bin i-1
    auto d2 = UniformGridData::from_bounds(std::log(1e-4), std::log(1e-3), 18);
    UniformGrid g2(d2);
    printf("g2[2]=%a; find(g2[2]) = %u (expected 2)\n", g2[2], g2.find(g2[2]));
    return 0;
}
