// Standalone minimal reproduction for the C05 finding "an internal move that rounds onto a
// surface makes the navigator blind to that surface" (not a registered check; build by hand):
//
//   B=/verif/build/rel/celeritas
//   g++ -std=c++17 -w -O1 -I/verif -I/repo/src -I$B/include -isystem /root/miniconda/include \
//       harness/c05_repro_internal_move.cc -o /tmp/c05_repro -L$B/lib -Wl,-rpath,$B/lib \
//       -lorange -lgeocel -lcorecel
//   CELER_LOG=error CELER_LOG_LOCAL=critical /tmp/c05_repro     (exit 1 = defect reproduced)
//
// World box [-4,4]^3 (geometry g1 of problems/geo_zoo.hh).  A track at x = 3.875 with direction
// x-component one ulp below 0.5 asks for the next step with max_step = 0.25 (what
// LinearPropagator does for a physics-limited step):
//   intercept with the plane x=4:  0.125 / (0.5 - ulp) = 0.25000000000000006  >  0.25
//   -> find_next_step(0.25) = {0.25, boundary=false}; move_internal(0.25):
//      3.875 + 0.25*(0.5 - ulp) rounds to 4.0: the point is ON the world face, the state is not
//      "on boundary".
// From there the distance to that plane is 0, which SimpleUnitTracker discards (only positive
// intercepts count): the next step of 0.25 is again "internal" and ends at x = 4.125, outside
// the world, with volume_id still the world's interior volume.
#include <cmath>
#include <cstdio>

#include "problems/geo_zoo.hh"

using namespace celeritas;

int main()
{
    auto env = vf::zoo_make(vf::zoo_entries(false).at(0));  // g1
    auto geo = env->view(0);
    double const dx = std::nextafter(0.5, 0.0);
    double const dy = -std::sqrt(1 - dx * dx);
    geo = GeoTrackInitializer{Real3{3.875, -3.5650548885593194, 0.05}, Real3{dx, dy, 0}};
    int bad = 0;
    for (int step = 0; step < 2; ++step)
    {
        Propagation p = geo.find_next_step(0.25);
        if (p.boundary)
            geo.move_to_boundary();
        else
            geo.move_internal(0.25);
        Real3 pos = geo.pos();
        auto loc = env->oracle->locate({pos[0], pos[1], pos[2]}, 0);
        std::printf("step %d: find_next_step(0.25) = {%.17g, boundary=%d}; now at [%.17g, %.17g, %.17g], "
                    "on_boundary=%d, navigator volume '%s', point-location oracle: %s\n",
                    step, p.distance, int(p.boundary), pos[0], pos[1], pos[2],
                    int(geo.is_on_boundary()),
                    env->params->volumes().at(geo.volume_id()).name.c_str(),
                    loc.status == vf::OLocation::ok
                        ? env->oracle->volume_name(loc.global_volume).c_str()
                        : "on a surface");
        if (loc.status == vf::OLocation::ok && loc.outside && !geo.is_outside())
            bad = 1;
    }
    std::printf(bad ? "REPRODUCED: the track is beyond the world face but still in the world volume\n"
                    : "not reproduced\n");
    return bad;
}
