// C14 - physics table lookups, continuous energy loss and MSC path conversions are consistent.
//
// Bounded-exhaustive lattice enumeration (engine E4) over
//   (log-uniform energy grid) x (value shape) x (prime index) x (query energy / range / step)
// of the REAL header-only calculators, with `long double` oracles written from the documented
// definitions.  Nothing is sampled.
//
//  case-id prefixes (each case id = one grid configuration; the element is in the message):
//   xs:*      ValueGridXsBuilder/ValueGridLogBuilder + ValueGridInserter -> XsGridData ->
//             XsCalculator (== EnergyLossCalculator), UniformGrid::find
//   range:*   RangeCalculator, InverseRangeCalculator (monotone mutual inverses)
//   generic:* GenericCalculator on non-uniform grids (+ make_inverse)
//   eloss:*   real PhysicsParams (own Process with dE/dx + range tables) -> PhysicsTrackView /
//             ParticleTrackView -> calc_mean_energy_loss, range_to_step.  linear_loss_limit in
//             {0, 1e-300, 1e-3, 1e-2, 0.5 (,1)}; (min_range, max_step_over_range,
//             min_eprime_over_e) from a 4-letter alphabet indexed by the number of knots (the
//             defaults satisfy min_eprime_over_e == 1 - max_step_over_range); steps down to
//             range * 2^-53 (range - step rounds to range); electron in every material, positron
//             with the tables rotated by one material (a wrong particle index reads another table);
//             every particle has a second, cross-section-only process (values 1e250) placed
//             before (e-) / after (e+) the table process: eloss_ppid = 1 / 0; the state stores have
//             three track slots, slots 0-1 poisoned (other particle, E = 7e250, dedx_range = 1e-300),
//             all views on slot 2
//   msc:*     MscStepToGeo / MscStepFromGeo with the real UrbanMscHelper on the same physics; a
//             different scaled-xs table per (material, particle); msc_mfp against E^2/table;
//             MscStepFromGeo against the documented inverse in long double, round trip
//             true -> geo -> true, monotone in the geometrical step
//
// Sentinels.  Every table lives in the shared `reals` pool between adversarial sentinels and
// every object is built TWICE with different sentinels (variant 0: NaN,-1e300 | 1e300,NaN;
// variant 1: 7e250,-3 | -7e250,3).  Each real call is evaluated on both variants; if the two
// results differ bitwise the result depends on memory outside the table:
// signature "<calc>:read-past-end".  (DESIGN.md section 5 item 5.)
//
// Rounding model (all tolerances below are derived from it, none is tuned):
//   eps = 2^-52.  L = max(|log Emin|, |log Emax|).
//   The library's knot i is exp(fl(front + delta*i)) with front = fl(log Emin),
//   delta = fl((back-front)/(N-1)): absolute error of the log <= 5 eps L, exp adds 1 ulp
//     => |K_code - K_i| <= dK_i := K_i eps (6 L + 4).
//   The bin is selected from fl(log E) (error <= eps L): the energy at which the code switches
//   bins is within amb_i := K_i eps (8 L + 4) of K_i; inside that zone either neighbouring
//   formula is accepted (they agree there up to the tolerance because the function is continuous).
//   LinearInterpolator: slope = (yr-yl)/(xr-xl), result = fma(slope, x - xl, yl)
//     => |result - exact| <= |slope| (2 dK_k + dK_k+1) + 4 eps (|yl|+|yr|)  (+ unscaling error of
//        the prime knot); we use twice that.
#include <algorithm>
#include <cmath>
#include <cstdint>
#include <cstring>
#include <limits>
#include <memory>
#include <string>
#include <vector>

#include "corecel/data/Collection.hh"
#include "corecel/data/CollectionBuilder.hh"
#include "corecel/data/CollectionStateStore.hh"
#include "corecel/data/Ref.hh"
#include "corecel/grid/Interpolator.hh"
#include "corecel/grid/NonuniformGrid.hh"
#include "corecel/grid/UniformGrid.hh"
#include "corecel/sys/ActionRegistry.hh"
#include "celeritas/em/data/UrbanMscData.hh"
#include "celeritas/em/msc/detail/MscStepFromGeo.hh"
#include "celeritas/em/msc/detail/MscStepToGeo.hh"
#include "celeritas/em/msc/detail/UrbanMscHelper.hh"
#include "celeritas/grid/EnergyLossCalculator.hh"
#include "celeritas/grid/GenericCalculator.hh"
#include "celeritas/grid/GenericGridData.hh"
#include "celeritas/grid/InverseRangeCalculator.hh"
#include "celeritas/grid/RangeCalculator.hh"
#include "celeritas/grid/ValueGridBuilder.hh"
#include "celeritas/grid/ValueGridInserter.hh"
#include "celeritas/grid/XsCalculator.hh"
#include "celeritas/grid/XsGridData.hh"
#include "celeritas/mat/MaterialParams.hh"
#include "celeritas/phys/Model.hh"
#include "celeritas/phys/ParticleParams.hh"
#include "celeritas/phys/ParticleTrackView.hh"
#include "celeritas/phys/PhysicsParams.hh"
#include "celeritas/phys/PhysicsStepUtils.hh"
#include "celeritas/phys/PhysicsTrackView.hh"
#include "celeritas/phys/Process.hh"
#include "engine/harness.hh"

using namespace celeritas;
using vf::fmt;
using vf::hexd;
using ld = long double;

static constexpr ld EPS = 2.220446049250313080847263336181640625e-16L;  // 2^-52
static constexpr int NONE = 1 << 30;  // "no prime index" in the oracle

//---------------------------------------------------------------------------//
// small helpers
static double ulp_add(double x, int n)
{
    // x > 0 finite; moves n representable doubles up (n > 0) or down (n < 0)
    int64_t b;
    std::memcpy(&b, &x, 8);
    b += n;
    if (b <= 0)
        b = 1;
    double r;
    std::memcpy(&r, &b, 8);
    return r;
}
static bool same_bits(double a, double b)
{
    return std::memcmp(&a, &b, 8) == 0;
}
static ld absl(ld x)
{
    return x < 0 ? -x : x;
}

//---------------------------------------------------------------------------//
// Specification of a log-uniform grid (independent of UniformGridData)
struct LogSpec
{
    double emin, emax;
    int N;
    std::vector<ld> K;  // knot energies
    std::vector<ld> dK;  // bound on |library knot - K|
    std::vector<ld> amb;  // half width of the bin-switch zone around K
    ld L, lf, lb;
};
static LogSpec make_spec(double emin, double emax, int N)
{
    LogSpec s;
    s.emin = emin;
    s.emax = emax;
    s.N = N;
    s.lf = logl((ld)emin);
    s.lb = logl((ld)emax);
    s.L = std::max(absl(s.lf), absl(s.lb));
    s.K.resize(N);
    s.dK.resize(N);
    s.amb.resize(N);
    for (int i = 0; i < N; ++i)
    {
        s.K[i] = expl(s.lf + (s.lb - s.lf) * (ld)i / (ld)(N - 1));
        if (i == 0)
            s.K[i] = emin;
        if (i == N - 1)
            s.K[i] = emax;
        s.dK[i] = s.K[i] * EPS * (6 * s.L + 4);
        s.amb[i] = s.K[i] * EPS * (8 * s.L + 4);
    }
    return s;
}

// value shapes on u = i/(N-1)
enum Shape
{
    sh_const,
    sh_inc,
    sh_dec,
    sh_peak,
    sh_steep,
    sh_zero0,
    sh_count
};
static char const* shape_name(int s)
{
    static char const* n[] = {"const", "inc", "dec", "peak", "steep", "zero0"};
    return n[s];
}
static ld shape_value(int shape, int i, int N)
{
    ld u = (ld)i / (ld)(N - 1);
    switch (shape)
    {
        case sh_const: return 2.0L;
        case sh_inc: return 0.5L * expl(3 * u);
        case sh_dec: return 8.0L * expl(-4 * u);
        case sh_peak: return 1 + 6 * expl(-((u - 0.4L) / 0.2L) * ((u - 0.4L) / 0.2L));
        case sh_steep: return 1e-6L * expl(40 * u);
        case sh_zero0: return i == 0 ? 0.0L : 0.5L * expl(3 * u);
    }
    return 1;
}

//---------------------------------------------------------------------------//
// Storage pool with sentinels (one per variant)
struct Sent
{
    double pre[2];
    double post[2];
};
static Sent sentinel(int variant)
{
    double const nan = std::numeric_limits<double>::quiet_NaN();
    if (variant == 0)
        return {{nan, -1e300}, {1e300, nan}};
    return {{7e250, -3.0}, {-7e250, 3.0}};
}

struct Pool
{
    using RealsV = Collection<real_type, Ownership::value, MemSpace::host>;
    using RealsR = Collection<real_type, Ownership::const_reference, MemSpace::host>;
    using GridsV = Collection<XsGridData, Ownership::value, MemSpace::host>;
    RealsV reals;
    GridsV grids;
    RealsR ref;
    void freeze() { ref = reals; }
    void push(double const* p, int n) { make_builder(&reals).insert_back(p, p + n); }
};

//---------------------------------------------------------------------------//
// Oracle for XsCalculator
struct Cand
{
    ld val, tol, lo, hi;
};

struct XsOracle
{
    LogSpec const& s;
    std::vector<double> const& v;  // stored values (scaled by E at/above p)
    int p;  // prime index or NONE
    ld y(int i) const { return i >= p ? (ld)v[i] / s.K[i] : (ld)v[i]; }

    Cand below(ld E) const
    {
        ld val = (ld)v[0];
        if (0 >= p)
            val /= E;
        ld t = 4 * EPS * absl(val);
        return {val, t, val, val};
    }
    Cand above(ld E) const
    {
        int n = s.N - 1;
        ld val = (ld)v[n];
        if (n >= p)
            val /= E;
        ld t = 4 * EPS * absl(val);
        return {val, t, val, val};
    }
    Cand bin(int k, ld E) const
    {
        ld alo = (ld)v[k];
        ld ahi = (ld)v[k + 1];
        ld dahi = 0;
        if (k + 1 == p)
        {
            ahi = (ld)v[k + 1] / s.K[k + 1];
            dahi = absl(ahi) * (s.dK[k + 1] / s.K[k + 1] + 2 * EPS);
        }
        ld slope = (ahi - alo) / (s.K[k + 1] - s.K[k]);
        ld val = alo + slope * (E - s.K[k]);
        ld tol = 2
                 * (absl(slope) * (2 * s.dK[k] + s.dK[k + 1]) + 4 * EPS * (absl(alo) + absl(ahi))
                    + dahi);
        if (k >= p)
        {
            val /= E;
            tol = tol / E + 2 * EPS * absl(val);
        }
        ld y0 = y(k), y1 = y(k + 1);
        return {val, tol, std::min(y0, y1), std::max(y0, y1)};
    }
    // all formulas the library may legitimately use for E
    void candidates(double Ed, std::vector<Cand>& out, bool* strictly_inside) const
    {
        out.clear();
        ld E = Ed;
        int n = s.N - 1;
        *strictly_inside = false;
        if (E <= s.K[0] + s.amb[0])
            out.push_back(below(E));
        if (E >= s.K[n] - s.amb[n])
            out.push_back(above(E));
        for (int k = 0; k < n; ++k)
        {
            if (E >= s.K[k] - s.amb[k] && E <= s.K[k + 1] + s.amb[k + 1])
            {
                out.push_back(bin(k, E));
                if (E > s.K[k] + s.amb[k] && E < s.K[k + 1] - s.amb[k + 1])
                    *strictly_inside = true;
            }
        }
    }
};

// Oracle for RangeCalculator / InverseRangeCalculator (no scaling)
struct RangeOracle
{
    LogSpec const& s;
    std::vector<double> const& v;
    ld slope(int k) const { return ((ld)v[k + 1] - (ld)v[k]) / (s.K[k + 1] - s.K[k]); }
    Cand below(ld E) const
    {
        ld val = (ld)v[0] * sqrtl(E / s.K[0]);
        // exp(.5*(fl(log E) - front)): argument error <= .5 eps (|log E| + |log Emin|) + rounding
        ld tol = 2 * val * EPS * (absl(logl(E)) + absl(s.lf) + 4);
        return {val, tol, 0, (ld)v[0]};
    }
    Cand above() const
    {
        ld val = (ld)v[s.N - 1];
        return {val, 0, val, val};
    }
    Cand bin(int k, ld E) const
    {
        ld alo = v[k], ahi = v[k + 1];
        ld sl = slope(k);
        ld val = alo + sl * (E - s.K[k]);
        ld tol = 2 * (absl(sl) * (2 * s.dK[k] + s.dK[k + 1]) + 4 * EPS * (absl(alo) + absl(ahi)));
        return {val, tol, std::min(alo, ahi), std::max(alo, ahi)};
    }
    void candidates(double Ed, std::vector<Cand>& out, int* kbin) const
    {
        out.clear();
        ld E = Ed;
        int n = s.N - 1;
        *kbin = -1;
        if (E <= s.K[0] + s.amb[0])
            out.push_back(below(E));
        if (E >= s.K[n] - s.amb[n])
        {
            out.push_back(above());
            *kbin = n;
        }
        for (int k = 0; k < n; ++k)
            if (E >= s.K[k] - s.amb[k] && E <= s.K[k + 1] + s.amb[k + 1])
            {
                out.push_back(bin(k, E));
                if (*kbin < 0 || E >= s.K[k])
                    *kbin = k;
            }
    }
    // inverse: energy for range r; tolerance on the energy
    Cand inverse(double rd) const
    {
        ld r = rd;
        int n = s.N - 1;
        if (r < (ld)v[0])
        {
            ld q = r / (ld)v[0];
            ld val = s.K[0] * q * q;
            ld tol = val * (8 * EPS + 2 * s.dK[0] / s.K[0]);
            return {val, tol, 0, s.K[0]};
        }
        if (r >= (ld)v[n])
            return {s.K[n], 2 * s.dK[n], s.K[n], s.K[n]};
        int k = 0;
        while (k + 1 < n && (ld)v[k + 1] <= r)
            ++k;
        ld val = s.K[k] + (r - (ld)v[k]) * (s.K[k + 1] - s.K[k]) / ((ld)v[k + 1] - (ld)v[k]);
        ld tol = 2 * (s.dK[k] + s.dK[k + 1]) + 8 * EPS * s.K[k + 1];
        return {val, tol, s.K[k], s.K[k + 1]};
    }
};

//---------------------------------------------------------------------------//
// Query energies derived from the grid
static std::vector<double> make_queries(LogSpec const& s, int ulps, bool far, int nmid = 0)
{
    std::vector<double> q;
    double front = std::log(s.emin), back = std::log(s.emax);
    double delta = (back - front) / (s.N - 1);
    for (int i = 0; i < s.N; ++i)
    {
        double bases[4] = {std::exp(front + delta * i), (double)s.K[i],
                           s.emin * std::pow(s.emax / s.emin, double(i) / double(s.N - 1)),
                           i == 0 ? s.emin : (i == s.N - 1 ? s.emax : (double)s.K[i])};
        for (double b : bases)
            for (int d = -ulps; d <= ulps; ++d)
                q.push_back(ulp_add(b, d));
    }
    for (int k = 0; k + 1 < s.N; ++k)
    {
        double a = (double)s.K[k], b = (double)s.K[k + 1];
        q.push_back(0.5 * (a + b));
        q.push_back(std::sqrt(a * b));
        q.push_back(a + 0.25 * (b - a));
        q.push_back(a + 0.75 * (b - a));
        q.push_back(a * (1 + 1e-9));
        q.push_back(b * (1 - 1e-9));
        q.push_back(a * (1 + 1e-13));
        q.push_back(b * (1 - 1e-13));
        for (int j = 1; j < nmid; ++j)
            q.push_back(a * std::pow(b / a, double(j) / nmid));
    }
    if (far)
    {
        for (double f : {0.5, 1e-1, 1e-3, 1e-10, 1e-100})
            q.push_back(s.emin * f);
        q.push_back(1e-300);
        for (double f : {2.0, 10.0, 1e3, 1e10, 1e100})
            q.push_back(s.emax * f);
        q.push_back(1e300);
    }
    std::sort(q.begin(), q.end());
    q.erase(std::unique(q.begin(), q.end()), q.end());
    return q;
}

static bool same_grid(XsGridData const& a, XsGridData const& b)
{
    return a.log_energy.size == b.log_energy.size && same_bits(a.log_energy.front, b.log_energy.front)
           && same_bits(a.log_energy.back, b.log_energy.back)
           && same_bits(a.log_energy.delta, b.log_energy.delta) && a.prime_index == b.prime_index
           && a.value.size() == b.value.size();
}

struct GridRange
{
    double emin, emax;
};

//---------------------------------------------------------------------------//
// PART A: calculators on hand-filled pools
//---------------------------------------------------------------------------//
struct XsCase
{
    Pool pool[2];
    XsGridData grid[2];
    std::vector<double> v;
};

// Build through the real builders where their preconditions allow it
static bool build_xs_case(XsCase& c, LogSpec const& s, int shape, int p, bool* via_builder)
{
    c.v.resize(s.N);
    for (int i = 0; i < s.N; ++i)
    {
        ld yv = shape_value(shape, i, s.N);
        c.v[i] = (double)(i >= p ? yv * s.K[i] : yv);
    }
    *via_builder = (p == NONE) || (p <= s.N - 2);
    for (int var = 0; var < 2; ++var)
    {
        Pool& P = c.pool[var];
        P = Pool{};
        Sent st = sentinel(var);
        P.push(st.pre, 2);
        ValueGridInserter insert(&P.reals, &P.grids);
        ValueGridInserter::XsIndex id;
        // variant 0 uses the constructors, variant 1 the from_geant/from_scaled factories
        // (same documented result); knot energies as a user would tabulate them
        std::vector<double> ek(s.N);
        for (int i = 0; i < s.N; ++i)
            ek[i] = (double)s.K[i];
        if (p == NONE)
        {
            if (var == 0)
                id = ValueGridLogBuilder(s.emin, s.emax, c.v).build(insert);
            else
                id = ValueGridLogBuilder::from_geant(make_span(ek), make_span(c.v))->build(insert);
        }
        else if (p <= s.N - 2)
        {
            double eprime = (double)s.K[p];
            if (var == 0)
                id = ValueGridXsBuilder(s.emin, eprime, s.emax, c.v).build(insert);
            else if (p == 0)
                id = ValueGridXsBuilder::from_scaled(make_span(ek), make_span(c.v))->build(insert);
            else
            {
                // lower part: unscaled values on knots 0..p; upper part: scaled on p..N-1
                std::vector<double> lo(c.v.begin(), c.v.begin() + p + 1);
                lo[p] = (double)((ld)c.v[p] / s.K[p]);
                std::vector<double> hi(c.v.begin() + p, c.v.end());
                std::vector<double> elo(ek.begin(), ek.begin() + p + 1), ehi(ek.begin() + p, ek.end());
                id = ValueGridXsBuilder::from_geant(make_span(elo), make_span(lo), make_span(ehi),
                                                    make_span(hi))
                         ->build(insert);
            }
        }
        else
        {
            // prime index on the last knot: allowed by XsGridData, not constructible through
            // ValueGridXsBuilder (it requires eprime < emax)
            id = insert(UniformGridData::from_bounds(std::log(s.emin), std::log(s.emax), s.N),
                        size_type(p), make_span(c.v));
        }
        P.push(st.post, 2);
        P.freeze();
        c.grid[var] = P.grids[id];
    }
    return true;
}

static uint64_t case_hash(std::string const& s)
{
    return vf::hash_str(s);
}

//---------------------------------------------------------------------------//
// range tables
enum RangeShape
{
    rs_lin,  // E / 2  (constant stopping power 2 MeV/len)
    rs_sqrt,  // 0.3 sqrt(E)
    rs_pow,  // 0.01 E^1.7
    rs_flat,  // 5 + 0.01 u  (strictly increasing, almost flat: badly conditioned inverse)
    rs_dec,  // not monotone: only RangeCalculator's interpolation is checked
    rs_peak,
    rs_count
};
static char const* range_shape_name(int s)
{
    static char const* n[] = {"lin", "sqrt", "pow", "flat", "dec", "peak"};
    return n[s];
}
static bool range_shape_increasing(int s)
{
    return s <= rs_flat;
}
static ld range_shape_value(int shape, int i, LogSpec const& s)
{
    ld u = (ld)i / (ld)(s.N - 1);
    switch (shape)
    {
        case rs_lin: return s.K[i] / 2;
        case rs_sqrt: return 0.3L * sqrtl(s.K[i]);
        case rs_pow: return 0.01L * powl(s.K[i], 1.7L);
        case rs_flat: return 5 + 0.01L * u;
        case rs_dec: return shape_value(sh_dec, i, s.N);
        case rs_peak: return shape_value(sh_peak, i, s.N);
    }
    return 1;
}

struct LogCase
{
    Pool pool[2];
    XsGridData grid[2];
    std::vector<double> v;
    bool increasing = false;
    void build(LogSpec const& s)
    {
        for (int var = 0; var < 2; ++var)
        {
            Pool& P = pool[var];
            P = Pool{};
            Sent st = sentinel(var);
            P.push(st.pre, 2);
            ValueGridInserter insert(&P.reals, &P.grids);
            ValueGridInserter::XsIndex id;
            if (var == 0)
                id = ValueGridLogBuilder(s.emin, s.emax, v).build(insert);
            else
            {
                std::vector<double> ek(s.N);
                for (int i = 0; i < s.N; ++i)
                    ek[i] = (double)s.K[i];
                id = (increasing ? ValueGridLogBuilder::from_range(make_span(ek), make_span(v))
                                 : ValueGridLogBuilder::from_geant(make_span(ek), make_span(v)))
                         ->build(insert);
            }
            P.push(st.post, 2);
            P.freeze();
            grid[var] = P.grids[id];
        }
    }
};

// local slopes of the range function around E (for conditioning of the inverse)
static void range_local_slopes(RangeOracle const& orc, ld E, int kbin, ld* smin, ld* smax, ld* ambn)
{
    // slopes of every formula the library may use within two switch zones of E, and the width
    // of the switch zone E is in (0 when E is well inside a bin: no bin ambiguity there)
    LogSpec const& s = orc.s;
    int n = s.N - 1;
    *smin = std::numeric_limits<ld>::infinity();
    *smax = 0;
    *ambn = 0;
    auto add = [&](ld sl) {
        sl = absl(sl);
        *smin = std::min(*smin, sl);
        *smax = std::max(*smax, sl);
    };
    for (int i = 0; i <= n; ++i)
        if (absl(E - s.K[i]) <= 2 * s.amb[i])
            *ambn = std::max(*ambn, s.amb[i]);
    if (E <= s.K[0] + 2 * s.amb[0])
    {
        add((ld)orc.v[0] / (2 * sqrtl(E * s.K[0])));
        if (E < s.K[0] - 2 * s.amb[0])
            return;
    }
    int k = std::min(std::max(kbin, 0), n - 1);
    for (int j = std::max(k - 1, 0); j <= std::min(k + 1, n - 1); ++j)
        add(orc.slope(j));
}

static void run_range_case(vf::Run& R, std::string const& cid, LogSpec const& spec,
                           std::vector<double> const& queries, int shape, int ulps)
{
    int const N = spec.N;
    LogCase c;
    c.v.resize(N);
    for (int i = 0; i < N; ++i)
        c.v[i] = (double)range_shape_value(shape, i, spec);
    bool const inc = range_shape_increasing(shape);
    c.increasing = inc;
    c.build(spec);
    // both construction paths must give the same grid
    if (!same_grid(c.grid[0], c.grid[1]))
        R.violation("builder:grid-mismatch", cid, "ValueGridLogBuilder ctor vs from_range/from_geant");
    RangeOracle orc{spec, c.v};
    RangeCalculator rc0(c.grid[0], c.pool[0].ref), rc1(c.grid[1], c.pool[1].ref);
    std::vector<Cand> cands;
    R.tag(inc ? "range:increasing-table" : "range:non-monotone-table(interpolation only)");

    // forward
    bool havePrev = false;
    double prevE = 0, prevGot = 0;
    ld prevTol = 0;
    std::vector<double> got_r(queries.size(), -1);
    std::vector<ld> got_tol(queries.size(), 0);
    std::vector<int> got_k(queries.size(), -1);
    for (size_t qi = 0; qi < queries.size(); ++qi)
    {
        double E = queries[qi];
        RangeCalculator::Energy en{E};
        double got = rc0(en), got1 = rc1(en);
        R.count("evaluations");
        R.count("range_evals");
        if (!same_bits(got, got1))
        {
            R.count("range_past_end");
            R.violation("range:read-past-end", cid,
                        fmt("RangeCalculator(E=%s) depends on memory outside the table: %s with "
                            "sentinel A, %s with sentinel B",
                            hexd(E).c_str(), vf::dstr(got).c_str(), vf::dstr(got1).c_str()));
            havePrev = false;
            continue;
        }
        int kbin = -1;
        orc.candidates(E, cands, &kbin);
        if (cands.empty())
            R.harness_error("no range oracle candidate");
        if (!(std::isfinite(got) && got >= 0))
            R.violation("range:not-finite-nonnegative", cid,
                        fmt("RangeCalculator(E=%s) = %s", hexd(E).c_str(), vf::dstr(got).c_str()));
        bool ok = false, between = false;
        ld best = 0, bestorc = 0, maxtol = 0;
        for (Cand const& cd : cands)
        {
            ld d = absl((ld)got - cd.val);
            if (d <= cd.tol)
                ok = true;
            if ((ld)got >= cd.lo - cd.tol && (ld)got <= cd.hi + cd.tol)
                between = true;
            if (&cd == &cands[0] || d < best)
            {
                best = d;
                bestorc = cd.val;
            }
            maxtol = std::max(maxtol, cd.tol);
        }
        if (!ok)
            R.violation("range:value-mismatch", cid,
                        fmt("RangeCalculator(E=%s) = %s, oracle %s (|diff| %.3Lg, tol %.3Lg)",
                            hexd(E).c_str(), vf::dstr(got).c_str(),
                            vf::dstr((double)bestorc).c_str(), best, maxtol));
        if (!between)
            R.violation("range:not-between-knots", cid,
                        fmt("RangeCalculator(E=%s) = %s", hexd(E).c_str(), vf::dstr(got).c_str()));
        if (inc && havePrev && (ld)got < (ld)prevGot - (maxtol + prevTol))
            R.violation("range:not-monotone", cid,
                        fmt("R(%s)=%s > R(%s)=%s", hexd(prevE).c_str(), vf::dstr(prevGot).c_str(),
                            hexd(E).c_str(), vf::dstr(got).c_str()));
        havePrev = true;
        prevE = E;
        prevGot = got;
        prevTol = maxtol;
        got_r[qi] = got;
        got_tol[qi] = maxtol;
        got_k[qi] = kbin;
        ld El = E;
        if (El < spec.K[0] - spec.amb[0])
            R.tag("range:below-grid(sqrt scaling)");
        else if (El > spec.K[N - 1] + spec.amb[N - 1])
            R.tag("range:above-grid(clipped)");
        else
            R.tag("range:in-grid");
    }
    if (!inc)
        return;

    // inverse
    InverseRangeCalculator ic0(c.grid[0], c.pool[0].ref), ic1(c.grid[1], c.pool[1].ref);
    std::vector<double> rq;
    for (int i = 0; i < N; ++i)
        for (int d = -ulps; d <= ulps; ++d)
            rq.push_back(ulp_add(c.v[i], d));
    for (int k = 0; k + 1 < N; ++k)
    {
        rq.push_back(0.5 * (c.v[k] + c.v[k + 1]));
        rq.push_back(c.v[k] + 0.25 * (c.v[k + 1] - c.v[k]));
        rq.push_back(c.v[k] + 0.999999 * (c.v[k + 1] - c.v[k]));
    }
    for (double f : {0.5, 1e-3, 1e-10, 1e-100})
        rq.push_back(c.v[0] * f);
    rq.push_back(0.0);
    std::sort(rq.begin(), rq.end());
    rq.erase(std::unique(rq.begin(), rq.end()), rq.end());
    havePrev = false;
    ld prevItol = 0;
    double prevR = 0, prevEn = 0;
    for (double r : rq)
    {
        if (!(r >= 0 && r <= c.v[N - 1]))
            continue;  // documented precondition of InverseRangeCalculator
        double e0 = ic0(r).value(), e1 = ic1(r).value();
        R.count("evaluations");
        R.count("invrange_evals");
        if (!same_bits(e0, e1))
        {
            R.violation("invrange:read-past-end", cid,
                        fmt("InverseRangeCalculator(r=%s): %s vs %s", hexd(r).c_str(),
                            vf::dstr(e0).c_str(), vf::dstr(e1).c_str()));
            havePrev = false;
            continue;
        }
        Cand cd = orc.inverse(r);
        if (!(std::isfinite(e0) && e0 >= 0))
            R.violation("invrange:not-finite-nonnegative", cid,
                        fmt("InverseRangeCalculator(r=%s) = %s", hexd(r).c_str(), vf::dstr(e0).c_str()));
        if (absl((ld)e0 - cd.val) > cd.tol)
            R.violation("invrange:value-mismatch", cid,
                        fmt("InverseRangeCalculator(r=%s) = %s, oracle %s (tol %.3Lg)",
                            hexd(r).c_str(), vf::dstr(e0).c_str(), vf::dstr((double)cd.val).c_str(),
                            cd.tol));
        if (havePrev && (ld)e0 < (ld)prevEn - (cd.tol + prevItol))
            R.violation("invrange:not-monotone", cid,
                        fmt("E(r=%s)=%s > E(r=%s)=%s", hexd(prevR).c_str(), vf::dstr(prevEn).c_str(),
                            hexd(r).c_str(), vf::dstr(e0).c_str()));
        havePrev = true;
        prevR = r;
        prevEn = e0;
        prevItol = cd.tol;
        R.tag(r < c.v[0] ? "invrange:below-table(square scaling)"
                         : (r >= c.v[N - 1] ? "invrange:at-table-end" : "invrange:in-table"));
        // range(inverse(r)) == r
        if (e0 > 0)
        {
            double rr = rc0(RangeCalculator::Energy{e0});
            double rr1 = rc1(RangeCalculator::Energy{e0});
            if (!same_bits(rr, rr1))
            {
                R.count("range_past_end");
                R.violation("range:read-past-end", cid,
                            fmt("RangeCalculator(InverseRange(%s)=%s): %s vs %s", hexd(r).c_str(),
                                hexd(e0).c_str(), vf::dstr(rr).c_str(), vf::dstr(rr1).c_str()));
                continue;
            }
            int kbin = -1;
            orc.candidates(e0, cands, &kbin);
            ld tr = 0;
            for (Cand const& x : cands)
                tr = std::max(tr, x.tol);
            ld smin, smax, ambn;
            range_local_slopes(orc, e0, kbin, &smin, &smax, &ambn);
            ld tol = 2 * (cd.tol + ambn) * smax + tr + 8 * EPS * (ld)r;
            R.count("evaluations");
            R.count("roundtrip_evals");
            if (absl((ld)rr - (ld)r) > tol)
                R.violation("range:inverse-roundtrip", cid,
                            fmt("Range(InverseRange(%s)=%s) = %s (tol %.3Lg)", hexd(r).c_str(),
                                hexd(e0).c_str(), vf::dstr(rr).c_str(), tol));
        }
    }
    // inverse(range(E)) == E
    for (size_t qi = 0; qi < queries.size(); ++qi)
    {
        double E = queries[qi];
        double r = got_r[qi];
        if (r < 0 || (ld)E > spec.K[N - 1] + spec.amb[N - 1])
            continue;
        if (!(r <= c.v[N - 1]))
        {
            R.tag("roundtrip:range-above-table-end(skipped, precondition)");
            continue;
        }
        double e0 = ic0(r).value(), e1 = ic1(r).value();
        R.count("evaluations");
        R.count("roundtrip_evals");
        if (!same_bits(e0, e1))
        {
            R.violation("invrange:read-past-end", cid, fmt("InverseRange(Range(%s))", hexd(E).c_str()));
            continue;
        }
        ld smin, smax, ambn;
        range_local_slopes(orc, E, got_k[qi], &smin, &smax, &ambn);
        Cand cd = orc.inverse(r);
        ld tol = 2 * got_tol[qi] / smin + cd.tol + 2 * ambn * (smax / smin) + 8 * EPS * (ld)E;
        if (absl((ld)e0 - (ld)E) > tol)
            R.violation("range:inverse-roundtrip", cid,
                        fmt("InverseRange(Range(%s)=%s) = %s (tol %.3Lg)", hexd(E).c_str(),
                            hexd(r).c_str(), hexd(e0).c_str(), tol));
    }
}

//---------------------------------------------------------------------------//
// GenericCalculator on non-uniform grids
static void run_generic_case(vf::Run& R, std::string const& cid, int gkind, int N, int shape)
{
    std::vector<double> x(N), y(N);
    for (int i = 0; i < N; ++i)
    {
        if (gkind == 0)
            x[i] = 1e-4 * std::pow(1e6, double(i) / (N - 1));  // log spaced
        else if (gkind == 1)
            x[i] = -3.0 + i * i + 0.125 * i;  // irregular, crosses zero
        else
            x[i] = 1.0 + i * 4.440892098500626e-16;  // knots 2 ulp apart
        y[i] = (double)shape_value(shape, i, N);
    }
    bool const inc = (shape == sh_inc);
    Pool pool[2];
    GenericGridRecord rec[2];
    for (int var = 0; var < 2; ++var)
    {
        Pool& P = pool[var];
        Sent st = sentinel(var);
        P.push(st.pre, 2);
        rec[var].grid = make_builder(&P.reals).insert_back(x.begin(), x.end());
        P.push(st.post, 2);
        P.push(st.pre, 2);
        rec[var].value = make_builder(&P.reals).insert_back(y.begin(), y.end());
        P.push(st.post, 2);
        P.freeze();
    }
    auto oracle = [&](std::vector<double> const& xs, std::vector<double> const& ys, double q) -> Cand {
        int n = N - 1;
        if (q <= xs[0])
            return {(ld)ys[0], 0, (ld)ys[0], (ld)ys[0]};
        if (q >= xs[n])
            return {(ld)ys[n], 0, (ld)ys[n], (ld)ys[n]};
        int k = 0;
        while (k + 1 < n && xs[k + 1] <= q)
            ++k;
        ld yl = ys[k], yr = ys[k + 1], xl = xs[k], xr = xs[k + 1];
        ld val = yl + (yr - yl) * ((ld)q - xl) / (xr - xl);
        // slope (3 roundings), x - xl (1), fma (1): <= 5 eps |yr-yl| + eps |result|; doubled
        ld tol = 16 * EPS * (absl(yl) + absl(yr));
        return {val, tol, std::min(yl, yr), std::max(yl, yr)};
    };
    auto queries_for = [&](std::vector<double> const& xs) {
        std::vector<double> q;
        for (int i = 0; i < N; ++i)
            for (int d = -3; d <= 3; ++d)
                q.push_back(xs[i] == 0 ? d * 1e-300 : (xs[i] > 0 ? ulp_add(xs[i], d) : -ulp_add(-xs[i], -d)));
        for (int k = 0; k + 1 < N; ++k)
        {
            q.push_back(0.5 * (xs[k] + xs[k + 1]));
            q.push_back(xs[k] + 0.25 * (xs[k + 1] - xs[k]));
        }
        q.push_back(xs[0] - 1);
        q.push_back(xs[N - 1] + 1);
        q.push_back(-1e300);
        q.push_back(1e300);
        std::sort(q.begin(), q.end());
        q.erase(std::unique(q.begin(), q.end()), q.end());
        return q;
    };
    auto check = [&](char const* what, GenericCalculator const& c0, GenericCalculator const& c1,
                     std::vector<double> const& xs, std::vector<double> const& ys) {
        for (double q : queries_for(xs))
        {
            double g0 = c0(q), g1 = c1(q);
            R.count("evaluations");
            R.count("generic_evals");
            if (!same_bits(g0, g1))
            {
                R.violation("generic:read-past-end", cid,
                            fmt("%s(x=%s): %s vs %s", what, hexd(q).c_str(), vf::dstr(g0).c_str(),
                                vf::dstr(g1).c_str()));
                continue;
            }
            Cand cd = oracle(xs, ys, q);
            if (!(absl((ld)g0 - cd.val) <= cd.tol))
                R.violation("generic:value-mismatch", cid,
                            fmt("%s(x=%s) = %s, oracle %s", what, hexd(q).c_str(),
                                vf::dstr(g0).c_str(), vf::dstr((double)cd.val).c_str()));
            if (!((ld)g0 >= cd.lo - cd.tol && (ld)g0 <= cd.hi + cd.tol))
                R.violation("generic:not-between-knots", cid,
                            fmt("%s(x=%s) = %s", what, hexd(q).c_str(), vf::dstr(g0).c_str()));
            R.tag(q <= xs[0] ? "generic:below(const)" : (q >= xs[N - 1] ? "generic:above(const)" : "generic:interior"));
        }
    };
    GenericCalculator c0(rec[0], pool[0].ref), c1(rec[1], pool[1].ref);
    check("GenericCalculator", c0, c1, x, y);
    for (int i = 0; i < N; ++i)
        if (!same_bits(c0[i], y[i]))
            R.violation("generic:knot-value", cid, fmt("calc[%d]", i));
    if (inc)
    {
        // inverse needs monotone increasing y
        GenericCalculator i0 = c0.make_inverse(), i1 = c1.make_inverse();
        check("GenericCalculator::make_inverse", i0, i1, y, x);
        GenericCalculator j0 = GenericCalculator::from_inverse(rec[0], pool[0].ref);
        GenericCalculator j1 = GenericCalculator::from_inverse(rec[1], pool[1].ref);
        check("GenericCalculator::from_inverse", j0, j1, y, x);
        R.tag("generic:inverse");
    }
}

//---------------------------------------------------------------------------//
// PART B/C: real PhysicsParams with our own dE/dx + range tables
// (the process/model skeleton follows test/celeritas/phys/MockProcess.cc, MockModel.cc)
//---------------------------------------------------------------------------//
class SentinelBuilder final : public ValueGridBuilder
{
  public:
    SentinelBuilder(std::unique_ptr<ValueGridBuilder> inner, int variant)
        : inner_(std::move(inner)), variant_(variant)
    {
    }
    ValueGridId build(ValueGridInserter insert) const final
    {
        // the pool is shared and append-only: surround the table with 2-point dummy grids
        Sent st = sentinel(variant_);
        auto g2 = UniformGridData::from_bounds(0, 1, 2);
        insert(g2, Span<double const>(st.pre, 2));
        ValueGridId id = inner_->build(insert);
        insert(g2, Span<double const>(st.post, 2));
        return id;
    }

  private:
    std::unique_ptr<ValueGridBuilder> inner_;
    int variant_;
};

struct TableSet
{
    std::vector<double> eloss;  // MeV / len at the knots
    std::vector<double> range;  // len at the knots
};

class TableModel final : public Model
{
  public:
    TableModel(ActionId id, Applicability a)
        : id_(id), applic_(a), label_("c14-table-model-" + std::to_string(id.get()))
    {
    }
    SetApplicability applicability() const final { return {applic_}; }
    MicroXsBuilders micro_xs(Applicability) const final { return {}; }
    void step(CoreParams const&, CoreStateHost&) const final {}
    void step(CoreParams const&, CoreStateDevice&) const final {}
    ActionId action_id() const final { return id_; }
    std::string_view label() const final { return label_; }
    std::string_view description() const final { return "tabulated continuous loss"; }

  private:
    ActionId id_;
    Applicability applic_;
    std::string label_;
};

class TableProcess final : public Process
{
  public:
    TableProcess(ParticleId pid, double emin, double emax, std::vector<TableSet> mats, int variant)
        : pid_(pid), emin_(emin), emax_(emax), mats_(std::move(mats)), variant_(variant)
    {
    }
    VecModel build_models(ActionIdIter start_id) const final
    {
        Applicability a;
        a.particle = pid_;
        a.lower = units::MevEnergy{emin_};
        a.upper = units::MevEnergy{emax_};
        return {std::make_shared<TableModel>(*start_id++, a)};
    }
    StepLimitBuilders step_limits(Applicability applic) const final
    {
        TableSet const& t = mats_.at(applic.material.get());
        StepLimitBuilders b;
        b[ValueGridType::energy_loss] = std::make_unique<SentinelBuilder>(
            std::make_unique<ValueGridLogBuilder>(emin_, emax_, t.eloss), variant_);
        b[ValueGridType::range] = std::make_unique<SentinelBuilder>(
            std::make_unique<ValueGridLogBuilder>(emin_, emax_, t.range), variant_);
        return b;
    }
    bool use_integral_xs() const final { return false; }
    std::string_view label() const final { return "c14-table-process"; }

  private:
    ParticleId pid_;
    double emin_, emax_;
    std::vector<TableSet> mats_;
    int variant_;
};

// A second process of the same particle that has only a macroscopic cross section table.  Its
// values are absurd as a dE/dx or as a range (1e250): a table looked up with the wrong
// ParticleProcessId fails eloss:rate-mismatch / eloss:range-mismatch at once.
class XsOnlyProcess final : public Process
{
  public:
    XsOnlyProcess(ParticleId pid, double emin, double emax, int variant)
        : pid_(pid), emin_(emin), emax_(emax), variant_(variant)
    {
    }
    VecModel build_models(ActionIdIter start_id) const final
    {
        Applicability a;
        a.particle = pid_;
        a.lower = units::MevEnergy{emin_};
        a.upper = units::MevEnergy{emax_};
        return {std::make_shared<TableModel>(*start_id++, a)};
    }
    StepLimitBuilders step_limits(Applicability) const final
    {
        StepLimitBuilders b;
        b[ValueGridType::macro_xs] = std::make_unique<SentinelBuilder>(
            std::make_unique<ValueGridLogBuilder>(emin_, emax_, std::vector<double>{1e250, 1e250, 1e250}),
            variant_);
        return b;
    }
    bool use_integral_xs() const final { return false; }
    std::string_view label() const final { return "c14-xs-only-process"; }

  private:
    ParticleId pid_;
    double emin_, emax_;
    int variant_;
};

// dE/dx shapes (ratio max/min < 2 so that rate(E)*range(E) >= E/2 everywhere, see eloss checks)
enum ElossShape
{
    es_const,  // with range = E/k exactly: every formula is linear
    es_inc,
    es_dec,
    es_peak,
    es_count
};
static char const* eloss_shape_name(int s)
{
    static char const* n[] = {"const", "inc", "dec", "peak"};
    return n[s];
}
static ld eloss_shape_value(int shape, int i, int N)
{
    ld u = (ld)i / (ld)(N - 1);
    switch (shape)
    {
        case es_const: return 2.0L;
        case es_inc: return 0.5L * expl(0.6L * u);
        case es_dec: return 3.0L * expl(-0.55L * u);
        case es_peak: return 1 + 0.8L * expl(-((u - 0.4L) / 0.2L) * ((u - 0.4L) / 0.2L));
    }
    return 1;
}
// range table = r0 + exact integral of 1/(piecewise linear dE/dx); r0 = Emin/rate(Emin)
static TableSet make_tables(LogSpec const& s, int shape)
{
    TableSet t;
    t.eloss.resize(s.N);
    t.range.resize(s.N);
    for (int i = 0; i < s.N; ++i)
        t.eloss[i] = (double)eloss_shape_value(shape, i, s.N);
    ld r = s.K[0] / (ld)t.eloss[0];
    t.range[0] = (double)r;
    for (int i = 0; i + 1 < s.N; ++i)
    {
        ld a = t.eloss[i], b = t.eloss[i + 1], dE = s.K[i + 1] - s.K[i];
        ld slope = (b - a) / dE;
        r += (b == a) ? dE / a : logl(b / a) / slope;
        t.range[i + 1] = (double)r;
    }
    return t;
}

// PhysicsParams scalars that enter range_to_step / calc_mean_energy_loss.  The defaults satisfy
// min_eprime_over_e == 1 - max_step_over_range (0.8 = 1 - 0.2) and min_range == 0.1: the lattice
// breaks both coincidences.
struct PhysOpts
{
    double lll{0.01};
    double min_range{0.1};
    double max_step_over_range{0.2};
    double min_eprime_over_e{0.8};
};
static PhysOpts phys_opts_lattice(int idx, double lll)
{
    static double const tab[4][3] = {{0.1, 0.2, 0.8}, {1e-3, 0.5, 0.3}, {10, 0.05, 0.99}, {0.03, 1.0, 0.6}};
    PhysOpts o;
    o.lll = lll;
    o.min_range = tab[idx % 4][0];
    o.max_step_over_range = tab[idx % 4][1];
    o.min_eprime_over_e = tab[idx % 4][2];
    return o;
}

struct Physics
{
    std::shared_ptr<MaterialParams> mats;
    std::shared_ptr<ParticleParams> pars;
    std::shared_ptr<ActionRegistry> reg;
    std::shared_ptr<PhysicsParams> phys;
    CollectionStateStore<ParticleStateData, MemSpace::host> par_state;
    CollectionStateStore<PhysicsStateData, MemSpace::host> phys_state;
    ParticleId electron, positron;

    // The positron sees the tables rotated by one material: positron in material m has the
    // tables of electron material (m + 1) % nmat, so a wrong particle index shows up.
    static std::vector<TableSet> rotated(std::vector<TableSet> const& tabs)
    {
        std::vector<TableSet> r;
        for (size_t m = 0; m < tabs.size(); ++m)
            r.push_back(tabs[(m + 1) % tabs.size()]);
        return r;
    }
    void build(LogSpec const& s, std::vector<TableSet> const& tabs, double lll, int variant)
    {
        PhysOpts o;
        o.lll = lll;
        this->build(s, tabs, o, variant);
    }
    void build(LogSpec const& s, std::vector<TableSet> const& tabs, PhysOpts const& o, int variant)
    {
        using namespace units;
        MaterialParams::Input mi;
        mi.elements = {{AtomicNumber{1}, AmuMass{1.0}, {}, "celerogen"}};
        for (size_t m = 0; m < tabs.size(); ++m)
            mi.materials.push_back({native_value_from(InvCcDensity{1e20}),
                                    300,
                                    MatterState::gas,
                                    {{ElementId{0}, 1.0}},
                                    "mat" + std::to_string(m)});
        mats = std::make_shared<MaterialParams>(std::move(mi));
        ParticleParams::Input pi;
        pi.push_back({"electron", pdg::electron(), MevMass{0.5109989461}, ElementaryCharge{-1},
                      constants::stable_decay_constant});
        pi.push_back({"positron", pdg::positron(), MevMass{0.5109989461}, ElementaryCharge{1},
                      constants::stable_decay_constant});
        pars = std::make_shared<ParticleParams>(std::move(pi));
        electron = pars->find(pdg::electron());
        positron = pars->find(pdg::positron());
        reg = std::make_shared<ActionRegistry>();
        PhysicsParams::Input in;
        in.materials = mats;
        in.particles = pars;
        in.action_registry = reg.get();
        in.options.linear_loss_limit = o.lll;
        in.options.min_range = o.min_range;
        in.options.max_step_over_range = o.max_step_over_range;
        in.options.min_eprime_over_e = o.min_eprime_over_e;
        // The electron gets a cross-section-only process BEFORE its table process and the
        // positron one AFTER it: eloss_ppid is ParticleProcessId{1} for the electron and {0} for
        // the positron (checked in eloss_ppid_layout_ok), and the per-particle table ranges start
        // at different offsets.
        in.processes.push_back(std::make_shared<XsOnlyProcess>(electron, s.emin, s.emax, variant));
        in.processes.push_back(
            std::make_shared<TableProcess>(electron, s.emin, s.emax, tabs, variant));
        in.processes.push_back(
            std::make_shared<TableProcess>(positron, s.emin, s.emax, rotated(tabs), variant));
        in.processes.push_back(std::make_shared<XsOnlyProcess>(positron, s.emin, s.emax, variant));
        phys = std::make_shared<PhysicsParams>(std::move(in));
        // Three track slots; every view used by the checks is on slot 2, slots 0 and 1 hold
        // poison (other particle, energy 7e250, dedx_range 1e-300).
        par_state = CollectionStateStore<ParticleStateData, MemSpace::host>(pars->host_ref(), num_slots);
        phys_state = CollectionStateStore<PhysicsStateData, MemSpace::host>(phys->host_ref(), num_slots);
        for (unsigned int sl = 0; sl + 1 < num_slots; ++sl)
        {
            PhysicsTrackView pv(phys->host_ref(), phys_state.ref(), sl ? positron : electron,
                                MaterialId(0), TrackSlotId{sl});
            pv = PhysicsTrackView::Initializer_t{};
            pv.dedx_range(1e-300);
        }
        {
            PhysicsTrackView pv(phys->host_ref(), phys_state.ref(), electron, MaterialId(0),
                                TrackSlotId{num_slots - 1});
            pv = PhysicsTrackView::Initializer_t{};
        }
    }
    static constexpr unsigned int num_slots = 3;
    bool eloss_ppid_layout_ok()
    {
        return track(0, false).eloss_ppid() == ParticleProcessId{1}
               && track(0, true).eloss_ppid() == ParticleProcessId{0}
               && track(0, false).num_particle_processes() == 2
               && track(0, true).num_particle_processes() == 2;
    }
    ParticleTrackView particle(double E, bool pos = false)
    {
        // poison the other slots with the OTHER particle and an absurd energy
        for (unsigned int sl = 0; sl + 1 < num_slots; ++sl)
        {
            ParticleTrackView q(pars->host_ref(), par_state.ref(), TrackSlotId{sl});
            ParticleTrackView::Initializer_t poison;
            poison.particle_id = pos ? electron : positron;
            poison.energy = units::MevEnergy{7e250};
            q = poison;
        }
        ParticleTrackView p(pars->host_ref(), par_state.ref(), TrackSlotId{num_slots - 1});
        ParticleTrackView::Initializer_t init;
        init.particle_id = pos ? positron : electron;
        init.energy = units::MevEnergy{E};
        p = init;
        return p;
    }
    PhysicsTrackView track(int mat, bool pos = false)
    {
        return PhysicsTrackView(phys->host_ref(), phys_state.ref(), pos ? positron : electron,
                                MaterialId(mat), TrackSlotId{num_slots - 1});
    }
};

static void run_eloss_case(vf::Run& R, std::string const& cid, LogSpec const& spec, double lll,
                           bool thorough)
{
    int const N = spec.N;
    std::vector<TableSet> tabs;
    for (int sh = 0; sh < es_count; ++sh)
        tabs.push_back(make_tables(spec, sh));
    // (min_range, max_step_over_range, min_eprime_over_e) from a 4-letter alphabet indexed by N
    PhysOpts const popts = phys_opts_lattice(N, lll);
    Physics P[2];
    P[0].build(spec, tabs, popts, 0);
    P[1].build(spec, tabs, popts, 1);
    if (!P[0].eloss_ppid_layout_ok() || !P[1].eloss_ppid_layout_ok())
        R.harness_error("eloss_ppid layout: expected e- ppid 1, e+ ppid 0, two processes each");
    {
        auto const& sc = P[0].phys->host_ref().scalars;
        if (!(sc.linear_loss_limit == lll && sc.min_range == popts.min_range
              && sc.max_step_over_range == popts.max_step_over_range
              && sc.min_eprime_over_e == popts.min_eprime_over_e))
            R.violation("physics:options-not-stored", cid,
                        fmt("scalars lll=%g min_range=%g max_step_over_range=%g min_eprime_over_e=%g, "
                            "options lll=%g min_range=%g max_step_over_range=%g min_eprime_over_e=%g",
                            sc.linear_loss_limit, sc.min_range, sc.max_step_over_range,
                            sc.min_eprime_over_e, lll, popts.min_range, popts.max_step_over_range,
                            popts.min_eprime_over_e));
    }
    std::vector<double> energies = make_queries(spec, thorough ? 3 : 1, false);
    energies.push_back(spec.emin * 0.5);
    energies.push_back(spec.emin * 1e-3);
    std::sort(energies.begin(), energies.end());
    std::vector<Cand> cands;

    // electron in every material; positron (tables rotated by one material) in the material that
    // gives it the exactly linear table, thorough tier: in every material
    struct PM
    {
        bool pos;
        int mat;
    };
    std::vector<PM> pms;
    for (int m = 0; m < es_count; ++m)
        pms.push_back({false, m});
    for (int m = 0; m < es_count; ++m)
        if (thorough || (m + 1) % es_count == es_const)
            pms.push_back({true, m});

    for (PM const& pm : pms)
    {
        int const mat = pm.mat;
        int const tabidx = pm.pos ? (mat + 1) % es_count : mat;  // which table set it must see
        TableSet const& t = tabs[tabidx];
        XsOracle eorc{spec, t.eloss, NONE};
        RangeOracle rorc{spec, t.range};
        bool const linear_table = (tabidx == es_const);
        std::string const mname = fmt("%s[%s in material %d]", eloss_shape_name(tabidx),
                                      pm.pos ? "e+" : "e-", mat);
        R.tag(pm.pos ? "eloss:positron" : "eloss:electron");
        for (double E : energies)
        {
            ParticleTrackView par0 = P[0].particle(E, pm.pos), par1 = P[1].particle(E, pm.pos);
            PhysicsTrackView ph0 = P[0].track(mat, pm.pos), ph1 = P[1].track(mat, pm.pos);
            auto ppid = ph0.eloss_ppid();
            if (!ppid)
                R.harness_error("no energy loss process");
            // the production sequence (calc_physics_step_limit): range first, stored in the state
            auto rg = ph0.value_grid(ValueGridType::range, ppid);
            auto eg = ph0.value_grid(ValueGridType::energy_loss, ppid);
            double range = ph0.make_calculator<RangeCalculator>(rg)(par0.energy());
            double range1 = ph1.make_calculator<RangeCalculator>(
                ph1.value_grid(ValueGridType::range, ppid))(par1.energy());
            double rate = ph0.make_calculator<EnergyLossCalculator>(eg)(par0.energy());
            double rate1 = ph1.make_calculator<EnergyLossCalculator>(
                ph1.value_grid(ValueGridType::energy_loss, ppid))(par1.energy());
            R.count("evaluations", 2);
            if (!same_bits(range, range1) || !same_bits(rate, rate1))
            {
                R.count("eloss_past_end");
                R.violation("eloss:read-past-end", cid,
                            fmt("mat=%s E=%s: range %s vs %s, dE/dx %s vs %s (sentinel A vs B)",
                                mname.c_str(), hexd(E).c_str(), vf::dstr(range).c_str(),
                                vf::dstr(range1).c_str(), vf::dstr(rate).c_str(),
                                vf::dstr(rate1).c_str()));
                continue;
            }
            // the tables seen through the physics views are the ones we supplied
            ld tolR = 0, sminE = 1;
            {
                bool inside;
                eorc.candidates(E, cands, &inside);
                bool ok = false;
                for (Cand const& cd : cands)
                    ok |= absl((ld)rate - cd.val) <= cd.tol;
                if (!ok)
                    R.violation("eloss:rate-mismatch", cid,
                                fmt("mat=%s dE/dx(E=%s) = %s", mname.c_str(), hexd(E).c_str(),
                                    vf::dstr(rate).c_str()));
                int kb;
                rorc.candidates(E, cands, &kb);
                ok = false;
                tolR = 0;
                for (Cand const& cd : cands)
                {
                    ok |= absl((ld)range - cd.val) <= cd.tol;
                    tolR = std::max(tolR, cd.tol);
                }
                {
                    ld a, b, c;
                    range_local_slopes(rorc, E, kb, &a, &b, &c);
                    sminE = a;
                }
                if (!ok)
                    R.violation("eloss:range-mismatch", cid,
                                fmt("mat=%s range(E=%s) = %s", mname.c_str(), hexd(E).c_str(),
                                    vf::dstr(range).c_str()));
            }
            if (!(range > 0 && rate > 0))
                continue;
            ph0.dedx_range(range);
            ph1.dedx_range(range);

            // range_to_step in (0, range] and == alpha r + rho (1-alpha)(2 - rho/r)
            {
                // from the options handed to PhysicsParams, not read back from the params
                ld rho = popts.min_range, alpha = popts.max_step_over_range;
                std::vector<double> rs = {range, (double)rho, ulp_add((double)rho, 1),
                                          ulp_add((double)rho, -1),
                                          (double)(rho * (1 + (ld)celeritas::sqrt_tol())),
                                          ulp_add((double)(rho * (1 + (ld)celeritas::sqrt_tol())), 2),
                                          ulp_add((double)(rho * (1 + (ld)celeritas::sqrt_tol())), -2),
                                          (double)rho * 0.1, 1e-30, (double)rho * 10, 1e6, 1e300};
                for (double r : rs)
                {
                    double s = ph0.range_to_step(r);
                    R.count("evaluations");
                    R.count("rts_evals");
                    if (!(s > 0 && s <= r))
                        R.violation("rts:out-of-bounds", cid,
                                    fmt("range_to_step(%s) = %s not in (0, range]", hexd(r).c_str(),
                                        vf::dstr(s).c_str()));
                    ld lr = r;
                    ld want = alpha * lr + rho * (1 - alpha) * (2 - rho / lr);
                    bool near_switch = absl(lr - rho * (1 + (ld)celeritas::sqrt_tol())) <= 4 * EPS * rho;
                    bool small = lr < rho * (1 + (ld)celeritas::sqrt_tol());
                    // below the switch the step is the range itself; at the switch either
                    bool ok = (small || near_switch) ? same_bits(s, r) : false;
                    if (!small || near_switch)
                        ok |= absl((ld)s - want) <= 8 * EPS * lr;
                    if (!ok)
                        R.violation("rts:formula", cid,
                                    fmt("range_to_step(%s) = %s, expected %s", hexd(r).c_str(),
                                        vf::dstr(s).c_str(), vf::dstr((double)want).c_str()));
                    R.tag(small ? "rts:below-min-range" : "rts:scaled");
                }
            }

            // steps in (0, range]
            std::vector<double> steps;
            // (the first three: range - step rounds to range itself / moves it by a few ulp)
            for (double f : {1.1102230246251565e-16, 1e-16, 1e-14, 1e-12, 1e-6, 1e-3, 0.01, 0.1, 0.5, 0.9,
                             0.99, 1 - 1e-9})
                steps.push_back(range * f);
            for (int k : {1, 2, 4})
                steps.push_back(ulp_add(range, -k));
            steps.push_back(range);
            steps.push_back(ph0.range_to_step(range));
            double sstar = lll * E / rate;  // linear-loss threshold
            for (int k = -2; k <= 2; ++k)
                steps.push_back(ulp_add(sstar, k));
            std::sort(steps.begin(), steps.end());
            steps.erase(std::unique(steps.begin(), steps.end()), steps.end());

            bool havePrev = false;
            double prevS = 0, prevLoss = 0;
            int prevRegime = 0;
            ld prevTol = 0;
            for (double s : steps)
            {
                if (!(s > 0 && s <= range))
                    continue;  // documented preconditions
                double loss = calc_mean_energy_loss(par0, ph0, s).value();
                double loss1 = calc_mean_energy_loss(par1, ph1, s).value();
                R.count("evaluations");
                R.count("eloss_evals");
                if (!same_bits(loss, loss1))
                {
                    R.count("eloss_past_end");
                    R.violation("eloss:read-past-end", cid,
                                fmt("mat=%s calc_mean_energy_loss(E=%s, step=%s): %s vs %s",
                                    mname.c_str(), hexd(E).c_str(), hexd(s).c_str(),
                                    vf::dstr(loss).c_str(), vf::dstr(loss1).c_str()));
                    havePrev = false;
                    continue;
                }
                std::string what = fmt("mat=%s lll=%g calc_mean_energy_loss(E=%s, range=%s, step=%s)",
                                       mname.c_str(), lll, hexd(E).c_str(),
                                       hexd(range).c_str(), hexd(s).c_str());
                bool neg_roundtrip = false;
                if (!(std::isfinite(loss) && loss >= 0))
                {
                    // One specific way of getting a negative loss has its own signature: the step
                    // is so short that range - step is (within 4 ulp) the stored range itself and
                    // the range-based branch returns E - InverseRange(Range(E)), whose round trip
                    // lands a few ulp above E.  Only reachable when linear_loss_limit is ~0 (any
                    // larger limit sends such a step through the linear formula).  Anything else -
                    // NaN, another regime, a magnitude above the round-trip tolerance - stays under
                    // the general signature.
                    ld rem0 = (ld)range - (ld)s;
                    bool const rem_is_range = rem0 >= (ld)ulp_add(range, -4);
                    ld const lim = 8 * EPS * (ld)E + (sminE > 0 ? 8 * tolR / sminE : (ld)0);
                    neg_roundtrip = std::isfinite(loss) && rem_is_range
                                    && (ld)s * (ld)rate >= (ld)lll * (ld)E * (1 - 4 * EPS)  // not linear
                                    && -(ld)loss <= lim;
                    if (neg_roundtrip)
                        R.count("eloss_negative_roundtrip");
                    R.violation(neg_roundtrip ? "eloss:negative[range-minus-tiny-step-rounds-to-range,lll~0]"
                                              : "eloss:negative-or-nan",
                                cid, fmt("%s = %s", what.c_str(), vf::dstr(loss).c_str()));
                }
                if (!(loss <= E))
                    R.violation("eloss:exceeds-energy", cid,
                                fmt("%s = %s > E", what.c_str(), vf::dstr(loss).c_str()));
                // regime: linear if step*rate < lll*E.  one rounding in each product: within
                // 4 eps of the threshold either branch is legitimate
                // (products that land in the subnormal range - lll = 1e-300 - are rounded to a multiple
                // of the smallest subnormal: absolute term)
                ld const dmin = 2 * (ld)std::numeric_limits<double>::denorm_min();
                ld lin = (ld)s * (ld)rate, thr = (ld)lll * (ld)E;
                int regime = lin < thr * (1 - 4 * EPS) - dmin ? 1 : (lin > thr * (1 + 4 * EPS) + dmin ? 2 : 0);
                ld tol_lin = 4 * EPS * lin + dmin;
                ld rem = (ld)range - (ld)s;
                Cand inv = rorc.inverse((double)rem);
                // range - step is rounded once: the remaining range moves by <= eps*range
                ld smin, smax, ambn;
                int kb = -1;
                {
                    std::vector<Cand> tmp;
                    rorc.candidates((double)std::max(inv.val, (ld)1e-300), tmp, &kb);
                }
                range_local_slopes(rorc, std::max(inv.val, (ld)1e-300), kb, &smin, &smax, &ambn);
                ld tol_inv = inv.tol + 2 * EPS * (ld)range / smin + 4 * EPS * (ld)E;
                ld want_inv = (s == range) ? (ld)E : (ld)E - inv.val;
                bool ok_lin = absl((ld)loss - lin) <= tol_lin;
                bool ok_inv = absl((ld)loss - want_inv) <= tol_inv;
                bool ok = regime == 1 ? ok_lin : (regime == 2 ? ok_inv : (ok_lin || ok_inv));
                if (!ok)
                    R.violation("eloss:formula", cid,
                                fmt("%s = %s; linear %s, E-E(range-step) %s (regime %d)", what.c_str(),
                                    vf::dstr(loss).c_str(), vf::dstr((double)lin).c_str(),
                                    vf::dstr((double)want_inv).c_str(), regime));
                if (s == range)
                {
                    if (regime == 2)
                    {
                        R.tag("eloss:step==range(full energy)");
                        if (!same_bits(loss, E))
                            R.violation("eloss:full-range-not-full-energy", cid,
                                        fmt("%s = %s != E", what.c_str(), vf::dstr(loss).c_str()));
                    }
                    else
                        R.tag("eloss:step==range-but-linear-regime(not claimed)");
                }
                // monotone in the step: inside one regime for every table; across the regime
                // switch only for the exactly linear table (see DESIGN note in the report)
                ld tol_here = regime == 1 ? 0 : tol_inv;
                // (below the table the sqrt(E) range scaling is not the integral of the constant
                // extrapolation of dE/dx, so the switch is only compared for E inside the table)
                bool cross_ok = linear_table && (ld)E > spec.K[0] + spec.amb[0];
                if (havePrev && regime != 0 && prevRegime != 0
                    && (regime == prevRegime || cross_ok))
                {
                    R.count("monotone_pairs");
                    // across the switch the stored range (an input) enters: 2 tolR / slope
                    ld slack = tol_here + prevTol
                               + (regime != prevRegime ? tol_lin + tol_inv + 2 * tolR / sminE : 0);
                    if (regime != prevRegime)
                        R.tag("eloss:monotone-across-regime-switch(linear table)");
                    if ((ld)loss < (ld)prevLoss - slack)
                        R.violation("eloss:not-monotone-in-step", cid,
                                    fmt("%s = %s < loss(step=%s) = %s", what.c_str(),
                                        vf::dstr(loss).c_str(), hexd(prevS).c_str(),
                                        vf::dstr(prevLoss).c_str()));
                }
                havePrev = true;
                prevS = s;
                prevLoss = loss;
                prevRegime = regime;
                prevTol = tol_here;
                R.tag(regime == 1 ? "eloss:linear-loss"
                                  : (regime == 2 ? ((ld)rem < (ld)t.range[0]
                                                        ? "eloss:inverse-range(below table)"
                                                        : "eloss:inverse-range(in table)")
                                                 : "eloss:at-linear-loss-threshold"));
            }
        }
    }
}

//---------------------------------------------------------------------------//
// PART C: MSC true path <-> geometrical path
// scaled cross section of (material m, particle p: 0 = e-, 1 = e+) = base table times this
static double msc_factor(int m, int p)
{
    return 1.0 + m + 4 * p;
}
struct MscTables
{
    HostVal<UrbanMscData> host;
    HostCRef<UrbanMscData> ref;
    void build(Physics const& P, LogSpec const& s, std::vector<double> const& v, int nmat, int variant)
    {
        host = {};
        host.ids.electron = P.electron;
        host.ids.positron = P.pars->find(pdg::positron());
        host.electron_mass = units::MevMass{0.5109989461};
        Sent st = sentinel(variant);
        auto reals = make_builder(&host.reals);
        for (int m = 0; m < nmat; ++m)
        {
            make_builder(&host.material_data).push_back(UrbanMscMaterialData{});
            for (int p = 0; p < 2; ++p)
            {
                UrbanMscParMatData pm;
                pm.scaled_zeff = 1;
                pm.d_over_r = 1;
                make_builder(&host.par_mat_data).push_back(pm);
                // a different table for every (material, particle): scaled xs times msc_factor,
                // each between its own sentinels
                std::vector<double> vv(v);
                for (double& x : vv)
                    x *= msc_factor(m, p);
                reals.insert_back(st.pre, st.pre + 2);
                XsGridData g;
                g.log_energy = UniformGridData::from_bounds(std::log(s.emin), std::log(s.emax), s.N);
                g.value = reals.insert_back(vv.begin(), vv.end());
                reals.insert_back(st.post, st.post + 2);
                make_builder(&host.xs).push_back(g);
            }
        }
        ref = host;
    }
};

enum MscShape
{
    ms_short,  // lambda = 1e-5 (E/Emin)^1.5
    ms_mid,  // 1e-2 (E/Emin)
    ms_long,  // 10 (E/Emin)^1.2
    ms_peak,  // not monotone in E: alpha < 0 is reachable (documented for e+ near 10 MeV)
    ms_count
};
static char const* msc_shape_name(int s)
{
    static char const* n[] = {"short", "mid", "long", "peak"};
    return n[s];
}
static ld msc_lambda(int shape, int i, LogSpec const& s)
{
    ld x = s.K[i] / s.K[0];
    ld u = (ld)i / (ld)(s.N - 1);
    switch (shape)
    {
        case ms_short: return 1e-5L * powl(x, 1.5L);
        case ms_mid: return 1e-2L * x;
        case ms_long: return 10 * powl(x, 1.2L);
        // (asymmetric on purpose: two knots with bitwise equal lambda would make
        // lambda(start) == lambda(end) likely, a measure-zero coincidence in real tables)
        case ms_peak: return 1e-3L * (1 + 3 * expl(-((u - 0.43L) / 0.2L) * ((u - 0.43L) / 0.2L)));
    }
    return 1;
}

static void run_msc_case(vf::Run& R, std::string const& cid, LogSpec const& spec, int mshape,
                         bool thorough)
{
    using detail::MscStepFromGeo;
    using detail::MscStepToGeo;
    using detail::UrbanMscHelper;
    int const N = spec.N;
    std::vector<TableSet> tabs;
    for (int sh = 0; sh < es_count; ++sh)
        tabs.push_back(make_tables(spec, sh));
    std::vector<double> v(N);
    for (int i = 0; i < N; ++i)
        v[i] = (double)(spec.K[i] * spec.K[i] / msc_lambda(mshape, i, spec));
    Physics P[2];
    MscTables M[2];
    for (int var = 0; var < 2; ++var)
    {
        P[var].build(spec, tabs, 0.01, var);
        M[var].build(P[var], spec, v, es_count, var);
        if (!P[var].eloss_ppid_layout_ok())
            R.harness_error("eloss_ppid layout: expected e- ppid 1, e+ ppid 0, two processes each");
    }
    std::vector<double> energies = make_queries(spec, thorough ? 2 : 1, false);
    energies.push_back(spec.emin * 0.5);
    double const me = 0.5109989461;
    if (me > spec.emin && me < spec.emax)
        for (int d = -1; d <= 1; ++d)
            energies.push_back(ulp_add(me, d));
    std::sort(energies.begin(), energies.end());
    ld const min_step = UrbanMscParameters::min_step();
    ld const dtrl = UrbanMscParameters::dtrl();

    // electron in every material; positron (range tables rotated by one material, own MSC table)
    // in one material, thorough tier: in every material
    struct PM
    {
        bool pos;
        int mat;
    };
    std::vector<PM> pms;
    for (int m = 0; m < es_count; ++m)
        pms.push_back({false, m});
    for (int m = 0; m < es_count; ++m)
        if (thorough || (m + 1) % es_count == es_const)
            pms.push_back({true, m});
    std::vector<Cand> lcands;

    for (PM const& pm : pms)
    {
        int const mat = pm.mat;
        int const tabidx = pm.pos ? (mat + 1) % es_count : mat;
        std::string const mname = fmt("%s[%s in material %d]", eloss_shape_name(tabidx),
                                      pm.pos ? "e+" : "e-", mat);
        // the scaled-xs table this (material, particle) must see
        std::vector<double> vv(v);
        for (double& x : vv)
            x *= msc_factor(mat, pm.pos ? 1 : 0);
        XsOracle lorc{spec, vv, NONE};
        R.tag(pm.pos ? "msc:positron" : "msc:electron");
        for (double E : energies)
        {
            ParticleTrackView par0 = P[0].particle(E, pm.pos), par1 = P[1].particle(E, pm.pos);
            PhysicsTrackView ph0 = P[0].track(mat, pm.pos), ph1 = P[1].track(mat, pm.pos);
            auto ppid = ph0.eloss_ppid();
            double range = ph0.make_calculator<RangeCalculator>(
                ph0.value_grid(ValueGridType::range, ppid))(par0.energy());
            double range1 = ph1.make_calculator<RangeCalculator>(
                ph1.value_grid(ValueGridType::range, ppid))(par1.energy());
            if (!same_bits(range, range1))
            {
                R.count("msc_past_end");
                R.violation("msc:read-past-end", cid,
                            fmt("mat=%s range(E=%s): %s vs %s", mname.c_str(),
                                hexd(E).c_str(), vf::dstr(range).c_str(), vf::dstr(range1).c_str()));
                continue;
            }
            if (!(range > 0))
                continue;
            ph0.dedx_range(range);
            ph1.dedx_range(range);
            UrbanMscHelper h0(M[0].ref, par0, ph0), h1(M[1].ref, par1, ph1);
            double lambda = h0.msc_mfp(), lambda1v = h1.msc_mfp();
            R.count("evaluations");
            if (!same_bits(lambda, lambda1v))
            {
                R.count("msc_past_end");
                R.violation("msc:read-past-end", cid,
                            fmt("msc_mfp(E=%s): %s vs %s", hexd(E).c_str(), vf::dstr(lambda).c_str(),
                                vf::dstr(lambda1v).c_str()));
                continue;
            }
            if (!(lambda > 0 && std::isfinite(lambda)))
            {
                R.violation("msc:mfp-not-positive", cid,
                            fmt("msc_mfp(E=%s) = %s", hexd(E).c_str(), vf::dstr(lambda).c_str()));
                continue;
            }
            // value: lambda = E^2 / (scaled xs table of THIS material and particle at E); the
            // division and the square add 3 roundings to the table lookup's tolerance
            {
                bool inside;
                lorc.candidates(E, lcands, &inside);
                bool ok = false;
                ld wantl = 0;
                for (Cand const& cd : lcands)
                {
                    if (!(cd.val > 0))
                        continue;
                    ld w = (ld)E * (ld)E / cd.val;
                    wantl = w;
                    ok |= absl((ld)lambda - w) <= w * (cd.tol / cd.val + 8 * EPS);
                }
                R.count("evaluations");
                R.count("mfp_evals");
                if (!ok)
                    R.violation("msc:mfp-value", cid,
                                fmt("%s msc_mfp(E=%s) = %s, E^2/table = %s", mname.c_str(), hexd(E).c_str(),
                                    vf::dstr(lambda).c_str(), vf::dstr((double)wantl).c_str()));
            }
            MscStepToGeo geo0(M[0].ref, h0, units::MevEnergy{E}, lambda, range);
            MscStepToGeo geo1(M[1].ref, h1, units::MevEnergy{E}, lambda, range);

            double const ms_d = (double)min_step;
            std::vector<double> ts = {0.0, 1e-9, ulp_add(ms_d, -1), ms_d, ulp_add(ms_d, 1)};
            for (double f : {1e-3, 0.01, 0.04, 0.1, 0.3, 0.9, 0.99})
                ts.push_back(range * f);
            double th = range * 0.05;
            for (int d = -1; d <= 1; ++d)
                ts.push_back(ulp_add(th, d));
            ts.push_back(ulp_add(range, -1));
            ts.push_back(range);
            std::sort(ts.begin(), ts.end());
            ts.erase(std::unique(ts.begin(), ts.end()), ts.end());
            for (double t : ts)
            {
                if (!(t >= 0 && t <= range))
                    continue;  // documented precondition
                auto g0 = geo0(t);
                auto g1 = geo1(t);
                R.count("evaluations");
                R.count("togeo_evals");
                std::string what = fmt("mat=%s MscStepToGeo(E=%s, lambda=%s, range=%s)(t=%s)",
                                       mname.c_str(), hexd(E).c_str(), hexd(lambda).c_str(),
                                       hexd(range).c_str(), hexd(t).c_str());
                if (!same_bits(g0.step, g1.step) || !same_bits(g0.alpha, g1.alpha))
                {
                    R.count("msc_past_end");
                    R.violation("msc:read-past-end", cid,
                                fmt("%s: step %s vs %s", what.c_str(), vf::dstr(g0.step).c_str(),
                                    vf::dstr(g1.step).c_str()));
                    continue;
                }
                double g = g0.step;
                if (!(std::isfinite(g) && g >= 0))
                {
                    R.violation("msc:geo-negative-or-nan", cid,
                                fmt("%s = %s", what.c_str(), vf::dstr(g).c_str()));
                    continue;
                }
                if (!(g <= t))
                    R.violation("msc:geo-exceeds-true", cid,
                                fmt("%s = %s > t", what.c_str(), vf::dstr(g).c_str()));
                // documented formulas
                ld lt = t, lam = lambda, rg = range;
                ld thr = rg * dtrl;
                bool amb_thr = absl(lt - thr) <= 4 * EPS * thr;
                bool is_small = lt < min_step;
                bool is_const_xs = !is_small && lt < thr;
                auto ok_small = [&] { return same_bits(g, t) && g0.alpha == 0; };
                auto ok_const = [&] {
                    ld z = std::min(-lam * expm1l(-lt / lam), lt);
                    return absl((ld)g - z) <= 8 * EPS * lt && g0.alpha == 0;
                };
                bool low_e = E < me || t == range;
                ld alpha = 0, sl = 0, tolz = 0, z3 = 0;
                bool degenerate = false;
                auto ok_power = [&] {
                    ld w, dsl;
                    if (low_e)
                    {
                        alpha = 1 / rg;
                        sl = std::max(1 - lt / rg, (ld)0);
                        dsl = 2 * EPS;
                        if (!same_bits(g0.alpha, 1 / range))
                            return false;
                    }
                    else
                    {
                        double e1 = h0.calc_inverse_range(range - t).value();
                        ld l1 = h0.calc_msc_mfp(units::MevEnergy{e1});
                        if (l1 == lam)
                        {
                            degenerate = true;
                            return true;
                        }
                        alpha = (lam - l1) / (lam * lt);
                        sl = l1 / lam;
                        dsl = EPS * sl;
                        if (absl((ld)g0.alpha - alpha) > 8 * EPS * absl(alpha))
                            return false;
                    }
                    w = 1 + 1 / (alpha * lam);
                    ld lns = sl > 0 ? logl(sl) : -std::numeric_limits<ld>::infinity();
                    ld pw = sl > 0 ? expl(w * lns) : 0;
                    z3 = (1 - pw) / (alpha * w);
                    // error of exp(w log(slope)): see the rounding model in the report
                    ld epw;
                    if (sl <= 4 * EPS)
                        epw = 4 * EPS;
                    else
                    {
                        ld da = absl(w) * (dsl / sl + EPS * absl(lns)) + 6 * EPS * (absl(w) + 1) * absl(lns)
                                + EPS * absl(w * lns);
                        epw = pw * (da + EPS);
                    }
                    tolz = 4 * ((epw + EPS) / absl(alpha * w) + 10 * EPS * absl(z3));
                    ld zc = std::min(z3, lt);
                    return absl((ld)g - zc) <= tolz;
                };
                bool ok;
                char const* branch;
                if (is_small)
                {
                    ok = ok_small();
                    branch = "msc:togeo:small-step(geo=true)";
                }
                else if (amb_thr)
                {
                    ok = ok_const() || ok_power();
                    branch = "msc:togeo:at-dtrl-threshold";
                }
                else if (is_const_xs)
                {
                    ok = ok_const();
                    branch = "msc:togeo:constant-xs(expm1)";
                }
                else
                {
                    ok = ok_power();
                    branch = low_e ? (t == range ? "msc:togeo:range-limited(alpha=1/range)"
                                                 : "msc:togeo:low-energy(alpha=1/range)")
                                   : (alpha < 0 ? "msc:togeo:endpoint-mfp(alpha<0)"
                                                : "msc:togeo:endpoint-mfp(alpha>0)");
                    if (degenerate)
                        branch = "msc:togeo:endpoint-mfp(alpha==0, formula skipped)";
                }
                R.tag(branch);
                if (!ok)
                    R.violation("msc:togeo-formula", cid,
                                fmt("%s = %s (alpha %s); documented formula gives %s (tol %.3Lg) [%s]",
                                    what.c_str(), vf::dstr(g).c_str(), vf::dstr(g0.alpha).c_str(),
                                    vf::dstr((double)std::min(z3, lt)).c_str(), tolz, branch));

                if (degenerate)
                    continue;  // alpha == 0 exactly: measure-zero, not claimed (see report)
                // back conversion: geo <= back <= true for every geometrical step <= geo
                MscStep ms;
                ms.true_path = t;
                ms.geom_path = g;
                ms.alpha = g0.alpha;
                MscStepFromGeo back0(M[0].ref.params, ms, range, lambda);
                MscStepFromGeo back1(M[1].ref.params, ms, range, lambda);
                std::vector<double> gs = {0.0, g * 1e-3, g * 0.5, g > 0 ? ulp_add(g, -1) : 0.0, g,
                                          std::min(g, lambda), ulp_add(ms_d, -1), ms_d,
                                          ulp_add(ms_d, 1)};
                std::sort(gs.begin(), gs.end());
                gs.erase(std::unique(gs.begin(), gs.end()), gs.end());
                // Documented inverse (class comment of MscStepFromGeo), evaluated in long double
                // for the alpha and lambda that the library was given:
                //   g < min_step                      -> g
                //   alpha == 0 (constant xs)          -> -lambda log1p(-g/lambda), g if that is < min_step
                //   otherwise, w = 1 + 1/(alpha lambda) -> (1 - (1 - min(alpha w g, 1))^(1/w)) / alpha, <= range
                //   finally clamped to [g, t].
                // Rounding model: u = g/lambda carries eps, 1 - u inside log1p is exact, so t moves
                // by <= lambda eps u/(1 - u) + (log1p, product) 2 eps t.  Power branch: w has the
                // relative error relw (3 eps when alpha > 0; for alpha < 0 the sum 1 + 1/(alpha
                // lambda) cancels), x = alpha w g: relw + 2 eps, 1 - x: + eps absolute; the power
                // 1/w amplifies d(1-x) by pw/((1-x) w) and the error of the exponent by
                // pw |ln(1-x)|/w; pow, 1 - pw and the division by alpha add <= 4 eps.  Twice that.
                ld const la = g0.alpha, lwv = 1 + 1 / (la * lam);
                auto formula = [&](double gq, ld* tol, bool* claimed) -> ld {
                    ld lg = gq;
                    *claimed = true;
                    *tol = 0;
                    if (lg < min_step)
                        return lg;
                    ld tt;
                    if (g0.alpha == 0)
                    {
                        ld u = lg / lam;
                        if (!(u < 1 - 1e-9L))
                        {
                            *claimed = false;  // log of ~0: only the bounds are claimed
                            return lt;
                        }
                        tt = -lam * log1pl(-u);
                        *tol = 2 * (4 * EPS * lg / (1 - u) + 8 * EPS * tt);
                        if (tt < min_step + *tol)
                        {
                            if (tt < min_step - *tol)
                                return lg;
                            *claimed = false;  // at the min_step switch either answer
                            return tt;
                        }
                    }
                    else
                    {
                        ld x = la * lwv * lg;
                        if (!(x < 1 - 1e-9L) || !(lwv > 0))
                        {
                            // range-limited (x clamped to 1) or a non-positive exponent (alpha < 0
                            // with |alpha| lambda <= 1): only the bounds are claimed
                            *claimed = false;
                            return lt;
                        }
                        ld om = 1 - x;  // > 1 for alpha < 0
                        ld lnom = logl(om);
                        ld pw = expl(lnom / lwv);
                        tt = (1 - pw) / la;
                        // relative error of w = 1 + 1/(alpha lambda): no cancellation for alpha > 0
                        ld relw = la > 0 ? 4 * EPS : 4 * EPS * (1 + 2 / absl(la * lam)) / absl(lwv);
                        ld dx = absl(x) * (relw + 4 * EPS);
                        ld dom = dx + EPS * (1 + absl(x));
                        ld dpw = pw * (dom / om / absl(lwv) + absl(lnom) / absl(lwv) * (relw + EPS) + 4 * EPS);
                        *tol = 2 * (dpw / absl(la) + 4 * EPS * absl(tt) + 4 * EPS / absl(la));
                        tt = std::min(tt, rg);
                    }
                    return std::max(lg, std::min(tt, lt));
                };
                bool havePrevB = false;
                double prevB = 0, prevG = 0;
                ld tol_at_g = 0;
                {
                    bool c;
                    formula(g, &tol_at_g, &c);
                }
                for (double gq : gs)
                {
                    if (!(gq >= 0 && gq <= g))
                        continue;
                    double b0 = back0(gq), b1 = back1(gq);
                    R.count("evaluations");
                    R.count("fromgeo_evals");
                    if (!same_bits(b0, b1))
                    {
                        R.violation("msc:read-past-end", cid, "MscStepFromGeo differs between sentinels");
                        continue;
                    }
                    if (!(b0 >= gq && b0 <= t))
                        R.violation("msc:back-out-of-bounds", cid,
                                    fmt("%s = %s; MscStepFromGeo(alpha=%s)(g=%s) = %s not in [g, t]",
                                        what.c_str(), vf::dstr(g).c_str(), vf::dstr(g0.alpha).c_str(),
                                        hexd(gq).c_str(), vf::dstr(b0).c_str()));
                    // value against the documented inverse
                    {
                        ld tolf;
                        bool claimed;
                        ld wantb = formula(gq, &tolf, &claimed);
                        if (claimed)
                        {
                            R.count("fromgeo_formula_evals");
                            if (!(absl((ld)b0 - wantb) <= tolf))
                                R.violation("msc:fromgeo-formula", cid,
                                            fmt("%s = %s; MscStepFromGeo(alpha=%s)(g=%s) = %s, documented "
                                                "inverse gives %s (tol %.3Lg)",
                                                what.c_str(), vf::dstr(g).c_str(), vf::dstr(g0.alpha).c_str(),
                                                hexd(gq).c_str(), vf::dstr(b0).c_str(),
                                                vf::dstr((double)wantb).c_str(), tolf));
                        }
                        else
                            R.tag("msc:fromgeo:formula-not-claimed(x~1, w<=0 or at min_step)");
                        // true -> geo -> true is the identity (up to the error of the library's g,
                        // bounded by tolz, amplified by dt/dz = (1 - alpha w g)^(1/w - 1), and
                        // except where the small-step rule returns g itself)
                        if (claimed && gq == g && ok && g >= (double)min_step && !is_small)
                        {
                            ld amp = 1;
                            if (g0.alpha == 0)
                                amp = 1 / (1 - (ld)g / lam);
                            else
                                amp = expl(logl(1 - la * lwv * (ld)g) * (1 / lwv - 1));
                            ld gerr = g0.alpha == 0 ? 8 * EPS * lt : tolz;
                            ld tolrt = tolf + 2 * gerr * amp + 8 * EPS * lt;
                            R.count("roundtrip_msc_evals");
                            // (a constant-xs result below min_step is replaced by g: not a round trip)
                            bool const replaced = g0.alpha == 0 && (ld)b0 == (ld)g && lt < min_step + tolrt;
                            if (!replaced && !(absl((ld)b0 - lt) <= tolrt))
                                R.violation("msc:roundtrip", cid,
                                            fmt("%s = %s; converting back gives %s instead of t (tol %.3Lg)",
                                                what.c_str(), vf::dstr(g).c_str(), vf::dstr(b0).c_str(),
                                                tolrt));
                        }
                    }
                    // monotone in the geometrical step (slack: the rounding bound at the largest g)
                    if (havePrevB)
                    {
                        R.count("monotone_pairs");
                        if ((ld)b0 < (ld)prevB - (tol_at_g + 4 * EPS * lt))
                            R.violation("msc:fromgeo-not-monotone", cid,
                                        fmt("%s: back(g=%s) = %s < back(g=%s) = %s", what.c_str(),
                                            hexd(gq).c_str(), vf::dstr(b0).c_str(), hexd(prevG).c_str(),
                                            vf::dstr(prevB).c_str()));
                    }
                    havePrevB = true;
                    prevB = b0;
                    prevG = gq;
                    R.tag(gq < (double)min_step ? "msc:fromgeo:small-step"
                                                : (g0.alpha == 0 ? "msc:fromgeo:log1p" : "msc:fromgeo:power"));
                    if (b0 == gq && gq >= (double)min_step)
                        R.tag("msc:fromgeo:clamped-to-geo");
                    if (b0 == t)
                        R.tag("msc:fromgeo:clamped-to-true");
                }
            }
        }
    }
}

int main(int argc, char** argv)
{
    vf::Run R(argc, argv, "C14", "c14_tables");
    bool const thorough = R.thorough();

    // grid alphabet: decades x non-round bounds x a narrow grid; N = knots
    std::vector<GridRange> ranges = {{1e-4, 1e2}, {1.0, 1e8}, {1e-3, 1e3}, {0.1, 20.0},
                                     {2.5e-4, 3.7e3}, {1e-5, 1e-1}, {1e-6, 1e6}, {0.7, 1.3},
                                     {1e-4, 1e4},
                                     // grids whose computed last point front + delta*(N-1) lies
                                     // one ulp BELOW the stored back for N = 6 / 11 (the gap in
                                     // which only the upper-neighbour guard of UniformGrid::find
                                     // keeps the bin inside the table)
                                     {1e-4, 10.0}, {1e-2, 1e3}};
    std::vector<int> Ns = {2, 3, 4, 5, 6, 8, 9, 11, 17};
    int ulps = 24;  // every knot candidate +-ulps
    int nmid = 4;  // interior points per bin (in addition to the fixed ones)
    if (thorough)
    {
        for (GridRange g : {GridRange{1e-3, 1e5}, GridRange{1e-2, 1e1}, GridRange{3e-5, 7e7},
                            GridRange{5.0, 5e3}, GridRange{1e-4, 1e8}, GridRange{1e-7, 1e-2},
                            GridRange{1e-3, 1e2}, GridRange{1e-2, 1e7}, GridRange{0.99, 101.0},
                            GridRange{1e-5, 1e3}, GridRange{2e-4, 2e2}})
            ranges.push_back(g);
        Ns = {2, 3, 4, 5, 6, 7, 8, 9, 17, 33, 85};
        ulps = 64;
        nmid = 16;
    }
    // prime indices: every knot for N <= 9, a boundary-biased subset for the large grids
    auto prime_indices = [](int N) {
        std::vector<int> r = {-1};
        if (N <= 9)
            for (int i = 0; i < N; ++i)
                r.push_back(i);
        else
            for (int i : {0, 1, 2, N / 2, N - 3, N - 2, N - 1})
                r.push_back(i);
        return r;
    };

    uint64_t outer = 0;  // outermost enumeration index (sharding)
    std::vector<Cand> cands;

    //// xs ////
    for (GridRange gr : ranges)
        for (int N : Ns)
        {
            LogSpec spec = make_spec(gr.emin, gr.emax, N);
            std::vector<double> queries = make_queries(spec, ulps, true, nmid);
            for (int shape = 0; shape < sh_count; ++shape)
                for (int pi : prime_indices(N))
                {
                    uint64_t idx = outer++;
                    if (!R.mine(idx))
                        continue;
                    if (R.expired())
                        break;
                    int p = pi < 0 ? NONE : pi;
                    std::string cid = fmt("xs:emin=%s,emax=%s,n=%d,shape=%s,p=%d",
                                          vf::dstr(gr.emin).c_str(), vf::dstr(gr.emax).c_str(), N,
                                          shape_name(shape), pi);
                    if (!R.want(cid))
                        continue;
                    R.begin_case(cid, 60);
                    XsCase c;
                    bool via_builder = false;
                    build_xs_case(c, spec, shape, p, &via_builder);
                    R.tag(via_builder ? (p == NONE ? "xs:built-by-ValueGridLogBuilder"
                                                   : "xs:built-by-ValueGridXsBuilder")
                                      : "xs:built-by-inserter(prime=last)");
                    // builder output must describe the requested grid
                    for (int var = 0; var < 2; ++var)
                    {
                        XsGridData const& g = c.grid[var];
                        size_type want_p = p == NONE ? XsGridData::no_scaling() : size_type(p);
                        if (!g || g.log_energy.size != size_type(N) || g.prime_index != want_p
                            || g.value.size() != size_type(N))
                            R.violation("builder:grid-mismatch", cid,
                                        fmt("built grid size=%u prime=%u (wanted %d, prime %d)",
                                            g.log_energy.size, g.prime_index, N, pi));
                        if (absl((ld)g.log_energy.front - spec.lf) > 2 * EPS * spec.L
                            || absl((ld)g.log_energy.back - spec.lb) > 2 * EPS * spec.L)
                            R.violation("builder:grid-mismatch", cid, "log-energy bounds differ");
                        for (int i = 0; i < N; ++i)
                            if (!same_bits(c.pool[var].ref[g.value[i]], c.v[i]))
                                R.violation("builder:grid-mismatch", cid, "stored values differ");
                    }
                    if (!same_grid(c.grid[0], c.grid[1]))
                        R.violation("builder:grid-mismatch", cid,
                                    "constructor and from_geant/from_scaled give different grids");
                    XsOracle orc{spec, c.v, p};
                    XsCalculator calc0(c.grid[0], c.pool[0].ref);
                    XsCalculator calc1(c.grid[1], c.pool[1].ref);
                    UniformGrid ug(c.grid[0].log_energy);
                    uint64_t n_over = 0, n_bad = 0;
                    double prevE = 0, prevGot = 0;
                    ld prevTol = 0, prevOrc = 0;
                    bool havePrev = false;
                    for (double E : queries)
                    {
                        XsCalculator::Energy en{E};
                        double got = calc0(en);
                        double got1 = calc1(en);
                        R.count("evaluations");
                        R.count("xs_evals");
                        // UniformGrid::find postcondition, exactly as the calculator calls it
                        double loge = std::log(E);
                        if (loge > ug.front() && loge < ug.back())
                        {
                            size_type b = ug.find(loge);
                            R.count("find_evals");
                            if (!(b + 1 < ug.size()))
                            {
                                if (n_over++ == 0)
                                    R.violation("grid:read-past-end", cid,
                                                fmt("UniformGrid(front=%s,back=%s,delta=%s,size=%u)"
                                                    ".find(log(%s)=%s) = %u: bin+1 is not < size",
                                                    hexd(ug.front()).c_str(), hexd(ug.back()).c_str(),
                                                    hexd(c.grid[0].log_energy.delta).c_str(),
                                                    ug.size(), hexd(E).c_str(), hexd(loge).c_str(), b));
                                R.count("find_past_end");
                            }
                            else
                            {
                                // data[b] <= value < data[b+1] up to the rounding of data[]
                                double lo = ug[b], hi = ug[b + 1];
                                double slack = 4 * 2.220446049250313e-16 * (double)spec.L;
                                if (!(loge >= lo - slack && loge <= hi + slack))
                                    R.violation("grid:find-wrong-bin", cid,
                                                fmt("find(%s)=%u but grid[%u]=%s grid[%u]=%s",
                                                    hexd(loge).c_str(), b, b, hexd(lo).c_str(),
                                                    b + 1, hexd(hi).c_str()));
                            }
                        }
                        if (!same_bits(got, got1))
                        {
                            R.count("xs_past_end");
                            R.violation("xs:read-past-end", cid,
                                        fmt("XsCalculator(E=%s) depends on memory outside the "
                                            "table: %s with sentinel A, %s with sentinel B "
                                            "(table end value %s)",
                                            hexd(E).c_str(), vf::dstr(got).c_str(),
                                            vf::dstr(got1).c_str(), vf::dstr(c.v[N - 1]).c_str()));
                            havePrev = false;
                            continue;
                        }
                        bool inside = false;
                        orc.candidates(E, cands, &inside);
                        if (cands.empty())
                            R.harness_error("no oracle candidate for " + hexd(E));
                        if (!(std::isfinite(got) && got >= 0))
                        {
                            // a zero first knot can be undershot by |slope|*dK: that is a
                            // different (and reported) kind of finding
                            R.violation(shape == sh_zero0 ? "xs:negative-near-zero-knot"
                                                          : "xs:not-finite-nonnegative",
                                        cid,
                                        fmt("XsCalculator(E=%s) = %s", hexd(E).c_str(),
                                            vf::dstr(got).c_str()));
                            ++n_bad;
                        }
                        bool ok = false, between = false;
                        ld best = 0, besttol = 0, bestorc = 0;
                        for (Cand const& cd : cands)
                        {
                            ld d = absl((ld)got - cd.val);
                            if (d <= cd.tol)
                                ok = true;
                            if ((ld)got >= cd.lo - cd.tol && (ld)got <= cd.hi + cd.tol)
                                between = true;
                            if (&cd == &cands[0] || d < best)
                            {
                                best = d;
                                bestorc = cd.val;
                            }
                            // in a knot zone either formula is legitimate: the continuity
                            // bound uses the larger of their error bounds
                            besttol = std::max(besttol, cd.tol);
                        }
                        if (!ok)
                        {
                            R.violation("xs:value-mismatch", cid,
                                        fmt("XsCalculator(E=%s) = %s, oracle %s (|diff| %.3Lg > tol "
                                            "%.3Lg)",
                                            hexd(E).c_str(), vf::dstr(got).c_str(),
                                            vf::dstr((double)bestorc).c_str(), best, besttol));
                            ++n_bad;
                        }
                        if (!between)
                        {
                            R.violation("xs:not-between-knots", cid,
                                        fmt("XsCalculator(E=%s) = %s outside the neighbouring knot "
                                            "values",
                                            hexd(E).c_str(), vf::dstr(got).c_str()));
                            ++n_bad;
                        }
                        // continuity: neighbouring queries a few ulp apart
                        if (havePrev && E <= ulp_add(prevE, 4))
                        {
                            R.count("continuity_pairs");
                            ld lim = absl(bestorc - prevOrc) + besttol + prevTol;
                            if (absl((ld)got - (ld)prevGot) > lim)
                                R.violation("xs:discontinuous", cid,
                                            fmt("f(%s)=%s f(%s)=%s jump > %.3Lg", hexd(prevE).c_str(),
                                                vf::dstr(prevGot).c_str(), hexd(E).c_str(),
                                                vf::dstr(got).c_str(), lim));
                        }
                        havePrev = true;
                        prevE = E;
                        prevGot = got;
                        prevTol = besttol;
                        prevOrc = bestorc;
                        // coverage tags
                        ld El = E;
                        if (El < spec.K[0] - spec.amb[0])
                            R.tag(p == 0 ? "xs:below-grid(scaled)" : "xs:below-grid");
                        else if (El > spec.K[N - 1] + spec.amb[N - 1])
                            R.tag(p != NONE ? "xs:above-grid(scaled)" : "xs:above-grid");
                        else if (!inside)
                            R.tag("xs:within-knot-zone");
                        else
                        {
                            int k = 0;
                            while (k + 1 < N - 1 && spec.K[k + 1] <= El)
                                ++k;
                            R.tag(k >= p ? "xs:bin-scaled"
                                         : (k + 1 == p ? "xs:bin-below-prime(unscale-upper)"
                                                       : "xs:bin-unscaled"));
                        }
                    }
                    // operator[] reproduces the unscaled knot values
                    for (int i = 0; i < N; ++i)
                    {
                        double g0 = calc0[i];
                        ld want = orc.y(i);
                        ld tol = absl(want) * (spec.dK[i] / spec.K[i] + 4 * EPS);
                        R.count("evaluations");
                        if (absl((ld)g0 - want) > tol)
                            R.violation("xs:knot-value", cid,
                                        fmt("calc[%d] = %s, table %s", i, vf::dstr(g0).c_str(),
                                            vf::dstr((double)want).c_str()));
                    }
                    if (absl((ld)calc0.energy_min().value() - spec.K[0]) > spec.dK[0]
                        || absl((ld)calc0.energy_max().value() - spec.K[N - 1]) > spec.dK[N - 1])
                        R.violation("xs:energy-bounds", cid, "energy_min/max differ from the grid");
                    R.nontrivial(case_hash(cid));
                    R.outcome(vf::hash_mix(case_hash(cid), n_over * 1000 + n_bad));
                    R.end_case();
                }
        }
    //// range / inverse range ////
    for (GridRange gr : ranges)
        for (int N : Ns)
        {
            LogSpec spec = make_spec(gr.emin, gr.emax, N);
            std::vector<double> queries = make_queries(spec, ulps, true, nmid);
            for (int shape = 0; shape < rs_count; ++shape)
            {
                uint64_t idx = outer++;
                if (!R.mine(idx))
                    continue;
                if (R.expired())
                    break;
                std::string cid = fmt("range:emin=%s,emax=%s,n=%d,shape=%s", vf::dstr(gr.emin).c_str(),
                                      vf::dstr(gr.emax).c_str(), N, range_shape_name(shape));
                if (!R.want(cid))
                    continue;
                R.begin_case(cid, 60);
                run_range_case(R, cid, spec, queries, shape, ulps);
                R.nontrivial(case_hash(cid));
                R.end_case();
            }
        }

    //// generic (non-uniform) grids ////
    for (int gkind = 0; gkind < 3; ++gkind)
        for (int N : Ns)
            for (int shape = 0; shape < 4; ++shape)
            {
                uint64_t idx = outer++;
                if (!R.mine(idx))
                    continue;
                if (R.expired())
                    break;
                std::string cid = fmt("generic:grid=%d,n=%d,shape=%s", gkind, N, shape_name(shape));
                if (!R.want(cid))
                    continue;
                R.begin_case(cid, 60);
                run_generic_case(R, cid, gkind, N, shape);
                R.nontrivial(case_hash(cid));
                R.end_case();
            }

    //// mean energy loss through the real physics views ////
    // linear_loss_limit: validated range is [0, 1], both ends included
    std::vector<double> llls = {0.0, 1e-300, 0.001, 0.01, 0.5};
    if (thorough)
        llls.push_back(1.0);
    for (GridRange gr : ranges)
        for (int N : Ns)
            for (double lll : llls)
            {
                uint64_t idx = outer++;
                if (!R.mine(idx))
                    continue;
                if (R.expired())
                    break;
                std::string cid = fmt("eloss:emin=%s,emax=%s,n=%d,lll=%g", vf::dstr(gr.emin).c_str(),
                                      vf::dstr(gr.emax).c_str(), N, lll);
                if (!R.want(cid))
                    continue;
                R.begin_case(cid, 120);
                LogSpec spec = make_spec(gr.emin, gr.emax, N);
                run_eloss_case(R, cid, spec, lll, thorough);
                R.nontrivial(case_hash(cid));
                R.end_case();
            }

    //// MSC path conversions ////
    for (GridRange gr : ranges)
        for (int N : Ns)
            for (int ms = 0; ms < ms_count; ++ms)
            {
                uint64_t idx = outer++;
                if (!R.mine(idx))
                    continue;
                if (R.expired())
                    break;
                std::string cid = fmt("msc:emin=%s,emax=%s,n=%d,mfp=%s", vf::dstr(gr.emin).c_str(),
                                      vf::dstr(gr.emax).c_str(), N, msc_shape_name(ms));
                if (!R.want(cid))
                    continue;
                R.begin_case(cid, 120);
                LogSpec spec = make_spec(gr.emin, gr.emax, N);
                run_msc_case(R, cid, spec, ms, thorough);
                R.nontrivial(case_hash(cid));
                R.end_case();
            }

    R.sample(fmt("xs:emin=0.0001,emax=100,n=9,shape=peak,p=4 : 9 knots x 4 roundings of each knot x "
                 "+-%d ulp, %d+8 interior points per bin, 1e-300..1e300; both sentinel variants",
                 ulps, nmid - 1));
    R.sample("range:emin=1,emax=100000000,n=5,shape=pow : RangeCalculator on the same energy lattice; "
             "InverseRangeCalculator at every table value +-ulps, bin fractions, r0*{.5,1e-3,1e-10,"
             "1e-100}, 0; both round trips");
    R.sample("eloss:emin=0.001,emax=1000,n=8,lll=0.01 : 4 dE/dx shapes (range = exact integral) x "
             "energies (knots +-1 ulp, bin points, Emin/2, Emin/1000) x steps range*{1e-12..1-1e-9}, "
             "range-{1,2,4}ulp, range, range_to_step(range), lll*E/rate +-2 ulp");
    R.sample("msc:emin=0.0001,emax=100,n=5,mfp=peak : true path in {0,1e-9,min_step+-1ulp,range*"
             "{1e-3..0.99},0.05*range+-1ulp,range-1ulp,range} -> geo; geo steps {0,g/1000,g/2,g-1ulp,g,"
             "min(g,lambda),min_step+-1ulp} -> back");
    return R.finish();
}
