// Standalone reproduction (COMPILE-TIME): detail::step_range_iter<T>::operator+(difference_type)
// (corecel/cont/detail/RangeImpl.hh:310) is ill-formed as soon as it is instantiated:
//     return {TraitsT::increment(value_, inc * step_)};
// list-initialises a step_range_iter from ONE value, but the only constructor takes
// (value, step).  Because the member hides range_iter::operator+, `begin() + k` cannot be written
// for any stepped range.  Nothing in the library or its tests calls it.
//   g++ -std=c++17 -I$REPO/src -I$BUILD/include -c C18_step_range_iter_plus_does_not_compile.cc
// Expected after a fix (`return {TraitsT::increment(value_, inc * step_), step_};`, and `const`):
// compiles, prints 6.
#include <cstdio>
#include "corecel/cont/Range.hh"
int main()
{
    auto sr = celeritas::range(0, 10).step(3);
    auto it = sr.begin() + 2;
    std::printf("%d\n", *it);
    return *it == 6 ? 0 : 1;
}
