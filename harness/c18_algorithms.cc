// C18 - device-portable algorithms, ranges, integer helpers, indexers, grids and interpolators
//       agree with std:: / exact-arithmetic references.
//
// Bounded-exhaustive (small scope) enumeration, engine E4.  Every oracle is std:: or a
// long double / exact integer re-derivation; nothing from the code under test is reused
// (exception, declared: UniformGrid's documented postcondition is stated in terms of
// UniformGrid::operator[], which is itself checked against long double first).
//
//  parts (case ids, all replayable with --case):
//   seq:alphabet=A,len=n,idx=i      every sequence over A letters of length n (base-A digits of i)
//   perm:len=n,idx=i                every permutation of 0..n-1 (Lehmer code of i)
//   sorted:alphabet=K,len=n,idx=i   every non-decreasing sequence over K letters (lexicographic)
//   range:T=<type>                  Range/Count/step for all (begin,end,step) in a cube: range-for,
//                                   size/empty/front/back/[], iterator + - difference, postfix and
//                                   prefix ++ / --, iterator [] and ->, cbegin/cend, stepped ranges
//                                   walked with prefix AND postfix ++
//   range:T=<type>@<base>           the same cube shifted next to 2^31 / 2^32 / -2^31 / the top of the
//                                   type (uint, OpaqueId<unsigned>, size_t, OpaqueId<size_t>, long long,
//                                   short, signed char, int): truncation through narrower types
//   range-wide:T=<type>,w=<width>   ranges whose SIZE is 2^31, 2^32-2, 2^32, 2^33+5 (+0..3): size, back,
//                                   end-begin, [] and iterator +- at offsets {0,1,n/2,n-2,n-1}; no iteration;
//                                   64-bit counters: lower_bound / upper_bound / find_sorted ON the wide
//                                   range at the same offsets and past the back, comparator call count <= 128
//   int:<helper>                    ceil_div, LocalWorkCalculator, ipow, eumod, signum, clamp, ...
//   int:eumod-inexact               eumod with tiny / ulp-adjacent numerators and non-dyadic denominators
//                                   (double and float): 0 <= r < d and r within one ulp(d) of the exact
//                                   remainder; denominators {1,0.1,2pi,360,0.75,3} and the negative
//                                   {-1,-0.1,-360} (weak claim: |r| < |d|, congruent within ulp(|d|))
//   int:signum-clamp-minmax         ... + floating min/max on NaN/inf/denormals/signed zeros vs
//                                   std::fmin/fmax (bits), identity of the object returned by the
//                                   reference-returning integer min/max and by clamp vs std::
//   span:n=<n>                      Span first/last/subspan for all (offset,count); n >= 3: sub-views of a
//                                   static-extent span (first<3>().subspan<1>() ...), Count == 0,
//                                   fixed -> dynamic conversion, make_span(Array / C array)
//   hyperslab:N=<N>,shape=<idx>     HyperslabIndexer / InverseIndexer bijection, all shapes <= 4^N, and the
//                                   admitted end value to_coords(size) == (dims[0],0,..,0)
//   ragged:N=<N>,shape=<idx>        RaggedRightIndexer / InverseIndexer bijection
//   ugrid:<kind>,lo=..,hi=..,n=..   UniformGrid::operator[], find, find_interp at knots +-k ulp, ...
//   ngrid:int,mask=<m> / ngrid:dbl,set=<k> / ngrid:dup,...   NonuniformGrid::find, find_interp
//   interp:<xi><yi>,set=<k>         Interpolator lin/log combinations vs long double + rounding model
//   twod:x=<i>,y=<j>,f=<k>          TwodGridCalculator / TwodSubgridCalculator vs long double
#include <algorithm>
#include <cfloat>
#include <climits>
#include <cmath>
#include <cstdint>
#include <cstring>
#include <functional>
#include <limits>
#include <numeric>
#include <string>
#include <vector>

#include "corecel/OpaqueId.hh"
#include "corecel/cont/Array.hh"
#include "corecel/cont/Range.hh"
#include "corecel/cont/Span.hh"
#include "corecel/data/Collection.hh"
#include "corecel/data/CollectionBuilder.hh"
#include "corecel/data/HyperslabIndexer.hh"
#include "corecel/grid/FindInterp.hh"
#include "corecel/grid/Interpolator.hh"
#include "corecel/grid/NonuniformGrid.hh"
#include "corecel/grid/TwodGridCalculator.hh"
#include "corecel/grid/TwodSubgridCalculator.hh"
#include "corecel/grid/UniformGrid.hh"
#include "corecel/grid/UniformGridData.hh"
#include "corecel/math/Algorithms.hh"
#include "orange/OrangeData.hh"
#include "orange/OrangeTypes.hh"
#include "orange/univ/detail/RaggedRightIndexer.hh"
#include "engine/harness.hh"

using namespace celeritas;
using vf::fmt;

//---------------------------------------------------------------------------//
// cheap branch/regime tags: static counters flushed into R.tag at the end
struct TagCounter
{
    char const* name;
    uint64_t n = 0;
    explicit TagCounter(char const* nm) : name(nm) { registry().push_back(this); }
    static std::vector<TagCounter*>& registry()
    {
        static std::vector<TagCounter*> r;
        return r;
    }
};
#define TAG(name)                        \
    do                                   \
    {                                    \
        static TagCounter tc_(name);     \
        ++tc_.n;                         \
    } while (0)

static double const kU = 0x1p-53;  // unit roundoff of double

static double ulps(double v, int k)
{
    for (; k > 0; --k)
        v = std::nextafter(v, INFINITY);
    for (; k < 0; ++k)
        v = std::nextafter(v, -INFINITY);
    return v;
}

static std::string seq_str(std::vector<int> const& s)
{
    std::string o = "[";
    for (size_t i = 0; i < s.size(); ++i)
        o += (i ? "," : "") + std::to_string(s[i]);
    return o + "]";
}

//---------------------------------------------------------------------------//
// PART A: algorithms on sequences
//---------------------------------------------------------------------------//
struct Keyed
{
    int key;
    int id;
};

//! Predicate used by ORANGE to partition valid from invalid distances (copied semantics:
//! orange/univ/detail/Utils.hh IsFinite: distance < max)
struct IsFiniteRef
{
    bool operator()(double d) const { return d < std::numeric_limits<double>::max(); }
};

template<class CidF>
static void check_sequence(vf::Run& R, std::vector<int> const& letters, int alphabet, CidF cid)
{
    int const n = int(letters.size());
    // values are 2*letter so that odd numbers fall between elements
    std::vector<int> s(n);
    for (int i = 0; i < n; ++i)
        s[i] = 2 * letters[i];

    // structural class (for distinct_nontrivial): length, inversions, distinct letters,
    // position of the first minimum, first and last letter
    int inversions = 0, distinct = 0;
    {
        unsigned seen = 0;
        for (int i = 0; i < n; ++i)
        {
            if (!(seen & (1u << letters[i])))
            {
                seen |= 1u << letters[i];
                ++distinct;
            }
            for (int j = i + 1; j < n; ++j)
                inversions += letters[i] > letters[j];
        }
    }
    bool const nondecr = std::is_sorted(s.begin(), s.end());
    bool const nonincr = std::is_sorted(s.begin(), s.end(), std::greater<>{});
    if (n == 0)
        TAG("seq:len0");
    else if (n == 1)
        TAG("seq:len1");
    else if (n == 2)
        TAG("seq:len2");
    else if (n == 3)
        TAG("seq:len3 (one heap level)");
    else if (n < 8)
        TAG("seq:len4-7 (two heap levels)");
    else
        TAG("seq:len>=8 (three+ heap levels)");
    if (nondecr && n > 1)
        TAG("seq:already-sorted");
    if (nonincr && n > 1)
        TAG("seq:reverse-sorted");
    if (distinct < n)
        TAG("seq:has-duplicates");
    if (n > 1 && distinct == 1)
        TAG("seq:all-equal");
    if (!nondecr)
    {
        int argmin = int(std::min_element(s.begin(), s.end()) - s.begin());
        uint64_t h = vf::hash_mix(vf::hash_mix(n, inversions),
                                  vf::hash_mix(distinct * 64 + argmin,
                                               letters.front() * 64 + letters.back()));
        R.nontrivial(vf::hash_mix(h, alphabet == 0 ? 1 : 2));
    }

    //// sort ////
    {
        std::vector<int> ref = s;
        std::sort(ref.begin(), ref.end());
        // (a) default comparator (Less<>), vector iterators
        std::vector<int> a = s;
        celeritas::sort(a.begin(), a.end());
        if (a != ref)
            R.violation("sort:less", cid(),
                        fmt("sort(%s) -> %s, std::sort -> %s", seq_str(s).c_str(),
                            seq_str(a).c_str(), seq_str(ref).c_str()));
        // (a') explicit Less<int>, raw pointers (as in device code)
        a = s;
        celeritas::sort(a.data(), a.data() + n, Less<int>{});
        if (a != ref)
            R.violation("sort:less-ptr", cid(),
                        fmt("sort(%s, Less<int>) -> %s, std::sort -> %s", seq_str(s).c_str(),
                            seq_str(a).c_str(), seq_str(ref).c_str()));
        // (b) std::greater<> (used by the unit test)
        std::vector<int> refg = s;
        std::sort(refg.begin(), refg.end(), std::greater<>{});
        a = s;
        celeritas::sort(a.begin(), a.end(), std::greater<>{});
        if (a != refg)
            R.violation("sort:greater", cid(),
                        fmt("sort(%s, greater) -> %s, std::sort -> %s", seq_str(s).c_str(),
                            seq_str(a).c_str(), seq_str(refg).c_str()));
        // (c) the indirect comparator of SimpleUnitTracker::intersect: an index array sorted
        //     by distance[index]
        {
            size_type isect[20];
            real_type distance[20];
            for (int i = 0; i < n; ++i)
            {
                isect[i] = size_type(i);
                distance[i] = 0.5 * s[i] + 0.125;
            }
            celeritas::sort(isect, isect + n, [&distance](size_type a, size_type b) {
                return distance[a] < distance[b];
            });
            unsigned seen = 0;
            bool ok = true;
            for (int i = 0; i < n; ++i)
            {
                if (isect[i] >= size_type(n) || (seen & (1u << isect[i])))
                {
                    ok = false;
                    break;
                }
                seen |= 1u << isect[i];
                if (i > 0 && distance[isect[i - 1]] > distance[isect[i]])
                    ok = false;
                if (0.5 * ref[i] + 0.125 != distance[isect[i]])
                    ok = false;
            }
            if (!ok)
            {
                std::vector<int> got(isect, isect + n);
                R.violation("sort:indirect-distance", cid(),
                            fmt("index sort by distance, keys %s -> indices %s",
                                seq_str(s).c_str(), seq_str(got).c_str()));
            }
        }
        // (d) key/payload records compared by key only: result is a permutation, ordered
        {
            Keyed rec[20];
            for (int i = 0; i < n; ++i)
                rec[i] = {s[i], i};
            celeritas::sort(rec, rec + n,
                            [](Keyed const& a, Keyed const& b) { return a.key < b.key; });
            unsigned seen = 0;
            bool ok = true;
            for (int i = 0; i < n && ok; ++i)
            {
                ok = rec[i].id >= 0 && rec[i].id < n && !(seen & (1u << rec[i].id))
                     && rec[i].key == s[rec[i].id] && rec[i].key == ref[i];
                if (ok)
                    seen |= 1u << rec[i].id;
            }
            if (!ok)
                R.violation("sort:keyed-records", cid(),
                            fmt("records keyed %s are not a sorted permutation after sort",
                                seq_str(s).c_str()));
        }
        R.count("evaluations", 5);
    }

    //// partition ////
    {
        // threshold predicates: x < t for every t that splits the alphabet
        for (int t = 0; t <= 2 * (alphabet ? alphabet : n); t += 2)
        {
            auto pred = [t](int x) { return x < t; };
            std::vector<int> a = s;
            auto it = celeritas::partition(a.begin(), a.end(), pred);
            int got = int(it - a.begin());
            int want = int(std::count_if(s.begin(), s.end(), pred));
            bool ok = got == want && std::all_of(a.begin(), a.begin() + std::min(std::max(got, 0), n), pred)
                      && std::none_of(a.begin() + std::min(std::max(got, 0), n), a.end(), pred)
                      && std::is_permutation(a.begin(), a.end(), s.begin());
            if (!ok)
                R.violation("partition:threshold", cid(),
                            fmt("partition(%s, x<%d) -> %s split at %d (expected %d true first)",
                                seq_str(s).c_str(), t, seq_str(a).c_str(), got, want));
            if (want == 0)
                TAG("partition:none-true");
            else if (want == n)
                TAG("partition:all-true");
            else if (std::is_partitioned(s.begin(), s.end(), pred))
                TAG("partition:already-partitioned");
            else
                TAG("partition:needs-swaps");
            R.count("evaluations");
        }
        // IsFinite on distances (letters >= 2 map to max() / inf = "invalid")
        {
            double d[20], orig[20];
            for (int i = 0; i < n; ++i)
            {
                int l = letters[i] % 4;
                orig[i] = d[i] = l == 0   ? 0.5
                                 : l == 1 ? 2.0 + i
                                 : l == 2 ? std::numeric_limits<double>::max()
                                          : std::numeric_limits<double>::infinity();
            }
            IsFiniteRef pred;
            double* it = celeritas::partition(d, d + n, pred);
            int got = int(it - d);
            int want = int(std::count_if(orig, orig + n, pred));
            bool ok = got == want && std::all_of(d, d + std::min(std::max(got, 0), n), pred)
                      && std::none_of(d + std::min(std::max(got, 0), n), d + n, pred)
                      && std::is_permutation(d, d + n, orig);
            if (!ok)
                R.violation("partition:isfinite", cid(),
                            fmt("partition(distances of %s, IsFinite) split at %d, expected %d",
                                seq_str(letters).c_str(), got, want));
            R.count("evaluations");
        }
    }

    //// min_element ////
    {
        auto want = std::min_element(s.begin(), s.end()) - s.begin();
        auto got = celeritas::min_element(s.begin(), s.end()) - s.begin();
        auto got2 = celeritas::min_element(s.data(), s.data() + n, Less<int>{}) - s.data();
        auto wantg = std::min_element(s.begin(), s.end(), std::greater<int>()) - s.begin();
        auto gotg = celeritas::min_element(s.begin(), s.end(), std::greater<int>()) - s.begin();
        real_type distance[20];
        for (int i = 0; i < n; ++i)
            distance[i] = 0.5 * s[i] + 0.125;
        auto gotd = celeritas::min_element(distance, distance + n, Less<real_type>{}) - distance;
        if (got != want || got2 != want || gotd != want)
            R.violation("min_element:less", cid(),
                        fmt("min_element(%s) -> %ld/%ld/%ld, std -> %ld", seq_str(s).c_str(),
                            long(got), long(got2), long(gotd), long(want)));
        if (gotg != wantg)
            R.violation("min_element:greater", cid(),
                        fmt("min_element(%s, greater) -> %ld, std -> %ld", seq_str(s).c_str(),
                            long(gotg), long(wantg)));
        if (n > 1 && std::count(s.begin(), s.end(), s[want]) > 1)
            TAG("min_element:tie (first wins)");
        R.count("evaluations", 4);
    }

    //// all_of / any_of / all_adjacent ////
    {
        for (int t = 0; t <= 2 * (alphabet ? alphabet : n); t += 2)
        {
            auto pred = [t](int x) { return x < t; };
            bool a = celeritas::all_of(s.begin(), s.end(), pred);
            bool o = celeritas::any_of(s.begin(), s.end(), pred);
            if (a != std::all_of(s.begin(), s.end(), pred))
                R.violation("all_of", cid(),
                            fmt("all_of(%s, x<%d) -> %d", seq_str(s).c_str(), t, int(a)));
            if (o != std::any_of(s.begin(), s.end(), pred))
                R.violation("any_of", cid(),
                            fmt("any_of(%s, x<%d) -> %d", seq_str(s).c_str(), t, int(o)));
            R.count("evaluations", 2);
        }
        // comparators of corecel/grid/VectorUtils.hh (is_monotonic_increasing / nondecreasing)
        std::vector<int> m = s;
        bool inc = celeritas::all_adjacent(m.begin(), m.end(),
                                           [](int& l, int& r) { return l < r; });
        bool nd = celeritas::all_adjacent(m.begin(), m.end(),
                                          [](int& l, int& r) { return l <= r; });
        bool winc = std::adjacent_find(s.begin(), s.end(), std::greater_equal<>{}) == s.end();
        bool wnd = std::adjacent_find(s.begin(), s.end(), std::greater<>{}) == s.end();
        if (inc != winc)
            R.violation("all_adjacent:strict", cid(),
                        fmt("all_adjacent(%s, <) -> %d", seq_str(s).c_str(), int(inc)));
        if (nd != wnd)
            R.violation("all_adjacent:nondecreasing", cid(),
                        fmt("all_adjacent(%s, <=) -> %d", seq_str(s).c_str(), int(nd)));
        if (m != s)
            R.violation("all_adjacent:modifies", cid(), "all_adjacent changed the sequence");
        R.count("evaluations", 2);
    }

    //// searches on sequences that happen to be sorted ////
    if (nondecr || nonincr)
    {
        int hi = 2 * (alphabet ? alphabet : n);
        for (int q = -1; q <= hi; ++q)
        {
            if (nondecr)
            {
                auto wl = std::lower_bound(s.begin(), s.end(), q) - s.begin();
                auto wu = std::upper_bound(s.begin(), s.end(), q) - s.begin();
                auto gl = celeritas::lower_bound(s.begin(), s.end(), q) - s.begin();
                auto gu = celeritas::upper_bound(s.begin(), s.end(), q) - s.begin();
                auto gll = celeritas::lower_bound_linear(s.begin(), s.end(), q) - s.begin();
                auto gf = celeritas::find_sorted(s.begin(), s.end(), q) - s.begin();
                long wf = (wl < n && s[wl] == q) ? wl : n;
                if (gl != wl)
                    R.violation("lower_bound:less", cid(),
                                fmt("lower_bound(%s, %d) -> %ld, std -> %ld", seq_str(s).c_str(),
                                    q, long(gl), long(wl)));
                if (gu != wu)
                    R.violation("upper_bound:less", cid(),
                                fmt("upper_bound(%s, %d) -> %ld, std -> %ld", seq_str(s).c_str(),
                                    q, long(gu), long(wu)));
                if (gll != wl)
                    R.violation("lower_bound_linear:less", cid(),
                                fmt("lower_bound_linear(%s, %d) -> %ld, std -> %ld",
                                    seq_str(s).c_str(), q, long(gll), long(wl)));
                if (gf != wf)
                    R.violation("find_sorted:less", cid(),
                                fmt("find_sorted(%s, %d) -> %ld, expected %ld", seq_str(s).c_str(),
                                    q, long(gf), long(wf)));
                R.count("evaluations", 4);
            }
            if (nonincr)
            {
                std::greater<> g;
                auto wl = std::lower_bound(s.begin(), s.end(), q, g) - s.begin();
                auto wu = std::upper_bound(s.begin(), s.end(), q, g) - s.begin();
                auto gl = celeritas::lower_bound(s.begin(), s.end(), q, g) - s.begin();
                auto gu = celeritas::upper_bound(s.begin(), s.end(), q, g) - s.begin();
                auto gll = celeritas::lower_bound_linear(s.begin(), s.end(), q, g) - s.begin();
                auto gf = celeritas::find_sorted(s.begin(), s.end(), q, g) - s.begin();
                long wf = (wl < n && s[wl] == q) ? wl : n;
                if (gl != wl || gll != wl)
                    R.violation("lower_bound:greater", cid(),
                                fmt("lower_bound[_linear](%s, %d, greater) -> %ld/%ld, std -> %ld",
                                    seq_str(s).c_str(), q, long(gl), long(gll), long(wl)));
                if (gu != wu)
                    R.violation("upper_bound:greater", cid(),
                                fmt("upper_bound(%s, %d, greater) -> %ld, std -> %ld",
                                    seq_str(s).c_str(), q, long(gu), long(wu)));
                if (gf != wf)
                    R.violation("find_sorted:greater", cid(),
                                fmt("find_sorted(%s, %d, greater) -> %ld, expected %ld",
                                    seq_str(s).c_str(), q, long(gf), long(wf)));
                R.count("evaluations", 4);
            }
        }
    }
}

//---------------------------------------------------------------------------//
// searches with the comparators / element types of the call sites, on a sorted sequence
template<class CidF>
static void check_sorted(vf::Run& R, std::vector<int> const& letters, int alphabet, CidF cid)
{
    int const n = int(letters.size());
    std::vector<int> s(n);
    for (int i = 0; i < n; ++i)
        s[i] = 2 * letters[i] + 2;  // >= 2, so that unsigned / id queries 1.. are valid
    int const hi = 2 * alphabet + 3;

    if (n == 0)
        TAG("sorted:empty");
    if (std::adjacent_find(s.begin(), s.end()) != s.end())
        TAG("sorted:with-duplicates");
    else if (n > 0)
        TAG("sorted:strict");
    {
        int runs = n ? 1 : 0;
        for (int i = 1; i < n; ++i)
            runs += s[i] != s[i - 1];
        R.nontrivial(vf::hash_mix(vf::hash_mix(n, runs), n ? s.front() * 64 + s.back() : 0));
    }

    // element types used in the code base
    std::vector<LocalSurfaceId> ids(n);  // VolumeView::find_face, PostfixLogicBuilder
    std::vector<size_type> offs(n);  // UniverseIndexer::find_local, OpticalUtils
    std::vector<real_type> reals(n);  // GridIdFinder
    // NonuniformGrid: iterators are range_iter<ItemId>, comparator looks into the storage
    Collection<real_type, Ownership::value, MemSpace::host> store;
    std::vector<real_type> pad = {1e300, -1e300, 7};
    auto build = make_builder(&store);
    build.insert_back(pad.begin(), pad.end());
    for (int i = 0; i < n; ++i)
    {
        ids[i] = LocalSurfaceId(s[i]);
        offs[i] = size_type(s[i]);
        reals[i] = 0.25 * s[i];
    }
    ItemRange<real_type> irange = build.insert_back(reals.begin(), reals.end());
    std::vector<real_type> tail = {1e300, std::numeric_limits<double>::quiet_NaN()};
    build.insert_back(tail.begin(), tail.end());
    Collection<real_type, Ownership::const_reference, MemSpace::host> ref;
    ref = store;

    for (int q = 1; q <= hi; ++q)
    {
        long wl = std::lower_bound(s.begin(), s.end(), q) - s.begin();
        long wu = std::upper_bound(s.begin(), s.end(), q) - s.begin();
        long wf = (wl < n && s[wl] == q) ? wl : n;
        if (wl == 0)
            TAG("search:before-front");
        else if (wl == n)
            TAG("search:past-back");
        else if (wf != n)
            TAG("search:hit");
        else
            TAG("search:between");

        // ints, explicit Less<int>
        {
            long gl = celeritas::lower_bound(s.data(), s.data() + n, q, Less<int>{}) - s.data();
            long gu = celeritas::upper_bound(s.data(), s.data() + n, q, Less<int>{}) - s.data();
            long gll = celeritas::lower_bound_linear(s.data(), s.data() + n, q, Less<int>{})
                       - s.data();
            long gf = celeritas::find_sorted(s.data(), s.data() + n, q, Less<int>{}) - s.data();
            if (gl != wl || gu != wu || gll != wl || gf != wf)
                R.violation("search:int-less", cid(),
                            fmt("on %s q=%d: lower %ld upper %ld linear %ld find %ld; std: %ld %ld "
                                "%ld %ld",
                                seq_str(s).c_str(), q, gl, gu, gll, gf, wl, wu, wl, wf));
        }
        // OpaqueId, default comparator
        {
            LocalSurfaceId qi(q);
            long gl = celeritas::lower_bound(ids.begin(), ids.end(), qi) - ids.begin();
            long gu = celeritas::upper_bound(ids.begin(), ids.end(), qi) - ids.begin();
            long gll = celeritas::lower_bound_linear(ids.begin(), ids.end(), qi) - ids.begin();
            long gf = celeritas::find_sorted(ids.begin(), ids.end(), qi) - ids.begin();
            if (gl != wl || gu != wu || gll != wl || gf != wf)
                R.violation("search:opaque-id", cid(),
                            fmt("on ids %s q=%d: lower %ld upper %ld linear %ld find %ld; std: %ld "
                                "%ld %ld %ld",
                                seq_str(s).c_str(), q, gl, gu, gll, gf, wl, wu, wl, wf));
        }
        // size_type offsets through a Span (UniverseIndexer uses upper_bound - 1)
        {
            Span<size_type const> sp(offs.data(), offs.size());
            long gl = celeritas::lower_bound(sp.begin(), sp.end(), size_type(q)) - sp.begin();
            long gu = celeritas::upper_bound(sp.begin(), sp.end(), size_type(q)) - sp.begin();
            if (gl != wl || gu != wu)
                R.violation("search:size_type-span", cid(),
                            fmt("on offsets %s q=%d: lower %ld upper %ld; std: %ld %ld",
                                seq_str(s).c_str(), q, gl, gu, wl, wu));
        }
        // reals
        {
            real_type qr = 0.25 * q;
            long gl = celeritas::lower_bound(reals.begin(), reals.end(), qr) - reals.begin();
            long gu = celeritas::upper_bound(reals.begin(), reals.end(), qr) - reals.begin();
            if (gl != wl || gu != wu)
                R.violation("search:real", cid(),
                            fmt("on reals 0.25*%s q=%g: lower %ld upper %ld; std: %ld %ld",
                                seq_str(s).c_str(), qr, gl, gu, wl, wu));
            // heterogeneous comparator over id iterators (NonuniformGrid::find)
            using ItemIdT = ItemId<real_type>;
            auto it = celeritas::lower_bound(
                irange.begin(), irange.end(), qr,
                [&v = ref](ItemIdT i, real_type value) { return v[i] < value; });
            long gi = it - irange.begin();
            auto itl = celeritas::lower_bound_linear(
                irange.begin(), irange.end(), qr,
                [&v = ref](ItemIdT i, real_type value) { return v[i] < value; });
            long gil = itl - irange.begin();
            if (gi != wl || gil != wl)
                R.violation("search:indirect-storage", cid(),
                            fmt("lower_bound over ItemId range into storage 0.25*%s q=%g -> "
                                "%ld/%ld, std -> %ld",
                                seq_str(s).c_str(), qr, gi, gil, wl));
        }
        R.count("evaluations", 13);
    }
}

//---------------------------------------------------------------------------//
static void part_sequences(vf::Run& R)
{
    bool const thorough = R.thorough();
    uint64_t g = 0;  // global index for sharding
    std::string block_id;

    auto run_family = [&](char const* kind, int alphabet, int maxlen, auto&& decode,
                          auto&& count_of, auto&& checker) {
        for (int n = 0; n <= maxlen; ++n)
        {
            uint64_t total = count_of(n);
            for (uint64_t idx = 0; idx < total; ++idx, ++g)
            {
                if (!R.mine(g))
                    continue;
                if ((g & 0xfff) == 0 && R.expired())
                    return;
                auto cid = [&] {
                    return alphabet ? fmt("%s:alphabet=%d,len=%d,idx=%llu", kind, alphabet, n,
                                          (unsigned long long)idx)
                                    : fmt("%s:len=%d,idx=%llu", kind, n, (unsigned long long)idx);
                };
                if (R.replay() && cid() != R.replay_case())
                    continue;
                std::vector<int> letters = decode(n, idx);
                R.begin_case(cid(), 30);
                checker(R, letters, alphabet, cid);
                R.end_case();
                if (R.replay())
                    fprintf(stderr, "replayed %s letters %s\n", cid().c_str(),
                            seq_str(letters).c_str());
            }
        }
    };

    auto seq_decode = [](int alphabet) {
        return [alphabet](int n, uint64_t idx) {
            std::vector<int> v(n);
            for (int i = 0; i < n; ++i)
            {
                v[i] = int(idx % alphabet);
                idx /= alphabet;
            }
            return v;
        };
    };
    auto seq_count = [](int alphabet) {
        return [alphabet](int n) {
            uint64_t c = 1;
            for (int i = 0; i < n; ++i)
                c *= alphabet;
            return c;
        };
    };
    auto seq_checker = [](vf::Run& R, std::vector<int> const& l, int a, auto cid) {
        check_sequence(R, l, a, cid);
    };

    // every sequence over small alphabets
    run_family("seq", 4, thorough ? 11 : 8, seq_decode(4), seq_count(4), seq_checker);
    run_family("seq", 3, thorough ? 13 : 9, seq_decode(3), seq_count(3), seq_checker);
    run_family("seq", 2, thorough ? 18 : 12, seq_decode(2), seq_count(2), seq_checker);

    // every permutation (alphabet==0 marks "letters are 0..n-1")
    auto perm_decode = [](int n, uint64_t idx) {
        std::vector<int> pool(n), v;
        std::iota(pool.begin(), pool.end(), 0);
        for (int i = n; i >= 1; --i)
        {
            uint64_t f = 1;
            for (int k = 2; k < i; ++k)
                f *= k;  // (i-1)!
            int pos = int(idx / f);
            idx %= f;
            v.push_back(pool[pos]);
            pool.erase(pool.begin() + pos);
        }
        return v;
    };
    auto perm_count = [](int n) {
        uint64_t f = 1;
        for (int k = 2; k <= n; ++k)
            f *= k;
        return f;
    };
    run_family("perm", 0, thorough ? 11 : 8, perm_decode, perm_count, seq_checker);

    // every non-decreasing sequence over K letters: rank -> multiset by enumeration
    for (int K : {thorough ? 8 : 6})
    {
        int maxlen = thorough ? 12 : 9;
        for (int n = 0; n <= maxlen; ++n)
        {
            std::vector<int> cur(n, 0);
            uint64_t idx = 0;
            bool done = false;
            while (!done)
            {
                if (R.mine(g))
                {
                    auto cid = [&] {
                        return fmt("sorted:alphabet=%d,len=%d,idx=%llu", K, n,
                                   (unsigned long long)idx);
                    };
                    if (!R.replay() || cid() == R.replay_case())
                    {
                        R.begin_case(cid(), 30);
                        check_sorted(R, cur, K, cid);
                        R.end_case();
                    }
                }
                ++g;
                ++idx;
                // next non-decreasing sequence in lexicographic order
                int p = n - 1;
                while (p >= 0 && cur[p] == K - 1)
                    --p;
                if (p < 0)
                    done = true;
                else
                {
                    int v = cur[p] + 1;
                    for (int k = p; k < n; ++k)
                        cur[k] = v;
                }
            }
            if (R.expired())
                return;
        }
    }
    R.sample("seq:alphabet=4,len=6,idx=1234 -> letters [2,0,1,3,0,1] (values 2*letter): sort x4 "
             "comparators, partition x6 predicates, min_element x4, all_of/any_of, all_adjacent");
    R.sample("perm:len=8,idx=40319 -> [7,6,5,4,3,2,1,0]");
    R.sample("sorted:alphabet=6,len=5,idx=17: lower/upper/linear/find_sorted on int, OpaqueId, "
             "size_type Span, real, and ItemId-range-into-storage (NonuniformGrid comparator)");
}

//---------------------------------------------------------------------------//
// PART B: Range / Count / step
//---------------------------------------------------------------------------//
enum class Color : unsigned int
{
    c0,
    c1,
    c2,
    c3,
    c4,
    c5,
    size_
};
using TestId = OpaqueId<struct C18Tag_, unsigned int>;
using TestId64 = OpaqueId<struct C18Tag64_, std::size_t>;

template<class T>
struct RangeConv
{
    static long long to_ll(T v) { return static_cast<long long>(v); }
    static T from_ll(long long v) { return static_cast<T>(v); }
};
template<class V, class S>
struct RangeConv<OpaqueId<V, S>>
{
    static long long to_ll(OpaqueId<V, S> v) { return static_cast<long long>(v.unchecked_get()); }
    static OpaqueId<V, S> from_ll(long long v) { return OpaqueId<V, S>(static_cast<S>(v)); }
};

static std::string ll_str(std::vector<long long> const& s)
{
    std::string o = "[";
    for (size_t i = 0; i < s.size(); ++i)
        o += (i ? "," : "") + std::to_string(s[i]);
    return o + "]";
}

//! Collect at most cap values from an iterable (cap guards non-termination)
template<class T, class Iterable>
static std::vector<long long> collect(Iterable&& r, size_t cap)
{
    std::vector<long long> out;
    for (auto v : r)
    {
        if (out.size() >= cap)
        {
            out.push_back(LLONG_MIN);  // marker: did not terminate within the cap
            break;
        }
        out.push_back(RangeConv<T>::to_ll(v));
    }
    return out;
}

//! value of any range element type as long long
template<class V>
static long long any_ll(V v)
{
    return RangeConv<V>::to_ll(v);
}

// (b,e) run over the cube [lo,hi]^2; steps over [slo,shi] (default: the same interval for signed
// types, [1,hi] for unsigned ones; slo > shi = no stepped ranges, used where begin/end sit at the
// very top of the type and a step past `end` would overflow).  The SHIFTED cubes (tname "T@base")
// put begin/end next to 2^31, 2^32 or the top of the type, where a 32-bit (or otherwise too
// narrow) difference_type / temporary inside the iterators is no longer the identity.
template<class T, bool Signed>
static void check_range_type(vf::Run& R, char const* tname, long long lo, long long hi,
                             long long slo = LLONG_MIN, long long shi = LLONG_MIN)
{
    std::string cid = fmt("range:T=%s", tname);
    if (!R.want(cid))
        return;
    R.begin_case(cid, 60);
    using C = RangeConv<T>;
    if (slo == LLONG_MIN)
    {
        slo = Signed ? lo : 1;
        shi = hi;
    }
    size_t const cap = size_t(hi - lo) + 8;
    for (long long b = lo; b <= hi; ++b)
        for (long long e = lo; e <= hi; ++e)
        {
            if (b > e)
            {
                TAG("range:skipped begin>end (outside precondition)");
                continue;
            }
            Range<T> r = range(C::from_ll(b), C::from_ll(e));
            std::vector<long long> want;
            for (long long v = b; v < e; ++v)
                want.push_back(v);
            auto got = collect<T>(r, cap);
            bool ok = got == want && (long long)r.size() == e - b && r.empty() == (b == e)
                      && (r.end() - r.begin()) == e - b && C::to_ll(*r.end()) == e;
            if (b < e)
            {
                ok = ok && C::to_ll(r.front()) == b && C::to_ll(r.back()) == e - 1;
                for (long long i = 0; i < e - b && ok; ++i)
                    ok = C::to_ll(r[i]) == b + i && C::to_ll(*(r.begin() + i)) == b + i
                         && C::to_ll(*(r.end() - (i + 1))) == e - 1 - i;
                TAG("range:nonempty");
            }
            else
                TAG("range:empty");
            if (!ok)
                R.violation("range:iterate", cid,
                            fmt("range<%s>(%lld,%lld) -> %s size %lld", tname, b, e,
                                ll_str(got).c_str(), (long long)r.size()));
            R.count("evaluations");
            R.nontrivial(vf::hash_mix(vf::hash_str(tname), vf::hash_mix(b - lo, e - lo)));
            // iterator operators that range-for never uses: postfix --/++ (must return the OLD
            // position), prefix -- (returns *this), iterator operator[] / operator->, cbegin/cend
            {
                using SZ = typename Range<T>::size_type;
                bool okb = r.cbegin() == r.begin() && r.cend() == r.end()
                           && C::to_ll(*r.cbegin()) == b && C::to_ll(*r.cend()) == e
                           && C::to_ll(*(r.begin().operator->())) == b;
                {
                    auto it = r.end();
                    long long v = e;
                    while (it != r.begin() && v >= b)
                    {
                        auto old = it--;
                        okb = okb && C::to_ll(*old) == v && C::to_ll(*it) == v - 1;
                        --v;
                    }
                    okb = okb && v == b && it == r.begin();
                }
                {
                    auto it = r.end();
                    long long v = e;
                    while (it != r.begin() && v >= b)
                    {
                        auto& ref = --it;
                        --v;
                        okb = okb && &ref == &it && C::to_ll(*it) == v;
                    }
                    okb = okb && v == b;
                }
                {
                    auto it = r.begin();
                    long long v = b;
                    while (it != r.end() && v <= e)
                    {
                        auto old = it++;
                        okb = okb && C::to_ll(*old) == v && C::to_ll(*it) == v + 1;
                        ++v;
                    }
                    okb = okb && v == e && it == r.end();
                }
                // *end() may be dereferenced (documented), so [size] is the end value
                for (long long i = 0; i <= e - b && okb; ++i)
                    okb = C::to_ll(r.begin()[static_cast<SZ>(i)]) == b + i;
                TAG("range:iterator-operators");
                if (!okb)
                    R.violation("range:iterator-operators", cid,
                                fmt("range<%s>(%lld,%lld): postfix/prefix decrement, postfix "
                                    "increment, iterator operator[], operator-> or cbegin/cend "
                                    "disagree with the counting reference",
                                    tname, b, e));
                R.count("evaluations");
            }
            if (b == 0)
            {
                // one-argument form starts at the type's zero
                auto got0 = collect<T>(range(C::from_ll(e)), cap);
                if (got0 != want)
                    R.violation("range:from-zero", cid,
                                fmt("range<%s>(%lld) -> %s", tname, e, ll_str(got0).c_str()));
                R.count("evaluations");
            }
            // stepped
            for (long long s = slo; s <= shi; ++s)
            {
                if (s == 0)
                    continue;  // never terminates: outside any sensible precondition
                std::vector<long long> gots;
                if constexpr (Signed)
                    gots = collect<T>(r.step(static_cast<int>(s)), cap);
                else
                    gots = collect<T>(r.step(static_cast<unsigned int>(s)), cap);
                // postfix ++ of the stepped iterator == (copy, prefix ++): same visiting
                // sequence as range-for, returns the old position, advances by the step.
                // (step_range_iter::operator+ cannot be checked: it does not compile, see
                // proposed_findings/C18.json)
                {
                    auto walk = [&](auto sr) {
                        std::vector<long long> seq;
                        bool okp = true;
                        auto it = sr.begin();
                        while (it != sr.end() && seq.size() < cap)
                        {
                            auto old = it++;
                            seq.push_back(any_ll(*old));
                            okp = okp && any_ll(*it) == seq.back() + s;
                        }
                        return okp && seq == gots;
                    };
                    bool okp;
                    if constexpr (Signed)
                        okp = walk(r.step(static_cast<int>(s)));
                    else
                        okp = walk(r.step(static_cast<unsigned int>(s)));
                    if (!okp && (gots.empty() || gots.back() != LLONG_MIN))
                        R.violation("range:step-postfix-increment", cid,
                                    fmt("range<%s>(%lld,%lld).step(%lld): walking with it++ does not "
                                        "return the old position / advance by the step / visit %s",
                                        tname, b, e, s, ll_str(gots).c_str()));
                    R.count("evaluations");
                }
                std::vector<long long> wants;
                if (s > 0)
                {
                    for (long long v = b; v < e; v += s)
                        wants.push_back(v);
                    TAG("step:forward");
                    if (gots != wants)
                        R.violation("range:step-forward", cid,
                                    fmt("range<%s>(%lld,%lld).step(%lld) -> %s expected %s", tname,
                                        b, e, s, ll_str(gots).c_str(), ll_str(wants).c_str()));
                }
                else if ((e - b) % (-s) == 0)
                {
                    // documented by the unit test: range(6).step(-2) == {4,2,0} == reverse of the
                    // forward stepped range
                    for (long long v = b; v < e; v += -s)
                        wants.push_back(v);
                    std::reverse(wants.begin(), wants.end());
                    TAG("step:backward-divisible");
                    if (gots != wants)
                        R.violation("range:step-backward", cid,
                                    fmt("range<%s>(%lld,%lld).step(%lld) -> %s expected %s", tname,
                                        b, e, s, ll_str(gots).c_str(), ll_str(wants).c_str()));
                }
                else
                {
                    // semantics not documented (end+step, end+2step, ... >= begin is what the code
                    // does; the reverse of the forward range would differ): weak claims only
                    bool okw = gots.size() <= size_t(e - b);
                    for (size_t i = 0; i < gots.size() && okw; ++i)
                        okw = gots[i] >= b && gots[i] < e && (i == 0 || gots[i] == gots[i - 1] + s);
                    TAG("step:backward-nondivisible (weak)");
                    if (!okw)
                        R.violation("range:step-backward-weak", cid,
                                    fmt("range<%s>(%lld,%lld).step(%lld) -> %s leaves the range or "
                                        "is not evenly spaced",
                                        tname, b, e, s, ll_str(gots).c_str()));
                }
                R.count("evaluations");
            }
        }
    R.end_case();
}

// WIDE ranges (no iteration): end - begin itself is >= 2^31 resp. 2^32, so a difference or
// offset that passes through a 32-bit type inside Range / range_iter is truncated (for the
// shifted cubes above a truncated difference is still right modulo 2^32).
// with_diff = false for 32-bit unsigned counters: their difference_type (int) cannot represent
// such a distance, so `end - begin` is outside any sensible precondition there.
template<class T>
static void check_range_wide(vf::Run& R, char const* tname, unsigned long long width, bool with_diff)
{
    std::string cid = fmt("range-wide:T=%s,w=%llu", tname, width);
    if (!R.want(cid))
        return;
    R.begin_case(cid, 60);
    using C = RangeConv<T>;
    using SZ = typename Range<T>::size_type;
    using DT = typename Range<T>::const_iterator::difference_type;
    bool const is_signed = std::is_signed<DT>::value && !std::is_unsigned<SZ>::value;
    for (long long b = (is_signed ? -3 : 0); b <= 3; ++b)
        for (long long j = 0; j <= 3; ++j)
        {
            unsigned long long const n = width + (unsigned long long)j;  // size
            long long const e = b + (long long)n;
            Range<T> r = range(C::from_ll(b), C::from_ll(e));
            auto ull = [](T v) { return (unsigned long long)C::to_ll(v); };
            auto mask = [](unsigned long long v) { return (unsigned long long)(SZ)v; };
            bool ok = (unsigned long long)r.size() == n && !r.empty() && ull(r.front()) == mask(b)
                      && ull(r.back()) == mask(e - 1) && ull(*r.end()) == mask(e);
            if (with_diff)
                ok = ok && (long long)(r.end() - r.begin()) == (long long)n
                     && (long long)(r.begin() - r.end()) == -(long long)n;
            for (unsigned long long i : {0ull, 1ull, n / 2, n - 2, n - 1})
            {
                ok = ok && ull(r[(SZ)i]) == mask(b + (long long)i)
                     && ull(r.begin()[(SZ)i]) == mask(b + (long long)i);
                if (with_diff)
                    ok = ok && ull(*(r.begin() + (DT)i)) == mask(b + (long long)i)
                         && ull(*(r.end() - (DT)(i + 1))) == mask(e - 1 - (long long)i);
            }
            if (with_diff)
            {
                // (d2) binary searches over the wide range itself (len >= 2^31: half_positive and
                // the difference_type arithmetic of lower/upper_bound_impl); the comparator
                // counts its calls and aborts a degenerate (quasi-linear) search
                struct TooMany
                {
                };
                int calls = 0;
                auto cmp = [&calls](T const& x, T const& y) {
                    if (++calls > 128)
                        throw TooMany{};
                    return C::to_ll(x) < C::to_ll(y);
                };
                bool sok = true;
                try
                {
                    for (unsigned long long i : {0ull, 1ull, n / 2, n - 2, n - 1})
                    {
                        T const v = C::from_ll(b + (long long)i);
                        calls = 0;
                        auto lb = celeritas::lower_bound(r.begin(), r.end(), v, cmp);
                        sok = sok && (long long)(lb - r.begin()) == (long long)i
                              && C::to_ll(*lb) == b + (long long)i;
                        calls = 0;
                        auto ub = celeritas::upper_bound(r.begin(), r.end(), v, cmp);
                        sok = sok && (long long)(ub - r.begin()) == (long long)i + 1;
                        calls = 0;
                        auto fs = celeritas::find_sorted(r.begin(), r.end(), v, cmp);
                        sok = sok && fs == lb;
                        R.count("evaluations", 3);
                    }
                    // past the back / before the front
                    calls = 0;
                    sok = sok
                          && celeritas::lower_bound(r.begin(), r.end(), C::from_ll(e), cmp) == r.end();
                    calls = 0;
                    sok = sok
                          && celeritas::upper_bound(r.begin(), r.end(), C::from_ll(e - 1), cmp)
                                 == r.end();
                    calls = 0;
                    sok = sok
                          && celeritas::find_sorted(r.begin(), r.end(), C::from_ll(e), cmp) == r.end();
                }
                catch (TooMany const&)
                {
                    sok = false;
                }
                TAG("range:wide-search");
                if (!sok)
                    R.violation("range:wide-search", cid,
                                fmt("range<%s>(%lld,%lld): lower_bound / upper_bound / find_sorted on "
                                    "the range of %llu elements is wrong or needs > 128 comparisons",
                                    tname, b, e, n));
            }
            TAG("range:wide");
            if (!ok)
                R.violation("range:wide", cid,
                            fmt("range<%s>(%lld,%lld): size %llu (expected %llu), back %llu, "
                                "end-begin / operator[] / iterator +- at offsets near the size "
                                "disagree with exact arithmetic",
                                tname, b, e, (unsigned long long)r.size(), n, ull(r.back())));
            R.count("evaluations");
            R.nontrivial(vf::hash_mix(vf::hash_str(cid), vf::hash_mix(b + 3, j)));
        }
    R.end_case();
}

template<class T>
static void check_count_type(vf::Run& R, char const* tname, long long lo, long long hi)
{
    std::string cid = fmt("count:T=%s", tname);
    if (!R.want(cid))
        return;
    R.begin_case(cid, 60);
    bool const is_signed = std::is_signed<T>::value;
    for (long long b = lo; b <= hi; ++b)
    {
        {
            std::vector<long long> got;
            for (auto v : count(T(b)))
            {
                if (got.size() == 6)
                    break;
                got.push_back((long long)v);
            }
            bool ok = got.size() == 6 && !count(T(b)).empty();
            for (size_t i = 0; i < got.size() && ok; ++i)
                ok = got[i] == b + (long long)i;
            if (!ok)
                R.violation("count:iterate", cid,
                            fmt("count<%s>(%lld) -> %s", tname, b, ll_str(got).c_str()));
            R.count("evaluations");
        }
        for (long long s = (is_signed ? lo : 0); s <= hi; ++s)
        {
            if (!is_signed && b + 5 * s < 0)
                continue;
            std::vector<long long> got;
            for (auto v : count(T(b)).step(T(s)))
            {
                if (got.size() == 6)
                    break;
                got.push_back((long long)v);
            }
            bool ok = got.size() == 6;
            for (size_t i = 0; i < got.size() && ok; ++i)
                ok = got[i] == b + (long long)i * s;
            if (!ok)
                R.violation("count:step", cid,
                            fmt("count<%s>(%lld).step(%lld) -> %s", tname, b, s,
                                ll_str(got).c_str()));
            if (s < 0)
                TAG("count:step-backward");
            else
                TAG("count:step-forward");
            R.count("evaluations");
            R.nontrivial(vf::hash_mix(vf::hash_str(tname), vf::hash_mix(1000 + b - lo, s - lo)));
        }
    }
    {
        std::vector<long long> got;
        for (auto v : count<T>())
        {
            if (got.size() == 4)
                break;
            got.push_back((long long)v);
        }
        if (got != std::vector<long long>{0, 1, 2, 3})
            R.violation("count:iterate", cid, fmt("count<%s>() -> %s", tname, ll_str(got).c_str()));
        R.count("evaluations");
    }
    R.end_case();
}

static void part_ranges(vf::Run& R)
{
    if (R.shard() != 0 && !R.replay())
        return;
    int const c = R.thorough() ? 6 : 4;
    check_range_type<int, true>(R, "int", -c, c);
    check_range_type<long long, true>(R, "longlong", -c, c);
    check_range_type<short, true>(R, "short", -c, c);
    check_range_type<signed char, true>(R, "schar", -c, c);
    check_range_type<unsigned int, false>(R, "uint", 0, 2 * c);
    check_range_type<std::size_t, false>(R, "size_t", 0, 2 * c);
    check_range_type<TestId, false>(R, "OpaqueId", 0, 2 * c);
    check_range_type<Color, false>(R, "enum", 0, (long long)Color::size_);
    // shifted cubes: begin/end straddle the sign bit of 32-bit counters, 2^31 and 2^32 for the
    // 64-bit ones, and sit at the top of the narrow types
    {
        long long const p31 = 1ll << 31, p32 = 1ll << 32;
        long long const w = 2 * c;
        check_range_type<unsigned int, false>(R, "uint@2^31", p31 - 3, p31 - 3 + w, 1, w);
        check_range_type<TestId, false>(R, "OpaqueId@2^31", p31 - 3, p31 - 3 + w, 1, w);
        check_range_type<std::size_t, false>(R, "size_t@2^31", p31 - 3, p31 - 3 + w, 1, w);
        check_range_type<std::size_t, false>(R, "size_t@2^32", p32 - 3, p32 - 3 + w, 1, w);
        check_range_type<TestId64, false>(R, "OpaqueId64", 0, w);
        check_range_type<TestId64, false>(R, "OpaqueId64@2^31", p31 - 3, p31 - 3 + w, 1, w);
        check_range_type<TestId64, false>(R, "OpaqueId64@2^32", p32 - 3, p32 - 3 + w, 1, w);
        check_range_type<long long, true>(R, "longlong@2^31", p31 - 3, p31 - 3 + w, -c, c);
        check_range_type<long long, true>(R, "longlong@2^32", p32 - 3, p32 - 3 + w, -c, c);
        check_range_type<long long, true>(R, "longlong@-2^31", -p31 - 3, -p31 - 3 + w, -c, c);
        // step(int) on Range<short>/<signed char> iterates in int (common_type): no overflow
        check_range_type<short, true>(R, "short@top", SHRT_MAX - w, SHRT_MAX, -c, c);
        check_range_type<signed char, true>(R, "schar@top", SCHAR_MAX - w, SCHAR_MAX, -c, c);
        // int at the top of the type: a step past `end` would overflow -> no stepped ranges
        check_range_type<int, true>(R, "int@top", (long long)INT_MAX - w, INT_MAX, 1, 0);
        check_range_type<unsigned int, false>(R, "uint@top", (long long)UINT_MAX - w, UINT_MAX, 1, 0);
        for (unsigned long long width : {1ull << 31, (1ull << 32) - 2, 1ull << 32, (1ull << 33) + 5})
        {
            check_range_wide<long long>(R, "longlong", width, true);
            check_range_wide<std::size_t>(R, "size_t", width, true);
            check_range_wide<TestId64>(R, "OpaqueId64", width, true);
        }
        check_range_wide<unsigned int>(R, "uint", 1ull << 31, false);
        check_range_wide<TestId>(R, "OpaqueId", 1ull << 31, false);
    }
    check_count_type<int>(R, "int", -c, c);
    check_count_type<long long>(R, "longlong", -c, c);
    check_count_type<unsigned int>(R, "uint", 0, 2 * c);
    R.sample("range:T=int all (begin<=end, step!=0) in [-4,4]^3: iteration list, size, empty, front, "
             "back, operator[], iterator +/-, step forward/backward");
}

//---------------------------------------------------------------------------//
// PART C: integer / scalar helpers over complete small domains
//---------------------------------------------------------------------------//
template<unsigned N>
static void check_ipow(vf::Run& R, std::string const& cid)
{
    // integers: exact (5^8 fits easily)
    for (int b = -5; b <= 5; ++b)
    {
        long long want = 1;
        for (unsigned k = 0; k < N; ++k)
            want *= b;
        long long got = ipow<N>((long long)b);
        int goti = ipow<N>(b);
        if (got != want || goti != int(want))
            R.violation("int:ipow", cid,
                        fmt("ipow<%u>(%d) -> %lld / %d, exact %lld", N, b, got, goti, want));
        R.count("evaluations", 2);
    }
    // dyadic rationals k/4, |k| <= 12: k^8 < 2^53 so every product is exact in double
    for (int k = -12; k <= 12; ++k)
    {
        double b = k / 4.0;
        long double want = 1;
        for (unsigned j = 0; j < N; ++j)
            want *= (long double)b;
        double got = ipow<N>(b);
        if ((long double)got != want)
            R.violation("int:ipow", cid,
                        fmt("ipow<%u>(%g) -> %.17g, exact %.17Lg", N, b, got, want));
        R.count("evaluations");
    }
    if (N == 0)
        TAG("ipow:N=0");
    else if (N % 2 == 0)
        TAG("ipow:even");
    else
        TAG("ipow:odd");
    R.nontrivial(vf::hash_mix(vf::hash_str("ipow"), N));
}

static void part_int_helpers(vf::Run& R)
{
    if (R.shard() != (1 % R.nshards()) && !R.replay())
        return;
    bool const thorough = R.thorough();
    std::string cid;

    cid = "int:ceil_div";
    if (R.want(cid))
    {
        R.begin_case(cid, 60);
        unsigned const M = thorough ? 300 : 96;
        auto check = [&](auto top, auto bottom) {
            using T = decltype(top);
            unsigned __int128 t = top, b = bottom;
            unsigned __int128 want = (t + b - 1) / b;  // exact: no overflow in 128 bits
            T got = ceil_div<T>(top, bottom);
            if ((unsigned __int128)got != want)
                R.violation("int:ceil_div", cid,
                            fmt("ceil_div(%llu,%llu) -> %llu, exact %llu", (unsigned long long)top,
                                (unsigned long long)bottom, (unsigned long long)got,
                                (unsigned long long)want));
            if (t % b)
                TAG("ceil_div:remainder");
            else
                TAG("ceil_div:exact");
            R.count("evaluations");
        };
        for (unsigned t = 0; t <= M; ++t)
            for (unsigned b = 1; b <= M; ++b)
            {
                check(t, b);
                check((unsigned long long)t, (unsigned long long)b);
                check((unsigned short)t, (unsigned short)b);
            }
        // near the top of the type, where (top + bottom - 1) would wrap
        for (unsigned k = 0; k < 40; ++k)
            for (unsigned b = 1; b <= 40; ++b)
            {
                check(UINT_MAX - k, b);
                check(UINT_MAX - k, UINT_MAX - b + 1);
                check(ULLONG_MAX - k, (unsigned long long)b);
                check((unsigned char)(255 - k), (unsigned char)b);
                TAG("ceil_div:near-type-max");
            }
        R.nontrivial(vf::hash_str(cid));
        R.end_case();
    }

    cid = "int:local_work";
    if (R.want(cid))
    {
        R.begin_case(cid, 60);
        unsigned const M = thorough ? 80 : 40;
        for (unsigned total = 0; total <= M; ++total)
            for (unsigned workers = 1; workers <= M; ++workers)
            {
                LocalWorkCalculator<unsigned> calc{total, workers};
                unsigned sum = 0, mn = UINT_MAX, mx = 0;
                bool mono = true;
                unsigned prev = UINT_MAX;
                for (unsigned id = 0; id < workers; ++id)
                {
                    unsigned w = calc(id);
                    // reference: items id, id+workers, id+2*workers ... < total
                    unsigned want = 0;
                    for (unsigned k = id; k < total; k += workers)
                        ++want;
                    if (w != want)
                        R.violation("int:local_work", cid,
                                    fmt("LocalWorkCalculator{%u,%u}(%u) -> %u, expected %u", total,
                                        workers, id, w, want));
                    sum += w;
                    mn = std::min(mn, w);
                    mx = std::max(mx, w);
                    mono = mono && w <= prev;
                    prev = w;
                    R.count("evaluations");
                }
                if (sum != total || mx - mn > 1 || !mono)
                    R.violation("int:local_work", cid,
                                fmt("LocalWorkCalculator{%u,%u}: sum %u min %u max %u", total,
                                    workers, sum, mn, mx));
            }
        R.nontrivial(vf::hash_str(cid));
        R.end_case();
    }

    cid = "int:ipow";
    if (R.want(cid))
    {
        R.begin_case(cid, 60);
        check_ipow<0>(R, cid);
        check_ipow<1>(R, cid);
        check_ipow<2>(R, cid);
        check_ipow<3>(R, cid);
        check_ipow<4>(R, cid);
        check_ipow<5>(R, cid);
        check_ipow<6>(R, cid);
        check_ipow<7>(R, cid);
        check_ipow<8>(R, cid);
        R.end_case();
    }

    cid = "int:eumod";
    if (R.want(cid))
    {
        R.begin_case(cid, 60);
        // dyadic values k/4: fmod and the correction are exact, so the result must be exact
        int const M = thorough ? 64 : 32;
        for (int kn = -M; kn <= M; ++kn)
            for (int kd = -16; kd <= 16; ++kd)
            {
                if (kd == 0)
                    continue;
                double n = kn / 4.0, d = kd / 4.0;
                double got = eumod(n, d);
                int ad = std::abs(kd);
                int wr = ((kn % ad) + ad) % ad;  // Euclidean remainder in quarter units
                if (kd > 0)
                {
                    // documented: wrap into [0, denom)
                    if (got != wr / 4.0)
                        R.violation("int:eumod", cid,
                                    fmt("eumod(%g,%g) -> %.17g, exact %g", n, d, got, wr / 4.0));
                    if (kn < 0)
                        TAG("eumod:neg-numer");
                    else
                        TAG("eumod:pos-numer");
                }
                else
                {
                    // negative denominator: documentation is ambiguous about the interval; require
                    // congruence and |result| < |denom| only
                    double q = (n - got) / d;
                    if (!(std::fabs(got) < std::fabs(d)) || q != std::nearbyint(q))
                        R.violation("int:eumod-negdenom", cid,
                                    fmt("eumod(%g,%g) -> %.17g not congruent / not reduced", n, d,
                                        got));
                    TAG("eumod:neg-denom (weak)");
                }
                R.count("evaluations");
            }
        // float instantiation
        for (int kn = -32; kn <= 32; ++kn)
            for (int kd = 1; kd <= 16; ++kd)
            {
                float got = eumod(kn / 4.0f, kd / 4.0f);
                int wr = ((kn % kd) + kd) % kd;
                if (got != wr / 4.0f)
                    R.violation("int:eumod", cid,
                                fmt("eumod<float>(%g,%g) -> %.9g, exact %g", kn / 4.0, kd / 4.0,
                                    double(got), wr / 4.0));
                R.count("evaluations");
            }
        R.nontrivial(vf::hash_str(cid));
        R.end_case();
    }

    // eumod where the arithmetic is NOT exact: tiny negative numerators (the correction
    // r += denom rounds), numerators one ulp either side of multiples of the denominator,
    // non-dyadic denominators.  Claims (documented: "remapped so that it is between zero and the
    // denominator"; callers: "Get the start value between [0, 1)", unit test "[0, 360)"):
    //   0 <= r < d, and r == the exact Euclidean remainder up to one rounding (fmod is exact, the
    //   correction is one addition: |r - exact| <= ulp(d)).
    cid = "int:eumod-inexact";
    if (R.want(cid))
    {
        R.begin_case(cid, 60);
        auto run = [&](auto zero, char const* tn) {
            using F = decltype(zero);
            F const eps = std::numeric_limits<F>::epsilon();
            F const den = std::numeric_limits<F>::denorm_min();
            F const tiny = std::numeric_limits<F>::min();
            // negative denominators (d2): the repaired correction works on |denom|; the claim for
            // them is the weak one of int:eumod (|r| < |denom|, here additionally r >= 0 is NOT
            // demanded) plus congruence within one ulp of |denom|
            std::vector<F> denoms = {F(1), F(0.1), F(6.283185307179586476925286766559L), F(360),
                                     F(0.75), F(3), F(-1), F(-0.1), F(-360)};
            for (F sd : denoms)
            {
                F const d = std::fabs(sd);  // magnitude: numerators, ulp and reference use |denom|
                F const ulp_d = std::nextafter(d, std::numeric_limits<F>::infinity()) - d;
                std::vector<F> numers = {den, tiny, F(1e-30), F(1e-20), F(1e-10), eps / 4, eps / 2,
                                         eps, d * eps / 4, d * eps / 2, d * eps, d / 3, d / 2,
                                         std::nextafter(d, F(0)), d};
                for (int k = 1; k <= 3; ++k)
                    for (int u = -2; u <= 2; ++u)
                    {
                        F v = F(k) * d;
                        for (int j = 0; j < std::abs(u); ++j)
                            v = std::nextafter(v, u > 0 ? std::numeric_limits<F>::infinity() : F(0));
                        numers.push_back(v);
                    }
                for (F an : numers)
                    for (int sgn : {1, -1})
                    {
                        F n = sgn * an;
                        F got = eumod(n, sd);
                        if (sd < 0)
                            TAG("eumod:inexact-neg-denom");
                        // reference: remainder in long double (fmodl is exact; one rounding
                        // at 2^-64 in the correction)
                        long double rl = std::fmod((long double)n, (long double)d);
                        if (rl < 0)
                            rl += (long double)d;
                        R.count("evaluations");
                        if (n < 0 && std::fmod(n, d) < 0 && -std::fmod(n, d) < ulp_d)
                            TAG("eumod:correction-rounds (remainder within an ulp of denom)");
                        else if (n < 0)
                            TAG("eumod:correction-exact-or-zero");
                        else
                            TAG("eumod:no-correction");
                        F const f = std::fmod(n, d);  // exact by IEEE 754 (sign of d is irrelevant)
                        if (sd < 0)
                        {
                            // weak claim: reduced (|r| < |denom|) and congruent mod |denom|
                            // within one ulp of |denom| (either representative r or r + |d|)
                            long double e = std::fabs((long double)got - rl);
                            if (got < 0)
                                e = std::fabs((long double)got + (long double)d - rl);
                            if (!(std::fabs(got) < d))
                                R.violation("int:eumod-negdenom-not-reduced", cid,
                                            fmt("eumod<%s>(%.17g, %.17g) -> %.17g: |result| >= |denom|",
                                                tn, double(n), double(sd), double(got)));
                            else if (std::min(e, (long double)d - e) > (long double)ulp_d)
                                R.violation("int:eumod-negdenom-not-congruent", cid,
                                            fmt("eumod<%s>(%.17g, %.17g) -> %.17g, exact remainder "
                                                "%.21Lg mod |denom|",
                                                tn, double(n), double(sd), double(got), rl));
                            continue;
                        }
                        if (got == d && f < 0 && -(long double)f <= (long double)ulp_d)
                        {
                            // the exact remainder d - |fmod| lies within one ulp below d: the
                            // correction r += d rounds up to d itself
                            R.violation("int:eumod-returns-denominator[correction rounds up for a "
                                        "tiny negative remainder]",
                                        cid,
                                        fmt("eumod<%s>(%.17g, %.17g) -> %.17g == denominator: not in "
                                            "[0, denom) (exact remainder = denom - %.3Lg)",
                                            tn, double(n), double(d), double(got), -(long double)f));
                            continue;
                        }
                        if (!(got >= 0 && got < d))
                            R.violation("int:eumod-out-of-range", cid,
                                        fmt("eumod<%s>(%.17g, %.17g) -> %.17g outside [0, denom)", tn,
                                            double(n), double(d), double(got)));
                        else if (std::min(std::fabs((long double)got - rl),
                                          (long double)d - std::fabs((long double)got - rl))
                                 > (long double)ulp_d)
                            // (distance on the circle of circumference d: an exact remainder
                            // within an ulp below d has no representable value in [0, d) nearer
                            // than d itself, and 0 is congruent to d)
                            R.violation("int:eumod-not-congruent", cid,
                                        fmt("eumod<%s>(%.17g, %.17g) -> %.17g, exact remainder %.21Lg "
                                            "(more than one ulp of the denominator apart)",
                                            tn, double(n), double(d), double(got), rl));
                    }
            }
        };
        run(0.0, "double");
        run(0.0f, "float");
        R.nontrivial(vf::hash_str(cid));
        R.end_case();
    }

    cid = "int:signum-clamp-minmax";
    if (R.want(cid))
    {
        R.begin_case(cid, 60);
        double const inf = std::numeric_limits<double>::infinity();
        double const nan = std::numeric_limits<double>::quiet_NaN();
        double const den = std::numeric_limits<double>::denorm_min();
        std::vector<double> dv = {-inf, -1e300, -2.5, -1, -den, -0.0, 0.0, den, 1, 2.5, 1e300, inf};
        for (double x : dv)
        {
            int want = x > 0 ? 1 : x < 0 ? -1 : 0;
            if (signum(x) != want || signum(float(x)) != (float(x) > 0 ? 1 : float(x) < 0 ? -1 : 0))
                R.violation("int:signum", cid, fmt("signum(%g) -> %d", x, signum(x)));
            R.count("evaluations", 2);
        }
        if (signum(nan) != 0)
            R.violation("int:signum", cid, "signum(NaN) != 0 (documented)");
        int const M = thorough ? 8 : 5;
        for (int x = -M; x <= M; ++x)
        {
            if (signum(x) != (x > 0) - (x < 0) || signum((long long)x) != (x > 0) - (x < 0))
                R.violation("int:signum", cid, fmt("signum(%d) -> %d", x, signum(x)));
            if (clamp_to_nonneg(x) != std::max(x, 0) || clamp_to_nonneg(x / 4.0) != std::max(x / 4.0, 0.0))
                R.violation("int:clamp_to_nonneg", cid, fmt("clamp_to_nonneg(%d)", x));
            if (negate(x) != -x || negate(x / 4.0) != -(x / 4.0) || std::signbit(negate(x / 4.0)) != (x > 0))
                R.violation("int:negate", cid, fmt("negate(%d)", x));
            R.count("evaluations", 6);
            for (int y = -M; y <= M; ++y)
            {
                if (celeritas::min(x, y) != std::min(x, y) || celeritas::max(x, y) != std::max(x, y)
                    || celeritas::min(x / 4.0, y / 4.0) != std::min(x / 4.0, y / 4.0)
                    || celeritas::max(x / 4.0, y / 4.0) != std::max(x / 4.0, y / 4.0))
                    R.violation("int:minmax", cid, fmt("min/max(%d,%d)", x, y));
                long long wdsq = (long long)x * x - (long long)y * y;
                if (diffsq(x, y) != wdsq || diffsq(x / 4.0, y / 4.0) != wdsq / 16.0)
                    R.violation("int:diffsq", cid, fmt("diffsq(%d,%d) -> %d", x, y, diffsq(x, y)));
                R.count("evaluations", 6);
                for (int z = -M; z <= M; ++z)
                {
                    if (celeritas::fma(x, y, z) != x * y + z
                        || celeritas::fma(x / 4.0, y / 4.0, z / 4.0) != (x * y) / 16.0 + z / 4.0)
                        R.violation("int:fma", cid, fmt("fma(%d,%d,%d)", x, y, z));
                    R.count("evaluations", 2);
                    if (y <= z)
                    {
                        // clamp(v, lo, hi), precondition lo <= hi
                        int const& r = celeritas::clamp(x, y, z);
                        double a = x / 4.0, b = y / 4.0, c = z / 4.0;
                        double const& rd = celeritas::clamp(a, b, c);
                        if (r != std::clamp(x, y, z) || rd != std::clamp(a, b, c))
                            R.violation("int:clamp", cid,
                                        fmt("clamp(%d,%d,%d) -> %d, std::clamp -> %d", x, y, z, r,
                                            std::clamp(x, y, z)));
                        if (x < y)
                            TAG("clamp:below");
                        else if (x > z)
                            TAG("clamp:above");
                        else
                            TAG("clamp:inside");
                        R.count("evaluations", 2);
                    }
                }
            }
        }
        // floating min/max == std::fmin/fmax on specials (NaN in either position loses, +-inf,
        // denormals), bit for bit; for a pair of zeros of opposite sign the C standard allows
        // either zero, so only "a zero" is required there
        {
            std::vector<double> sv = dv;
            sv.push_back(nan);
            auto bits = [](auto v) {
                std::conditional_t<sizeof(v) == 8, uint64_t, uint32_t> u;
                std::memcpy(&u, &v, sizeof v);
                return uint64_t(u);
            };
            auto same = [&](auto got, auto want, auto a, auto b) {
                if (a == 0 && b == 0)
                    return got == 0;
                if (std::isnan(want))
                    return bool(std::isnan(got));
                return bits(got) == bits(want);
            };
            for (double a : sv)
                for (double b : sv)
                {
                    volatile double va = a, vb = b;  // keep the references out of constant folding
                    double wmin = std::fmin(va, vb), wmax = std::fmax(va, vb);
                    float fa = float(a), fb = float(b);
                    volatile float vfa = fa, vfb = fb;
                    float wminf = std::fmin(vfa, vfb), wmaxf = std::fmax(vfa, vfb);
                    if (!same(celeritas::min(a, b), wmin, a, b) || !same(celeritas::max(a, b), wmax, a, b)
                        || !same(celeritas::min(fa, fb), wminf, fa, fb)
                        || !same(celeritas::max(fa, fb), wmaxf, fa, fb))
                        R.violation("int:minmax-special", cid,
                                    fmt("min/max(%g,%g) -> %g/%g, fmin/fmax -> %g/%g", a, b,
                                        celeritas::min(a, b), celeritas::max(a, b), wmin, wmax));
                    if (std::isnan(a) != std::isnan(b))
                        TAG("minmax:one-NaN");
                    else if (a == 0 && b == 0 && std::signbit(a) != std::signbit(b))
                        TAG("minmax:zeros-of-opposite-sign");
                    R.count("evaluations", 4);
                    // clamp on specials (NaN excluded: std::clamp has no defined result): value
                    // bit for bit (a -0.0 equal to the bound 0.0 is returned itself) and the
                    // SAME OBJECT as std::clamp (the functions return references)
                    for (double c : sv)
                    {
                        if (std::isnan(a) || std::isnan(b) || std::isnan(c) || !(b <= c))
                            continue;
                        double const& g = celeritas::clamp(a, b, c);
                        double const& w = std::clamp(a, b, c);
                        if (&g != &w)
                            R.violation("int:clamp-identity", cid,
                                        fmt("clamp(%g,%g,%g) returns a reference to %s, std::clamp to %s",
                                            a, b, c, &g == &a ? "v" : &g == &b ? "lo" : "hi",
                                            &w == &a ? "v" : &w == &b ? "lo" : "hi"));
                        R.count("evaluations");
                    }
                }
        }
        // integer min/max/clamp return `T const&`: which OBJECT is returned on ties must agree
        // with std::min/std::max/std::clamp
        for (int x = -2; x <= 2; ++x)
            for (int y = -2; y <= 2; ++y)
            {
                int a = x, b = y;
                if (&celeritas::min(a, b) != &std::min(a, b) || &celeritas::max(a, b) != &std::max(a, b))
                    R.violation("int:minmax-identity", cid,
                                fmt("min/max(%d,%d): returned object differs from std::min/std::max", x, y));
                if (x == y)
                    TAG("minmax:tie");
                R.count("evaluations", 2);
                for (int z = y; z <= 2; ++z)
                {
                    int c = z;
                    if (&celeritas::clamp(a, b, c) != &std::clamp(a, b, c))
                        R.violation("int:clamp-identity", cid,
                                    fmt("clamp(%d,%d,%d): returned object differs from std::clamp", x, y, z));
                    R.count("evaluations");
                }
            }
        if (!std::isnan(clamp_to_nonneg(nan)))
            R.violation("int:clamp_to_nonneg", cid, "NaN not propagated (documented)");
        if (std::signbit(negate(0.0)) || std::signbit(negate(-0.0)))
            R.violation("int:negate", cid, "negate returned a signed zero (documented not to)");
        R.nontrivial(vf::hash_str(cid));
        R.end_case();
    }
    R.sample("int:ceil_div all top<=96 x bottom in 1..96 (uint, ushort, ulonglong) + 40x40 values at "
             "the top of each type, vs 128-bit exact");
}

//---------------------------------------------------------------------------//
// PART D: Span sub-views and indexers
//---------------------------------------------------------------------------//
template<size_type N>
static void check_hyperslab(vf::Run& R)
{
    size_type const nshapes = size_type(std::pow(4, N));
    for (size_type sh = 0; sh < nshapes; ++sh)
    {
        std::string cid = fmt("hyperslab:N=%u,shape=%u", N, sh);
        if (!R.want(cid))
            continue;
        R.begin_case(cid, 30);
        Array<size_type, N> dims;
        size_type t = sh, size = 1;
        for (size_type i = 0; i < N; ++i)
        {
            dims[i] = 1 + t % 4;
            t /= 4;
            size *= dims[i];
        }
        HyperslabIndexer<N> to_index(dims);
        HyperslabInverseIndexer<N> to_coords(dims);
        // reference: odometer in C order (last dimension fastest)
        Array<size_type, N> c;
        for (size_type i = 0; i < N; ++i)
            c[i] = 0;
        bool ok = true;
        for (size_type idx = 0; idx < size; ++idx)
        {
            size_type gi = to_index(c);
            Array<size_type, N> gc = to_coords(idx);
            if (gi != idx || !(gc == c))
            {
                ok = false;
                std::string cs, gs;
                for (size_type i = 0; i < N; ++i)
                {
                    cs += std::to_string(c[i]) + " ";
                    gs += std::to_string(gc[i]) + " ";
                }
                R.violation("hyperslab:bijection", cid,
                            fmt("index %u coords (%s): to_index -> %u, to_coords -> (%s)", idx,
                                cs.c_str(), gi, gs.c_str()));
                break;
            }
            R.count("evaluations", 2);
            // advance odometer
            for (size_type i = N; i-- > 0;)
            {
                if (++c[i] < dims[i])
                    break;
                c[i] = 0;
            }
        }
        if (ok)
        {
            // (d2) the precondition of the inverse indexer is `index <= size` (HyperslabIndexer.hh:
            // 141): the one-past-the-end index is admitted and continues the C order, i.e. maps to
            // (dims[0], 0, .., 0) - the coordinates the odometer would reach without its wrap
            Array<size_type, N> ge = to_coords(size);
            bool end_ok = ge[0] == dims[0];
            for (size_type i = 1; i < N; ++i)
                end_ok = end_ok && ge[i] == 0;
            if (!end_ok)
            {
                std::string gs;
                for (size_type i = 0; i < N; ++i)
                    gs += std::to_string(ge[i]) + " ";
                R.violation("hyperslab:end-index", cid,
                            fmt("to_coords(size = %u) -> (%s), expected (dims[0] = %u, 0, ..)", size,
                                gs.c_str(), dims[0]));
            }
            R.count("evaluations");
            TAG("hyperslab:end-index");
        }
        bool has_one = false;
        for (size_type i = 0; i < N; ++i)
            has_one |= dims[i] == 1;
        if (has_one)
            TAG("hyperslab:dim-of-size-1");
        else
            TAG("hyperslab:all-dims>1");
        R.nontrivial(vf::hash_mix(vf::hash_mix(77, N), sh));
        R.end_case();
    }
}

template<size_type N>
static void check_ragged(vf::Run& R)
{
    size_type const nshapes = size_type(std::pow(4, N));
    for (size_type sh = 0; sh < nshapes; ++sh)
    {
        std::string cid = fmt("ragged:N=%u,shape=%u", N, sh);
        if (!R.want(cid))
            continue;
        R.begin_case(cid, 30);
        Array<size_type, N> sizes;
        size_type t = sh;
        for (size_type i = 0; i < N; ++i)
        {
            sizes[i] = 1 + t % 4;
            t /= 4;
        }
        auto rrd = RaggedRightIndexerData<N>::from_sizes(sizes);
        ::celeritas::detail::RaggedRightIndexer<N> to_index(rrd);
        ::celeritas::detail::RaggedRightInverseIndexer<N> to_coords(rrd);
        size_type flat = 0;
        for (size_type i = 0; i < N; ++i)
            for (size_type j = 0; j < sizes[i]; ++j, ++flat)
            {
                size_type gi = to_index({i, j});
                auto gc = to_coords(flat);
                if (gi != flat || gc[0] != i || gc[1] != j)
                    R.violation("ragged:bijection", cid,
                                fmt("coords (%u,%u) flat %u: to_index -> %u, to_coords -> (%u,%u)",
                                    i, j, flat, gi, gc[0], gc[1]));
                R.count("evaluations", 2);
            }
        if (rrd.offsets[N] != flat)
            R.violation("ragged:offsets", cid, fmt("offsets.back() %u != %u", rrd.offsets[N], flat));
        TAG("ragged:shape");
        R.nontrivial(vf::hash_mix(vf::hash_mix(99, N), sh));
        R.end_case();
    }
}

static void part_indexers(vf::Run& R)
{
    if (R.shard() != (2 % R.nshards()) && !R.replay())
        return;
    // Span
    for (size_t n = 0; n <= 6; ++n)
    {
        std::string cid = fmt("span:n=%zu", n);
        if (!R.want(cid))
            continue;
        int buf[8] = {10, 11, 12, 13, 14, 15, 16, 17};
        Span<int> sp(buf + 1, n);
        bool ok = sp.size() == n && sp.empty() == (n == 0) && sp.data() == buf + 1
                  && sp.begin() == buf + 1 && sp.end() == buf + 1 + n
                  && sp.size_bytes() == n * sizeof(int);
        if (n)
            ok = ok && &sp.front() == buf + 1 && &sp.back() == buf + n;
        for (size_t c = 0; c <= n; ++c)
        {
            auto f = sp.first(c);
            auto l = sp.last(c);
            ok = ok && f.data() == buf + 1 && f.size() == c && l.data() == buf + 1 + n - c
                 && l.size() == c;
            R.count("evaluations", 2);
            for (size_t o = 0; o + c <= n; ++o)
            {
                auto s = sp.subspan(o, c);
                ok = ok && s.data() == buf + 1 + o && s.size() == c;
                R.count("evaluations");
            }
            auto s = sp.subspan(c);  // to the end
            ok = ok && s.data() == buf + 1 + c && s.size() == n - c;
            R.count("evaluations");
        }
        if (n >= 3)
        {
            auto f = sp.first<2>();
            auto l = sp.last<2>();
            auto s = sp.subspan<1, 2>();
            auto s2 = sp.subspan<1>();
            ok = ok && f.size() == 2 && f.data() == buf + 1 && l.size() == 2
                 && l.data() == buf + 1 + n - 2 && s.size() == 2 && s.data() == buf + 2
                 && s2.size() == n - 1 && s2.data() == buf + 2;
            std::vector<int> v(buf, buf + 8);
            auto ms = make_span(v);
            Span<int const> cs = make_span(static_cast<std::vector<int> const&>(v));
            ok = ok && ms.size() == 8 && ms.data() == v.data() && cs.size() == 8;
            R.count("evaluations", 6);
            // (d2) sub-views OF a static-extent span, Count == 0, fixed -> dynamic conversion,
            // make_span(Array) / C array: subspan_extent's `extent - offset` branch, SpanImpl<T,0>
            auto f3 = sp.first<3>();
            auto t = f3.subspan<1>();
            auto t11 = f3.subspan<1, 1>();
            auto tl = f3.last<2>();
            auto tf = f3.first(1);
            Span<int> dyn(f3);
            Span<int const> cdyn(t);
            auto z0 = sp.first<0>();
            auto z1 = sp.last<0>();
            auto z2 = f3.subspan<3>();
            static_assert(decltype(f3)::extent == 3 && decltype(t)::extent == 2
                              && decltype(t11)::extent == 1 && decltype(tl)::extent == 2
                              && decltype(z0)::extent == 0 && decltype(z2)::extent == 0,
                          "static extents of sub-views");
            ok = ok && f3.size() == 3 && f3.data() == buf + 1 && t.size() == 2 && t.data() == buf + 2
                 && t.end() == buf + 4 && t11.size() == 1 && t11.data() == buf + 2 && tl.size() == 2
                 && tl.data() == buf + 2 && tf.size() == 1 && tf.data() == buf + 1
                 && dyn.size() == 3 && dyn.data() == buf + 1 && cdyn.size() == 2
                 && cdyn.data() == buf + 2 && z0.size() == 0 && z0.empty() && z0.data() == buf + 1
                 && z1.size() == 0 && z1.empty() && z1.data() == buf + 1 + n && z2.size() == 0
                 && z2.data() == buf + 4 && z0.begin() == z0.end();
            Array<int, 4> arr{{1, 2, 3, 4}};
            auto as = make_span(arr);
            auto as2 = as.subspan<2>();
            auto cas = make_span(static_cast<Array<int, 4> const&>(arr));
            auto cs3 = make_span(buf);
            static_assert(decltype(as)::extent == 4 && decltype(as2)::extent == 2
                              && decltype(cas)::extent == 4 && decltype(cs3)::extent == 8,
                          "static extents of make_span");
            ok = ok && as.size() == 4 && as.data() == arr.data() && as2.size() == 2
                 && as2.data() == arr.data() + 2 && &as2.back() == arr.data() + 3 && cas.size() == 4
                 && cas.data() == arr.data() && cs3.size() == 8 && cs3.data() == buf
                 && cs3.last<3>().data() == buf + 5;
            R.count("evaluations", 14);
            TAG("span:static-extent-subviews");
        }
        if (!ok)
            R.violation("span:subviews", cid, fmt("Span of size %zu: a sub-view is wrong", n));
        TAG("span:size");
        R.nontrivial(vf::hash_mix(55, n));
    }
    check_hyperslab<1>(R);
    check_hyperslab<2>(R);
    check_hyperslab<3>(R);
    check_hyperslab<4>(R);
    if (R.thorough())
        check_hyperslab<5>(R);
    check_ragged<1>(R);
    check_ragged<2>(R);
    check_ragged<3>(R);
    check_ragged<4>(R);
    R.sample("hyperslab:N=3,shape=27 dims (4,3,2): to_index(coords) and to_coords(index) for all 24 "
             "indices against a C-order odometer");
}

//---------------------------------------------------------------------------//
// PART E1: UniformGrid
//---------------------------------------------------------------------------//
struct UGridSpec
{
    std::string id;
    double front, back;
    size_type size;
};

//! Value of grid point i as documented: operator[] (front() for 0, back() for the last point:
//! these are what callers compare against before calling find)
static double ugrid_point(UniformGrid const& g, size_type i)
{
    if (i == 0)
        return g.front();
    if (i + 1 == g.size())
        return g.back();
    return g[i];
}

static void check_uniform_grid(vf::Run& R, UGridSpec const& spec, int window)
{
    std::string const& cid = spec.id;
    R.begin_case(cid, 60);
    UniformGridData data = UniformGridData::from_bounds(spec.front, spec.back, spec.size);
    if (!data)
    {
        TAG("ugrid:skipped invalid data (outside precondition)");
        R.end_case();
        return;
    }
    UniformGrid grid(data);
    size_type const n = grid.size();
    long double const F = data.front, B = data.back;
    long double const D = (B - F) / (long double)(n - 1);

    bool ok_points = grid.size() == spec.size && grid.front() == spec.front
                     && grid.back() == spec.back;
    // delta: one subtraction and one division, each correctly rounded: 2u relative (+ slack)
    if (std::fabs((long double)data.delta - D) > 3 * kU * D)
        ok_points = false;
    // operator[]: fl(front + fl(delta*i)), delta itself carrying 2u:  |err| <= 3u|delta*i| + u|x|
    for (size_type i = 0; i < n; ++i)
    {
        long double exact = F + D * i;
        long double tol = 4 * kU * std::fabs((double)(D * i)) + 2 * kU * std::fabs((double)exact);
        if (std::fabs((long double)grid[i] - exact) > tol)
            ok_points = false;
        if (i > 0 && !(grid[i] > grid[i - 1]))
            ok_points = false;
        R.count("evaluations");
    }
    if (!ok_points)
        R.violation("uniformgrid:points", cid,
                    fmt("grid [%s,%s] n=%u: size/front/back/delta/operator[] disagree with long "
                        "double (delta %s)",
                        vf::dstr(spec.front).c_str(), vf::dstr(spec.back).c_str(), n,
                        vf::dstr(data.delta).c_str()));

    // query values: every knot as computed by operator[] and the exactly rounded mathematical
    // knot, each +-window ulp; bin midpoints; the ends
    std::vector<double> q;
    for (size_type i = 0; i < n; ++i)
    {
        double k1 = ugrid_point(grid, i);
        double k2 = (double)(F + D * i);
        for (int u = -window; u <= window; ++u)
        {
            q.push_back(ulps(k1, u));
            if (k2 != k1)
                q.push_back(ulps(k2, u));
        }
        if (i + 1 < n)
        {
            q.push_back(0.5 * (k1 + ugrid_point(grid, i + 1)));
            q.push_back(k1 + 0.25 * data.delta);
            q.push_back(k1 + 0.75 * data.delta);
        }
    }
    for (int u = 1; u <= 4 * window; ++u)
        q.push_back(ulps(spec.back, -u));

    uint64_t n_over = 0, n_mis = 0;
    for (double v : q)
    {
        if (!(v >= grid.front() && v < grid.back()))
            continue;  // precondition of find
        size_type r = grid.find(v);
        R.count("evaluations");
        // reference bin: largest i <= n-2 with point(i) <= v (linear scan, documented
        // postcondition  grid[r] <= v < grid[r+1])
        size_type t = 0;
        for (size_type i = 1; i + 1 < n; ++i)
            if (grid[i] <= v)
                t = i;
        bool at_knot = false;
        for (size_type i = 0; i + 1 < n; ++i)
            at_knot |= (v == ugrid_point(grid, i));
        if (r + 1 >= n)
        {
            ++n_over;
            TAG("ugrid:find -> last index (overrun)");
            R.count("uniformgrid_overrun_values");
            R.violation(
                "uniformgrid:find-last-bin-overrun", cid,
                fmt("grid [%s,%s] n=%u delta=%s: find(%s = back-%dulp) -> %u == size-1 (valid bins "
                    "0..%u); callers then read point/value [%u]",
                    vf::dstr(spec.front).c_str(), vf::dstr(spec.back).c_str(), n,
                    vf::dstr(data.delta).c_str(), vf::hexd(v).c_str(),
                    int(std::llround((spec.back - v) / (spec.back - std::nextafter(spec.back, -INFINITY)))),
                    r, n - 2, r + 1));
        }
        else if (r != t)
        {
            ++n_mis;
            if (r < t)
                TAG("ugrid:find one bin low");
            else
                TAG("ugrid:find one bin high");
            {
                // distance (in ulps of the value) to the knot that was mis-judged: values at or
                // above grid[t] put one bin low, values below grid[r] put one bin high
                int off = 0;
                if (r < t)
                {
                    for (double w = ugrid_point(grid, t); w < v && off < 99; ++off)
                        w = std::nextafter(w, INFINITY);
                    R.count(off == 0    ? "uniformgrid_interior_misbin_low_at_exact_knot"
                            : off <= 4  ? "uniformgrid_interior_misbin_low_knot+1..4ulp"
                            : off <= 16 ? "uniformgrid_interior_misbin_low_knot+5..16ulp"
                                        : "uniformgrid_interior_misbin_low_knot+>16ulp(knot near 0)");
                }
                else
                {
                    for (double w = v; w < ugrid_point(grid, r) && off < 99; ++off)
                        w = std::nextafter(w, INFINITY);
                    R.count(off <= 4    ? "uniformgrid_interior_misbin_high_knot-1..4ulp"
                            : off <= 16 ? "uniformgrid_interior_misbin_high_knot-5..16ulp"
                                        : "uniformgrid_interior_misbin_high_knot->16ulp(knot near 0)");
                }
                R.maxi("uniformgrid_interior_misbin_max_ulps_from_knot(capped 99)", off);
                // physical size of the mis-judgement: |value - knot| / delta, in units of 2^-60
                double dist = std::fabs(v - ugrid_point(grid, r < t ? t : r)) / data.delta;
                R.maxi("uniformgrid_interior_misbin_max_dist_over_delta_x2^60",
                       uint64_t(std::ldexp(dist, 60)));
                R.count(cid.compare(0, 9, "ugrid:log") == 0 ? "uniformgrid_interior_misbin_log_grids"
                                                             : "uniformgrid_interior_misbin_lin_grids");
            }
            R.count("uniformgrid_interior_misbin_values");
            R.violation(
                "uniformgrid:find-interior-misbin", cid,
                fmt("grid [%s,%s] n=%u delta=%s: find(%s) -> %u but grid[%u]=%s <= value < "
                    "grid[%u]=%s (postcondition grid[result] <= value < grid[result+1] fails: "
                    "grid[%u]=%s, grid[%u]=%s)",
                    vf::dstr(spec.front).c_str(), vf::dstr(spec.back).c_str(), n,
                    vf::dstr(data.delta).c_str(), vf::hexd(v).c_str(), r, t,
                    vf::hexd(ugrid_point(grid, t)).c_str(), t + 1,
                    vf::hexd(ugrid_point(grid, t + 1)).c_str(), r,
                    vf::hexd(ugrid_point(grid, r)).c_str(), r + 1,
                    vf::hexd(ugrid_point(grid, r + 1)).c_str()));
        }
        else
        {
            if (at_knot)
                TAG("ugrid:find exact knot ok");
            else
                TAG("ugrid:find inside bin ok");
        }

        // find_interp: its own responsibility is index == find(value) and the fraction formula;
        // the documented ranges (index < size-1, 0 <= fraction < 1) are judged only when find
        // itself was right (otherwise the root cause is already reported above)
        auto fi = find_interp(grid, v);
        R.count("evaluations");
        if (fi.index != r)
            R.violation("findinterp:uniform-index", cid,
                        fmt("find_interp(%s).index %u != find %u", vf::hexd(v).c_str(), fi.index, r));
        if (r + 1 < n)
        {
            long double lo = grid[r], hi = grid[r + 1];
            long double exact = ((long double)v - lo) / (hi - lo);
            // two subtractions and a division, each correctly rounded: 3u relative (+ slack)
            if (std::fabs((long double)fi.fraction - exact) > 4 * kU * std::fabs((double)exact) + DBL_MIN)
                R.violation("findinterp:uniform-fraction", cid,
                            fmt("find_interp(%s).fraction %s, long double %s", vf::hexd(v).c_str(),
                                vf::dstr(fi.fraction).c_str(), vf::dstr((double)exact).c_str()));
            // "fraction in [0,1)" is documented, but with grid[size-1] != back() by an ulp the
            // last bin can give 1.0 (+-rounding); that agrees with the exact reference within
            // the rounding model above, so it is only recorded, not alarmed on
            if (r == t && !(fi.fraction >= 0 && fi.fraction < 1))
                TAG("findinterp:fraction rounds to 1 in a right bin (recorded only)");
            if (r != t)
                TAG("findinterp:inherits misbin (fraction <0 or >=1)");
        }
    }
    if (n_over)
        R.nontrivial(vf::hash_mix(vf::hash_str(cid), 1));
    if (n_mis)
        R.nontrivial(vf::hash_mix(vf::hash_str(cid), 2));
    R.nontrivial(vf::hash_str(cid));
    if (n_over)
        R.count("uniformgrid_grids_with_overrun");
    if (n_mis)
        R.count("uniformgrid_grids_with_interior_misbin");
    R.count("uniformgrid_grids");
    R.end_case();
}

static void part_uniform(vf::Run& R, uint64_t& g)
{
    bool const thorough = R.thorough();
    int const window = thorough ? 8 : 4;
    size_type const maxn = thorough ? 129 : 33;
    std::vector<UGridSpec> specs;
    // the grid of DESIGN.md section 5.5 first (so that its report is the one kept)
    specs.push_back({"ugrid:log,emin=1e-4,emax=1e2,n=8,design-5.5", std::log(1e-4), std::log(100.0), 8});
    // log-energy grids as built for physics tables: [log(emin), log(emax)], natural log
    std::vector<int> mant = thorough ? std::vector<int>{1, 2, 5} : std::vector<int>{1};
    for (int a = -4; a <= 7; ++a)
        for (int ma : mant)
            for (int b = a + 1; b <= 8; ++b)
                for (int mb : mant)
                {
                    double emin = strtod(fmt("%de%d", ma, a).c_str(), nullptr);
                    double emax = strtod(fmt("%de%d", mb, b).c_str(), nullptr);
                    std::vector<size_type> sizes;
                    for (size_type n = 2; n <= maxn; ++n)
                        sizes.push_back(n);
                    sizes.push_back(size_type(7 * (b - a) + 1));  // Geant4: 7 bins per decade
                    sizes.push_back(size_type(10 * (b - a) + 1));
                    for (size_type n : sizes)
                        specs.push_back({fmt("ugrid:log,emin=%de%d,emax=%de%d,n=%u", ma, a, mb, b, n),
                                         std::log(emin), std::log(emax), n});
                }
    // linear grids
    double const fronts[] = {0.0, 0.1, -1.0, 1.0, 1e-3, -7.3, 100.0};
    double const widths[] = {1.0, 0.7, 3.0, 1e-3, 10.0, 0.3};
    for (size_t fi = 0; fi < sizeof(fronts) / sizeof(double); ++fi)
        for (size_t wi = 0; wi < sizeof(widths) / sizeof(double); ++wi)
            for (size_type n = 2; n <= maxn; ++n)
                specs.push_back({fmt("ugrid:lin,front=%g,width=%g,n=%u", fronts[fi], widths[wi], n),
                                 fronts[fi], fronts[fi] + widths[wi], n});
    // the unit test's grid
    specs.push_back({"ugrid:lin,unit-test", -1.0, 5.0, 4});

    for (auto const& sp : specs)
    {
        uint64_t my = g++;
        if (!R.mine(my) || !R.want(sp.id))
            continue;
        if (R.expired())
            return;
        check_uniform_grid(R, sp, window);
    }
    R.sample("ugrid:log,emin=1e-4,emax=1e2,n=8: operator[] vs long double; find/find_interp at every "
             "knot (computed and exactly rounded) +-4 ulp, bin quarter points, back-1..16 ulp");
}

//---------------------------------------------------------------------------//
// PART E2: NonuniformGrid (+ find_interp)
//---------------------------------------------------------------------------//
template<class T>
struct Store
{
    Collection<T, Ownership::value, MemSpace::host> data;
    Collection<T, Ownership::const_reference, MemSpace::host> ref;
    //! [junk prefix][knots][sentinels]: an over-/under-read changes the answer
    ItemRange<T> fill(std::vector<T> const& knots, std::vector<T> const& pre,
                      std::vector<T> const& post)
    {
        data = {};
        auto b = make_builder(&data);
        b.insert_back(pre.begin(), pre.end());
        auto r = b.insert_back(knots.begin(), knots.end());
        b.insert_back(post.begin(), post.end());
        ref = data;
        return r;
    }
};

template<class T>
static void check_nonuniform(vf::Run& R, std::string const& cid, std::vector<T> const& knots,
                             std::vector<T> const& queries, bool strict)
{
    Store<T> st;
    std::vector<T> pre = {T(1000), T(-1000), T(3)};
    std::vector<T> post = {std::numeric_limits<T>::max(), std::numeric_limits<T>::lowest()};
    if (std::is_floating_point<T>::value)
        post.push_back(std::numeric_limits<T>::quiet_NaN());
    auto irange = st.fill(knots, pre, post);
    NonuniformGrid<T> grid(irange, st.ref);
    size_type const n = size_type(knots.size());
    bool okacc = grid.size() == n && grid.front() == knots.front() && grid.back() == knots.back();
    for (size_type i = 0; i < n; ++i)
        okacc = okacc && grid[i] == knots[i];
    if (!okacc)
        R.violation("nonuniformgrid:accessors", cid, "size/front/back/operator[] wrong");
    for (T v : queries)
    {
        if (!(v >= knots.front() && v < knots.back()))
            continue;
        size_type r = grid.find(v);
        R.count("evaluations");
        size_type ub = size_type(std::upper_bound(knots.begin(), knots.end(), v) - knots.begin());
        bool hit = std::binary_search(knots.begin(), knots.end(), v);
        if (strict)
        {
            // strictly increasing knots: grid[r] <= v < grid[r+1]  <=>  r == upper_bound - 1
            if (r != ub - 1)
                R.violation("nonuniformgrid:find", cid,
                            fmt("find(%s) -> %u, std::upper_bound-1 -> %u", vf::dstr(double(v)).c_str(),
                                r, ub - 1));
            if (hit)
                TAG("ngrid:exact knot");
            else
                TAG("ngrid:inside bin");
            if (r == 0)
                TAG("ngrid:first bin");
            if (r + 2 == n)
                TAG("ngrid:last bin");
        }
        else
        {
            // repeated knots (allowed: "approximation for sorted"): weak claim only
            if (!(r + 1 < n && knots[r] <= v && v <= knots[r + 1]))
                R.violation("nonuniformgrid:find-repeated-knots", cid,
                            fmt("find(%s) -> %u: not grid[r] <= v <= grid[r+1]",
                                vf::dstr(double(v)).c_str(), r));
            TAG("ngrid:repeated knots (weak)");
        }
        if constexpr (std::is_floating_point<T>::value)
        {
            if (strict)
            {
                auto fi = find_interp(grid, v);
                R.count("evaluations");
                size_type w = ub - 1;
                long double lo = knots[w], hi = knots[w + 1];
                long double exact = ((long double)v - lo) / (hi - lo);
                // two subtractions and one division, correctly rounded: 3u relative (+ slack)
                // (documented "fraction < 1": a value one ulp below a knot whose bin spans many
                // binades gives exactly 1.0, the correctly rounded quotient - accepted, recorded)
                if (fi.fraction == 1)
                    TAG("findinterp:fraction rounds to 1 (wide bin, recorded only)");
                if (fi.index != w || !(fi.fraction >= 0 && fi.fraction <= 1)
                    || std::fabs((long double)fi.fraction - exact) > 4 * kU * (double)exact + DBL_MIN)
                    R.violation("findinterp:nonuniform", cid,
                                fmt("find_interp(%s) -> {%u, %s}, reference {%u, %s}",
                                    vf::hexd(v).c_str(), fi.index, vf::dstr(fi.fraction).c_str(), w,
                                    vf::dstr((double)exact).c_str()));
                if (fi.fraction == 0)
                    TAG("findinterp:fraction 0 (on knot)");
            }
        }
    }
}

static std::vector<std::vector<double>> const& dbl_grids()
{
    static std::vector<std::vector<double>> const g = {
        {0, 1},
        {-1, 0, 1, 3},
        {0, 0.5, 1.5, 3.5},
        {1e-3, 1e-2, 1, 50, 51},
        {2, std::nextafter(2.0, 3.0), 3},
        {-7.5, -7.25, -1e-300, 1e-300, 4},
        {1e-4, 1e-3, 1e-2, 1e-1, 1, 10, 100, 1e3},
        {0.1, 0.2, 0.30000000000000004, 0.4, 0.5, 0.6, 0.7, 0.8, 0.9},
        {1, 2},
        {-3, -2.5},
    };
    return g;
}

static void part_nonuniform(vf::Run& R, uint64_t& g)
{
    // (1) ints: every strictly increasing subset of {0..K-1} with >= 2 knots, every value
    int const K = R.thorough() ? 10 : 8;
    for (unsigned mask = 1; mask < (1u << K); ++mask)
    {
        if (__builtin_popcount(mask) < 2)
            continue;
        uint64_t my = g++;
        std::string cid = fmt("ngrid:int,mask=%u", mask);
        if (!R.mine(my) || !R.want(cid))
            continue;
        std::vector<int> knots, q;
        for (int b = 0; b < K; ++b)
            if (mask & (1u << b))
                knots.push_back(3 * b - 5);
        for (int v = knots.front(); v < knots.back(); ++v)
            q.push_back(v);
        R.begin_case(cid, 30);
        check_nonuniform<int>(R, cid, knots, q, true);
        R.nontrivial(vf::hash_mix(31, mask));
        R.end_case();
    }
    // (2) ints with repeated knots: every non-decreasing sequence over 4 letters, len 2..6
    for (int n = 2; n <= 6; ++n)
    {
        uint64_t total = 1;
        for (int i = 0; i < n; ++i)
            total *= 4;
        for (uint64_t idx = 0; idx < total; ++idx)
        {
            std::vector<int> knots(n);
            uint64_t t = idx;
            for (int i = 0; i < n; ++i)
            {
                knots[i] = int(t % 4) * 2;
                t /= 4;
            }
            if (!std::is_sorted(knots.begin(), knots.end()) || knots.front() == knots.back())
                continue;
            bool strict = std::adjacent_find(knots.begin(), knots.end()) == knots.end();
            uint64_t my = g++;
            std::string cid = fmt("ngrid:dup,len=%d,idx=%llu", n, (unsigned long long)idx);
            if (!R.mine(my) || !R.want(cid))
                continue;
            std::vector<int> q;
            for (int v = knots.front(); v < knots.back(); ++v)
                q.push_back(v);
            R.begin_case(cid, 30);
            check_nonuniform<int>(R, cid, knots, q, strict);
            R.nontrivial(vf::hash_mix(37, vf::hash_mix(n, idx)));
            R.end_case();
        }
    }
    // (3) doubles
    int const window = R.thorough() ? 4 : 2;
    auto const& grids = dbl_grids();
    for (size_t k = 0; k < grids.size(); ++k)
    {
        uint64_t my = g++;
        std::string cid = fmt("ngrid:dbl,set=%zu", k);
        if (!R.mine(my) || !R.want(cid))
            continue;
        auto const& knots = grids[k];
        std::vector<double> q;
        for (size_t i = 0; i < knots.size(); ++i)
        {
            for (int u = -window; u <= window; ++u)
                q.push_back(ulps(knots[i], u));
            if (i + 1 < knots.size())
                for (double f : {0.25, 0.5, 0.75})
                    q.push_back(knots[i] + f * (knots[i + 1] - knots[i]));
        }
        R.begin_case(cid, 30);
        check_nonuniform<double>(R, cid, knots, q, true);
        R.nontrivial(vf::hash_mix(41, k));
        R.end_case();
    }
    R.sample("ngrid:int,mask=201 knots {-5,4,13,16}: find(v) for every integer v in [front,back) vs "
             "std::upper_bound-1; storage = [junk][knots][max,lowest(,NaN)]");
}

//---------------------------------------------------------------------------//
// PART E3: Interpolator
//---------------------------------------------------------------------------//
// Rounding model (u = 2^-53; every +,-,*,/ and fma correctly rounded; glibc log2/exp2 < 1 ulp):
//   transformed difference  p(n(a), b):  linear: fl(b-a), error u|b-a|
//                                        log: log2(fl(fl(1/a)*b)): argument 2u relative
//                                             -> 2u/ln2 absolute, + 1 ulp of the result
//   slope = fl(ny/nx); v = fma(slope, tx, intercept); result = v (lin) or exp2(v) (log)
// The bound below propagates these to first order and is then doubled.
template<Interp XI, Interp YI>
static void check_interp(vf::Run& R, std::string const& cid, double xl, double yl, double xr,
                         double yr, std::vector<double> const& xs)
{
    bool const xlog = XI == Interp::log, ylog = YI == Interp::log;
    Interpolator<XI, YI, double> interp({xl, yl}, {xr, yr});
    auto fx = [&](long double x) { return xlog ? log2l(x) : x; };
    auto fy = [&](long double y) { return ylog ? log2l(y) : y; };
    long double const nx = fx(xr) - fx(xl), ny = fy(yr) - fy(yl);
    long double const e_nx = xlog ? 3 * kU + 2 * kU * fabsl(nx) : kU * fabsl(nx);
    long double const e_ny = ylog ? 3 * kU + 2 * kU * fabsl(ny) : kU * fabsl(ny);
    long double const slope = ny / nx;
    long double const e_slope = (e_ny + fabsl(slope) * e_nx) / fabsl(nx) + kU * fabsl(slope);
    long double const icpt = fy(yl);
    long double const e_icpt = ylog ? 2 * kU * fabsl(icpt) : 0;
    for (double x : xs)
    {
        if (xlog && !(x > 0))
            continue;
        long double tx = fx(x) - fx(xl);
        long double e_tx = xlog ? 3 * kU + 2 * kU * fabsl(tx) : kU * fabsl(tx);
        long double v = icpt + slope * tx;
        long double e_v = e_slope * fabsl(tx) + fabsl(slope) * e_tx + e_icpt
                          + kU * (fabsl(v) + fabsl(icpt) + fabsl(slope * tx));
        long double want = ylog ? exp2l(v) : v;
        long double tol = ylog ? want * (0.6931471805599453L * e_v + 2 * kU) : e_v;
        tol = 2 * tol + DBL_MIN;
        double got = interp(x);
        R.count("evaluations");
        if (!(fabsl((long double)got - want) <= tol))
            R.violation(fmt("interpolator:%s-%s", xlog ? "log" : "lin", ylog ? "log" : "lin"), cid,
                        fmt("Interpolator<%s,%s>({%s,%s},{%s,%s})(%s) -> %s, long double %s (tol %.3g)",
                            xlog ? "log" : "lin", ylog ? "log" : "lin", vf::dstr(xl).c_str(),
                            vf::dstr(yl).c_str(), vf::dstr(xr).c_str(), vf::dstr(yr).c_str(),
                            vf::dstr(x).c_str(), vf::dstr(got).c_str(), vf::dstr((double)want).c_str(),
                            (double)tol));
        if (x == xl)
            TAG("interp:at left");
        else if (x == xr)
            TAG("interp:at right");
        else if (x > xl && x < xr)
            TAG("interp:inside");
        else
            TAG("interp:just outside (+-ulp)");
    }
    if (yl == yr)
        TAG("interp:flat");
    else if (yl > yr)
        TAG("interp:decreasing");
    else
        TAG("interp:increasing");
}

static void part_interp(vf::Run& R, uint64_t& g)
{
    std::vector<double> xpos = {1e-3, 0.5, 1, 2, 3.7, 100, 1e6};
    std::vector<double> ypos = {1e-2, 1, 2.5, 40, 1e5};
    std::vector<double> xany = {-2, -0.5, 0, 0.5, 1, 3.7, 100};
    std::vector<double> yany = {-3, 0, 1, 2.5, 40};
    if (R.thorough())
    {
        xpos.insert(xpos.end(), {1e-8, 0.1, 0.3, 7, 1e3});
        ypos.insert(ypos.end(), {1e-10, 0.3, 7, 1e10});
        xany.insert(xany.end(), {-1e3, 0.1, 1e3});
        yany.insert(yany.end(), {-1e6, 0.3, 1e6});
        for (auto* v : {&xpos, &ypos, &xany, &yany})
            std::sort(v->begin(), v->end());
    }
    int set = 0;
    auto run = [&](auto xi_tag, auto yi_tag, std::vector<double> const& X,
                   std::vector<double> const& Y, char const* name) {
        constexpr Interp XI = decltype(xi_tag)::value;
        constexpr Interp YI = decltype(yi_tag)::value;
        for (size_t i = 0; i < X.size(); ++i)
            for (size_t j = i + 1; j < X.size(); ++j)
            {
                uint64_t my = g++;
                std::string cid = fmt("interp:%s,xl=%zu,xr=%zu", name, i, j);
                ++set;
                if (!R.mine(my) || !R.want(cid))
                    continue;
                double xl = X[i], xr = X[j];
                std::vector<double> xs;
                for (int u = -1; u <= 1; ++u)
                {
                    xs.push_back(ulps(xl, u));
                    xs.push_back(ulps(xr, u));
                }
                for (double f : {0.125, 0.25, 0.5, 0.75, 0.875})
                    xs.push_back(xl + f * (xr - xl));
                if (xl > 0)
                {
                    xs.push_back(std::sqrt(xl * xr));
                    xs.push_back(xl * std::pow(xr / xl, 0.01));
                    xs.push_back(xl * std::pow(xr / xl, 0.99));
                }
                R.begin_case(cid, 30);
                for (double yl : Y)
                    for (double yr : Y)
                        check_interp<XI, YI>(R, cid, xl, yl, xr, yr, xs);
                R.nontrivial(vf::hash_mix(vf::hash_str(name), vf::hash_mix(i, j)));
                R.end_case();
            }
    };
    using Lin = std::integral_constant<Interp, Interp::linear>;
    using Log = std::integral_constant<Interp, Interp::log>;
    run(Lin{}, Lin{}, xany, yany, "linlin");
    run(Log{}, Lin{}, xpos, yany, "loglin");
    run(Lin{}, Log{}, xany, ypos, "linlog");
    run(Log{}, Log{}, xpos, ypos, "loglog");
    R.sample("interp:loglog,xl=1,xr=4: all (yl,yr) pairs, x at xl,xr +-1ulp, 5 arithmetic and 3 "
             "geometric interior points vs long double with a first-order rounding bound");
}

//---------------------------------------------------------------------------//
// PART E4: TwodGridCalculator / TwodSubgridCalculator
//---------------------------------------------------------------------------//
static void part_twod(vf::Run& R, uint64_t& g)
{
    auto const& grids = dbl_grids();
    int const window = R.thorough() ? 2 : 1;
    size_t const ng = R.thorough() ? grids.size() : 7;
    auto queries = [&](std::vector<double> const& knots) {
        std::vector<double> q;
        for (size_t i = 0; i < knots.size(); ++i)
        {
            for (int u = -window; u <= window; ++u)
                q.push_back(ulps(knots[i], u));
            if (i + 1 < knots.size())
                for (double f : {0.25, 0.5, 0.9})
                    q.push_back(knots[i] + f * (knots[i + 1] - knots[i]));
        }
        std::vector<double> in;
        for (double v : q)
            if (v >= knots.front() && v < knots.back())
                in.push_back(v);
        return in;
    };
    for (size_t ix = 0; ix < ng; ++ix)
        for (size_t iy = 0; iy < ng; ++iy)
            for (int f = 0; f < 2; ++f)
            {
                uint64_t my = g++;
                std::string cid = fmt("twod:x=%zu,y=%zu,f=%d", ix, iy, f);
                if (!R.mine(my) || !R.want(cid))
                    continue;
                R.begin_case(cid, 60);
                auto const& xg = grids[ix];
                auto const& yg = grids[iy];
                size_t nx = xg.size(), ny = yg.size();
                std::vector<double> vals(nx * ny);
                double vmax = 0;
                for (size_t i = 0; i < nx; ++i)
                    for (size_t j = 0; j < ny; ++j)
                    {
                        vals[i * ny + j] = f == 0 ? 1 + xg[i] + 2 * yg[j] - 0.5 * xg[i] * yg[j]
                                                  : (double((i * 31 + j * 17) % 13) - 6) * 1.25;
                        vmax = std::max(vmax, std::fabs(vals[i * ny + j]));
                    }
                Collection<real_type, Ownership::value, MemSpace::host> data;
                auto b = make_builder(&data);
                std::vector<double> junk = {1e300, -1e300, std::numeric_limits<double>::quiet_NaN()};
                b.insert_back(junk.begin(), junk.end());
                TwodGridData gd;
                gd.x = b.insert_back(xg.begin(), xg.end());
                b.insert_back(junk.begin(), junk.end());
                gd.y = b.insert_back(yg.begin(), yg.end());
                b.insert_back(junk.begin(), junk.end());
                gd.values = b.insert_back(vals.begin(), vals.end());
                b.insert_back(junk.begin(), junk.end());
                Collection<real_type, Ownership::const_reference, MemSpace::host> ref;
                ref = data;
                if (!gd)
                    R.harness_error("TwodGridData invalid");
                // index map [x][y] row-major
                for (size_t i = 0; i < nx; ++i)
                    for (size_t j = 0; j < ny; ++j)
                    {
                        if (ref[gd.at(i, j)] != vals[i * ny + j])
                            R.violation("twod:at", cid, fmt("TwodGridData::at(%zu,%zu) wrong", i, j));
                        R.count("evaluations");
                    }
                TwodGridCalculator calc(gd, ref);
                for (double x : queries(xg))
                {
                    size_t i0 = std::upper_bound(xg.begin(), xg.end(), x) - xg.begin() - 1;
                    long double fxe = ((long double)x - xg[i0]) / ((long double)xg[i0 + 1] - xg[i0]);
                    TwodSubgridCalculator sub = calc(x);
                    if (sub.x_index() != i0
                        || std::fabs((long double)sub.x_fraction() - fxe) > 4 * kU * (double)fxe + DBL_MIN)
                        R.violation("twod:x-location", cid,
                                    fmt("calc(%s): x_index %u x_fraction %s, reference %zu %s",
                                        vf::hexd(x).c_str(), sub.x_index(),
                                        vf::dstr(sub.x_fraction()).c_str(), i0,
                                        vf::dstr((double)fxe).c_str()));
                    for (double y : queries(yg))
                    {
                        size_t j0 = std::upper_bound(yg.begin(), yg.end(), y) - yg.begin() - 1;
                        long double fye
                            = ((long double)y - yg[j0]) / ((long double)yg[j0 + 1] - yg[j0]);
                        auto V = [&](size_t i, size_t j) { return (long double)vals[i * ny + j]; };
                        long double want
                            = (1 - fxe) * ((1 - fye) * V(i0, j0) + fye * V(i0, j0 + 1))
                              + fxe * ((1 - fye) * V(i0 + 1, j0) + fye * V(i0 + 1, j0 + 1));
                        // fractions carry 3u, weights (1-f) 4u absolute; four products of two
                        // weights (<= 1) and a value (<= vmax): <= 4*(4u+4u+2u)*vmax, sums 3u*vmax
                        long double tol = 48 * kU * vmax + DBL_MIN;
                        double got = calc({x, y});
                        double got2 = sub(y);
                        R.count("evaluations", 2);
                        if (!(fabsl((long double)got - want) <= tol) || got != got2)
                            R.violation("twod:bilinear", cid,
                                        fmt("calc({%s,%s}) -> %s (subgrid %s), long double %s, cell "
                                            "(%zu,%zu)",
                                            vf::hexd(x).c_str(), vf::hexd(y).c_str(),
                                            vf::dstr(got).c_str(), vf::dstr(got2).c_str(),
                                            vf::dstr((double)want).c_str(), i0, j0));
                        if (x == xg[i0] && y == yg[j0])
                            TAG("twod:on node");
                        else if (x == xg[i0] || y == yg[j0])
                            TAG("twod:on grid line");
                        else
                            TAG("twod:cell interior");
                        if (i0 + 2 == nx && j0 + 2 == ny)
                            TAG("twod:last cell");
                    }
                }
                if (f == 0)
                    TAG("twod:bilinear function");
                else
                    TAG("twod:non-bilinear values");
                R.nontrivial(vf::hash_mix(vf::hash_mix(43, ix), vf::hash_mix(iy, f)));
                R.end_case();
            }
    R.sample("twod:x=1,y=2,f=0 x-grid {-1,0,1,3} y-grid {0,.5,1.5,3.5}: every (x,y) from knots +-1ulp "
             "and interior points, calc({x,y}) == calc(x)(y) and == long double bilinear form");
}

//@@PARTS@@

//---------------------------------------------------------------------------//
int main(int argc, char** argv)
{
    vf::Run R(argc, argv, "C18", "c18_algorithms");
    part_sequences(R);
    part_ranges(R);
    part_int_helpers(R);
    part_indexers(R);
    uint64_t g = 0;
    part_uniform(R, g);
    part_nonuniform(R, g);
    part_interp(R, g);
    part_twod(R, g);
    //@@CALLS@@
    for (auto* t : TagCounter::registry())
        if (t->n)
            R.tag(t->name, t->n);
    return R.finish();
}
