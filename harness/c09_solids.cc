// C09 - Geometry construction preserves the meaning of the user's solids.
//
// Enumerated space (E4 over object trees, problems/solid_programs.hh).  BASE ZOO, 50 leaf solids:
//   u: leaf x 10 transforms x {plain, negated} x 5 placements (global implicit / explicit /
//      sphere + background; daughter unit with explicit or implicit boundary under each of 7
//      transforms)
//   b: all ordered leaf pairs x {union, intersection, subtraction} x transform of the 2nd operand
//   c: two differently placed copies of one leaf (equal radii / displacements / opening angles
//      at different origins or orientations) x 3 operations
//   n: near-coincident copies xa(A) op eps(xa(A)) under every transform, eps = sub-tolerance
//      translation / rotation (nested transforms; every surface type must be merged)
//   p: the partition {A&B, A-B, B-A} of every pair as three materials of one unit
//   t: (thorough) depth-3 trees (A op1 B) op2 C over a 12-leaf subset
// EXTENSION (sprog::enumerate_extension; C09 only):
//   + 5 GenPrism leaves whose end faces are triangles written with four points (two consecutive
//     vertices coincide: v0==v1 below / v1==v2 above / v0==v1 on both / controls v2==v3, v3==v0),
//     in kind u (everything above) and in kind b with box1 / sph1 / cyl1 (both operand orders)
//   + kind c under the MIRROR PAIR of tilts (+-1/12 turn about x about the same centre): two
//     general quadrics that differ only in their cross terms
//   + SECOND CONSTRUCTION TOLERANCE  Tolerance::from_relative(1e-6, 100)  (rel 1e-6, abs 1e-4:
//     abs != rel, length scale != 1): u (all 55 leaves x 10 transforms x polarity x {implicit,
//     explicit}), c (4 transform pairs), n (quick: under id/tr/gen)
//   + kind f: two copies of a leaf at |t| ~ 50 (translation, and the generic rotation +
//     translation), displaced from one another by 4e-3 resp. 8e-3 (40 / 80 x the second
//     tolerance's abs, far beyond rel x |t| = 5e-5) x 3 operations, under both tolerances; besides
//     the lattices, DIRECTED probes: along lines parallel to the displacement every boundary
//     crossing of the first copy is located with the oracle (bisection) and probed at +-1/2 and
//     +-3/2 displacement, i.e. inside the thin regions that belong to exactly one copy
//   + placements selfW / selfD: units that consist of a boundary and a background ONLY (global
//     unit whose boundary is the solid itself; daughter {boundary = solid, background} under 7
//     transforms in an implicit world) - the shape the Geant4 converter gives every leaf volume
//   + kind h: 4 universes, depth 3: world(explicit box){D1 under P1, D1 again under P2, D2 under
//     P3}, D1 = {A, rest}, D2 (implicit sphere + background) = {D3 under P4}, D3 = {B, rest}; both
//     orders of the world's daughter list (deep daughter last / first); one lattice per placed
//     leaf unit besides the world lattice
// Every program goes through the real pipeline
//     UnitProto -> InputBuilder (surface transformation, simplification, soft de-duplication,
//     bounding zones, exterior replacement, postfix logic) -> OrangeParams (UnitInserter, BIH)
// and is then queried by initialising an OrangeTrackView at every point of a 9^3 lattice over
// the world's box (x1.08) and of a 9^3 lattice over the box around the material regions (x1.1)
// shifted by irrational fractions of its spacing.
//
// Oracle (oracle/solids.hh, written from the documented definitions, long double): the track
// view reports volume V  iff  the point satisfies V's analytic definition, is not claimed by a
// placed daughter (inside a daughter: the daughter's own volume at the transformed point), and
// "outside" iff it is outside the global boundary.  Points closer than
//     10 * max(tol.abs, tol.rel * L)   (L = largest world coordinate; default tolerance: abs = rel
//                                       = 1.5e-8, i.e. 10 * tol.rel * max(1, L); second
//                                       tolerance: 1e-3 for L <= 100)
// to ANY constituent surface (also extensions of faces and surfaces internal to a union) are
// skipped: construction may move surfaces by the tolerance (snapping, merging of near-coincident
// surfaces) and the tracker refuses to initialise on a surface.  The factor 10 covers the
// relative-tolerance comparisons (tol.rel x coordinate magnitude <= tol.rel x L) with margin; it
// is a property-given bound ("farther than the construction tolerance from every surface"), not
// a tuned one.
//
// Not a verdict: a global unit whose boundary is the solid (selfW) is refused by UnitProto with
// "global boundary must be finite" when it cannot determine the boundary's extents (documented
// validation): counted as programs_refused_global_boundary_extents.
//
// Signatures: leaf-membership:<kind> (the leaf is already wrong when built alone),
// membership:<kinds> (flipping that leaf explains the label), init-failed:<kinds>,
// wrong-volume:<kinds>, construct-throws:<message>; two recorded defects have their own,
// narrowly conditioned ones: genprism-leaddup:end-plane-missing / :valid-prism-rejected and
// softeq-distance:far-copies-merged (see the code next to them for the exact conditions).
#include <algorithm>
#include <csignal>
#include <cmath>
#include <cstdint>
#include <exception>
#include <map>
#include <memory>
#include <set>
#include <string>
#include <variant>
#include <vector>

#include "corecel/data/CollectionStateStore.hh"
#include "corecel/io/Logger.hh"
#include "geocel/Types.hh"
#include "orange/OrangeData.hh"
#include "orange/OrangeInput.hh"
#include "orange/OrangeParams.hh"
#include "orange/OrangeTrackView.hh"
#include "orange/surf/VariantSurface.hh"

#include "engine/harness.hh"
#include "problems/solid_programs.hh"

using namespace celeritas;
using vf::fmt;
namespace sp = vf::sprog;
namespace so = vf::solids;
using so::ld;

namespace
{
//---------------------------------------------------------------------------//
struct InputStats
{
    std::set<std::string> surface_types;
    size_t surfaces{0};
    size_t volumes{0};
    size_t universes{0};
    size_t logic_len{0};
    bool has_or{false}, has_not{false};
};

InputStats stats_of(OrangeInput const& inp)
{
    InputStats s;
    s.universes = inp.universes.size();
    for (auto const& vu : inp.universes)
    {
        auto const* u = std::get_if<UnitInput>(&vu);
        if (!u)
            continue;
        s.surfaces += u->surfaces.size();
        s.volumes += u->volumes.size();
        for (auto const& vs : u->surfaces)
        {
            s.surface_types.insert(std::visit(
                [](auto const& surf) { return std::string(to_cstring(surf.surface_type())); }, vs));
        }
        for (auto const& v : u->volumes)
        {
            s.logic_len += v.logic.size();
            for (auto l : v.logic)
            {
                if (l == logic::lor)
                    s.has_or = true;
                if (l == logic::lnot)
                    s.has_not = true;
            }
        }
    }
    return s;
}

std::string first_words(std::string const& what)
{
    // stable part of a celeritas exception message: the condition text after "error: "
    std::string s = what;
    auto pos = s.find("error: ");
    if (pos != std::string::npos)
        s = s.substr(pos + 7);
    pos = s.find('\n');
    if (pos != std::string::npos)
        s = s.substr(0, pos);
    // strip numbers / quoted names so that the signature does not depend on the instance
    std::string o;
    for (char c : s)
    {
        if ((c >= '0' && c <= '9') || c == '.' || c == '-' || c == '\'')
            continue;
        o += c;
    }
    if (o.size() > 60)
        o.resize(60);
    return o;
}
//---------------------------------------------------------------------------//
}  // namespace

int main(int argc, char** argv)
{
    vf::Run R(argc, argv, "C09", "c09_solids");
    {
        // A stack overflow inside the library (e.g. unbounded recursion of a surface simplifier
        // on a NaN surface) must be attributed to the running case like any other crash: run
        // the engine's fatal-signal handler for SIGSEGV / SIGBUS on an alternate stack.
        static std::vector<char> alt(1 << 16);
        stack_t ss{};
        ss.ss_sp = alt.data();
        ss.ss_size = alt.size();
        if (sigaltstack(&ss, nullptr) == 0)
        {
            struct sigaction sa{};
            sa.sa_handler = vf::detail::on_fatal;
            sa.sa_flags = SA_ONSTACK;
            sigemptyset(&sa.sa_mask);
            sigaction(SIGSEGV, &sa, nullptr);
            sigaction(SIGBUS, &sa, nullptr);
        }
    }
    bool const thorough = R.thorough();
    int const nlat = 9;

    auto const keys = sp::enumerate(thorough, /* extended = */ true);
    if (int(sp::leaves().size()) < sp::num_base_leaves || sp::find_leaf("gptlo") != sp::num_base_leaves)
        R.harness_error("leaf zoo: the base leaves are not the first num_base_leaves entries");
    // irrational fractions of the lattice spacing
    double const shift[3] = {std::sqrt(2.0) - 1.0, (std::sqrt(3.0) - 1.0) / 2, (std::sqrt(5.0) - 1.0) / 2};
    Real3 const dir = make_unit_vector(Real3{0.36, 0.48, 0.8});

    // ---- attribution aid (diagnostics only, never part of the verdict): when a composite
    // program disagrees at a point, each of its leaves is re-built ALONE (same transform,
    // implicit world) and asked about the same point; the signature names the leaves that are
    // already wrong on their own.  Fallback: the leaves whose flipped membership would explain
    // the observed label; last resort: all leaf kinds of the program.
    struct Solo
    {
        sp::Program prog;
        std::unique_ptr<OrangeParams> params;
        std::vector<std::string> names;
        bool ok{false};
    };
    auto make_solo = [&](int leaf, int xf) {
        auto s = std::make_shared<Solo>();
        sp::Key k;
        k.kind = 'u';
        k.a = leaf;
        k.xa = xf == sp::xf_tiny ? 0 : xf;
        try
        {
            s->prog = sp::build(k);
            s->params = std::make_unique<OrangeParams>(sp::build_input(s->prog));
            s->names.resize(s->params->volumes().size());
            for (VolumeId::size_type v = 0; v < s->names.size(); ++v)
                s->names[v] = s->params->volumes().at(VolumeId{v}).name;
            s->ok = true;
        }
        catch (std::exception const&)
        {
        }
        return s;
    };
    auto solo_disagrees = [&](Solo const& s, Real3 const& pos, ld threshold) {
        if (!s.ok)
            return true;
        sp::Expect ex = s.prog.locate({ld(pos[0]), ld(pos[1]), ld(pos[2])}, threshold);
        if (ex.kind != sp::Expect::volume && ex.kind != sp::Expect::outside)
            return false;
        CollectionStateStore<OrangeStateData, MemSpace::host> state(s.params->host_ref(), 1);
        OrangeTrackView geo(s.params->host_ref(), state.ref(), TrackSlotId{0});
        geo = GeoTrackInitializer{pos, dir};
        std::string observed = geo.failed()       ? "<init-failed>"
                               : geo.is_outside() ? "[EXTERIOR]"
                                                  : s.names[geo.volume_id().unchecked_get()];
        return observed != ex.label;
    };
    auto join_kinds = [](std::vector<std::string> kinds) {
        std::sort(kinds.begin(), kinds.end());
        kinds.erase(std::unique(kinds.begin(), kinds.end()), kinds.end());
        std::string out;
        for (auto const& k : kinds)
            out += (out.empty() ? "" : "+") + k;
        return out;
    };

    uint64_t programs = 0;
    for (uint64_t ki = 0; ki < keys.size(); ++ki)
    {
        if (!R.mine(ki))
            continue;
        if ((ki & 15) == 0 && R.expired())
            break;
        std::string const cid = keys[ki].id();
        if (!R.want(cid))
            continue;
        R.begin_case(cid, 120);
        ++programs;
        R.count("programs");
        R.count(std::string("programs_") + keys[ki].kind);

        // ---- construct through the real pipeline ----
        sp::Program prog;
        std::unique_ptr<OrangeParams> params;
        InputStats st;
        try
        {
            prog = sp::build(keys[ki]);
            OrangeInput inp = sp::build_input(prog);
            st = stats_of(inp);
            params = std::make_unique<OrangeParams>(std::move(inp));
        }
        catch (std::exception const& e)
        {
            std::string kinds;
            for (auto const& t : prog.tags)
                if (t.rfind("leaf:", 0) == 0)
                    kinds += (kinds.empty() ? "" : "+") + t.substr(5);
            // A global unit whose boundary IS the solid (pl_self_world): UnitProto documents that
            // it must be able to determine finite extents of the global boundary and refuses
            // otherwise ("global boundary must be finite"; happens for boundaries whose bounding
            // zone is negated, e.g. a solid with more than half a turn removed).  A refusal is not
            // a wrong point assignment: counted and tagged, no verdict.
            if (keys[ki].place == sp::pl_self_world
                && std::string(e.what()).find("global boundary must be finite") != std::string::npos)
            {
                R.count("programs_refused_global_boundary_extents");
                R.tag("refused:global-boundary-extents");
                R.end_case();
                continue;
            }
            // one recorded defect gets its own signature: a GenPrism whose two end faces BOTH
            // have a duplicate among their leading three vertices is rejected as "both degenerate"
            bool const leaddup_both
                = std::string(e.what()).find("polygons are both degenerate") != std::string::npos
                  && (sp::leaves()[keys[ki].a].name == "gptboth"
                      || (keys[ki].b >= 0 && sp::leaves()[keys[ki].b].name == "gptboth"));
            R.violation(leaddup_both ? std::string("genprism-leaddup:valid-prism-rejected")
                                     : "construct-throws:" + first_words(e.what()),
                        cid,
                        fmt("construction of a valid program (%s) threw: %s", kinds.c_str(), e.what()));
            R.tag("construct-throws");
            R.end_case();
            continue;
        }
        for (auto const& t : prog.tags)
            R.tag(t);
        for (auto const& t : st.surface_types)
            R.tag("surf:" + t);
        if (st.has_or)
            R.tag("logic:or");
        if (st.has_not)
            R.tag("logic:not");
        R.maxi("surfaces_per_program", st.surfaces);
        R.maxi("logic_length", st.logic_len);
        R.count("surfaces_built", st.surfaces);

        // volume id -> label name
        std::vector<std::string> names(params->volumes().size());
        for (VolumeId::size_type v = 0; v < names.size(); ++v)
            names[v] = params->volumes().at(VolumeId{v}).name;

        CollectionStateStore<OrangeStateData, MemSpace::host> state(params->host_ref(), 1);
        OrangeTrackView geo(params->host_ref(), state.ref(), TrackSlotId{0});

        // 10 x the larger of the absolute tolerance and the relative tolerance at the world's
        // length scale (default tolerance: abs = rel, i.e. 10 * tol.rel * max(1, L))
        Tolerance<> const ptol = sp::tolerance_of(prog.tol);
        ld const threshold = 10 * std::max<ld>(ld(ptol.abs), ld(ptol.rel) * prog.scale);
        if (R.verbose())
        {
            fprintf(stderr, "program %s\n  scale %.3g threshold %.3Lg  surfaces %zu volumes %zu\n",
                    cid.c_str(), prog.scale, threshold, st.surfaces, st.volumes);
            for (size_t u = 0; u < prog.units.size(); ++u)
            {
                auto const& um = prog.units[u];
                fprintf(stderr, "  unit %s boundary %s bg=%s\n", um.label.c_str(),
                        um.boundary->str().c_str(), um.has_background ? um.background_label.c_str() : "-");
                for (auto const& m : um.materials)
                    fprintf(stderr, "    material %s = %s\n", m.label.c_str(), m.region->str().c_str());
            }
        }

        std::vector<std::shared_ptr<Solo>> solos;  // built on the first disagreement only
        std::map<std::string, uint64_t> seen_expected;
        uint64_t mismatches = 0, compared = 0, ambiguous = 0;
        uint64_t outcome = vf::hash_str(cid);
        // the comparison of ONE probe point
        auto probe_point = [&](Real3 const& pos) {
                        so::V3 const p{ld(pos[0]), ld(pos[1]), ld(pos[2])};
                        sp::Expect ex = prog.locate(p, threshold);
                        if (ex.kind == sp::Expect::overlap || ex.kind == sp::Expect::hole)
                        {
                            R.harness_error(fmt("%s: invalid model at (%s,%s,%s): %s", cid.c_str(),
                                                vf::dstr(pos[0]).c_str(), vf::dstr(pos[1]).c_str(),
                                                vf::dstr(pos[2]).c_str(), ex.label.c_str()));
                        }
                        if (ex.kind == sp::Expect::ambiguous)
                        {
                            ++ambiguous;
                            return;
                        }
                        // ---- real code ----
                        geo = GeoTrackInitializer{pos, dir};
                        std::string observed;
                        if (geo.failed())
                            observed = "<init-failed>";
                        else if (geo.is_outside())
                            observed = "[EXTERIOR]";
                        else
                        {
                            VolumeId v = geo.volume_id();
                            observed = v < names.size() ? names[v.unchecked_get()] : "<bad-volume-id>";
                        }
                        ++compared;
                        ++seen_expected[ex.label];
                        outcome = vf::hash_mix(outcome, vf::hash_str(observed));
                        if (observed == ex.label)
                            return;

                        // ---- disagreement: attribute to a leaf if flipping it explains it ----
                        ++mismatches;
                        std::vector<std::string> alone, flipped, all_kinds;
                        if (solos.empty())
                            for (auto const& part : prog.parts)
                                solos.push_back(make_solo(part.leaf, part.xf));
                        for (size_t pi = 0; pi < prog.parts.size(); ++pi)
                        {
                            auto const& part = prog.parts[pi];
                            all_kinds.push_back(part.kind);
                            so::V3 q = so::to_daughter(prog.tree_r, prog.tree_t, p);
                            if (solo_disagrees(*solos[pi], Real3{double(q.x), double(q.y), double(q.z)},
                                               threshold))
                                alone.push_back(part.kind);
                            part.node->set_flip(true);
                            sp::Expect alt = prog.locate(p, 0);
                            part.node->set_flip(false);
                            if (alt.kind != sp::Expect::overlap && alt.kind != sp::Expect::hole
                                && alt.label == observed)
                                flipped.push_back(part.kind);
                        }
                        // one recorded defect gets its own signature: the point lies beyond the
                        // end plane that GenPrism drops when that end face has a duplicate among
                        // its leading three vertices (gptlo: z < -hz, gpthi: z > +hz in the
                        // leaf's own frame).  Any other failure of these leaves (|z| < hz, or a
                        // different leaf) keeps the generic signatures below.
                        bool leaddup = false;
                        for (auto const& part : prog.parts)
                        {
                            int end = sp::leaddup_end(sp::leaves()[part.leaf].name);
                            if (!end)
                                continue;
                            auto const& xf = sp::transforms()[part.xf];
                            so::V3 q = so::to_daughter(prog.tree_r, prog.tree_t, p);
                            q = so::to_daughter(xf.m3(), xf.v3(), q);
                            if (end * q.z > ld(sp::gpt_hz))
                                leaddup = true;
                        }
                        // one signature per implicated leaf kind (stable identity of WHAT fails)
                        std::vector<std::string> sigs;
                        auto uniq = [](std::vector<std::string> v) {
                            std::sort(v.begin(), v.end());
                            v.erase(std::unique(v.begin(), v.end()), v.end());
                            return v;
                        };
                        // recorded defect with its own signature: under the second tolerance
                        // (abs = 100 rel) two copies of a curved leaf at |t| ~ 50 that are 4e-3
                        // = 40 abs apart are merged (SoftSurfaceEqual::soft_eq_distance scales
                        // the ABSOLUTE tolerance with the magnitude).  Only this window is
                        // recorded: the same programs at 8e-3, under the default tolerance, with
                        // planar leaves, or with a leaf that is wrong on its own keep the generic
                        // signatures.
                        bool far_merged = false;
                        if (keys[ki].kind == 'f' && keys[ki].tol == 1 && alone.empty()
                            && (keys[ki].xb == sp::xf_far4 || keys[ki].xb == sp::xf_farg4))
                            for (auto const& t : st.surface_types)
                                if (t != "px" && t != "py" && t != "pz" && t != "p")
                                    far_merged = true;
                        if (all_kinds.empty())
                            all_kinds.push_back("hierarchy");
                        if (leaddup)
                            sigs.push_back("genprism-leaddup:end-plane-missing");
                        else if (far_merged)
                            sigs.push_back("softeq-distance:far-copies-merged");
                        else if (!alone.empty())
                            for (auto const& k : uniq(alone))
                                sigs.push_back("leaf-membership:" + k);
                        else if (observed == "<init-failed>")
                            sigs.push_back("init-failed:" + join_kinds(all_kinds));
                        else if (!flipped.empty())
                            sigs.push_back("membership:" + join_kinds(flipped));
                        else
                            sigs.push_back("wrong-volume:" + join_kinds(all_kinds));
                        for (auto const& sig : sigs)
                            R.violation(sig, cid,
                                        fmt("point (%s, %s, %s): track view reports '%s', analytic "
                                            "definition says '%s' (clearance %.3Lg, threshold %.3Lg); "
                                            "material[0] = %s",
                                            vf::dstr(pos[0]).c_str(), vf::dstr(pos[1]).c_str(),
                                            vf::dstr(pos[2]).c_str(), observed.c_str(),
                                            ex.label.c_str(), ex.clearance, threshold,
                                            prog.units.back().materials.empty()
                                                ? "-"
                                                : prog.units.back().materials[0].region->str().c_str()));
        };
        // pass 0: lattice over the world box x 1.08 (exterior, background, boundary regions);
        // pass 1 (and one more per Program::more_content box): lattice over the box around the
        // materials, shifted by irrational fractions of its spacing (dense inside the solids,
        // never aligned with "round" surface positions)
        int const npass = 2 + int(prog.more_content.size());
        for (int pass = 0; pass < npass; ++pass)
            for (int ix = 0; ix < nlat; ++ix)
                for (int iy = 0; iy < nlat; ++iy)
                    for (int iz = 0; iz < nlat; ++iz)
                    {
                        so::Box3 const& box = pass == 0   ? prog.probe
                                              : pass == 1 ? prog.content
                                                          : prog.more_content[pass - 2];
                        int const sh = pass ? 1 : 0;
                        int const idx[3] = {ix, iy, iz};
                        Real3 pos;
                        for (int k = 0; k < 3; ++k)
                        {
                            double step = double(box.hi[k] - box.lo[k]) / (nlat - 1 + sh);
                            pos[k] = double(box.lo[k]) + step * (idx[k] + sh * shift[k]);
                        }
                        probe_point(pos);
                    }
        // directed pass (Program::directed_len > 0: two copies of a solid displaced by that
        // length along directed_dir): from each point of a 5^3 lattice over the content box
        // march along +dir in steps of 0.04 over 2.4 length units, locate every change of the
        // membership in the FIRST copy by bisection (oracle only) and probe at +-1/2 and +-3/2
        // of the displacement around it (the second copy's boundary is one displacement further
        // along +dir): the thin regions that belong to exactly one of the copies.
        if (prog.directed_len > 0)
        {
            int const nd = 5;
            double const len = prog.directed_len;
            so::V3 const u{ld(prog.directed_dir[0]), ld(prog.directed_dir[1]), ld(prog.directed_dir[2])};
            // membership in the FIRST copy (leaf-local frame of part 0), by the oracle alone
            auto const& part0 = prog.parts.at(0);
            auto const& xf0 = sp::transforms()[part0.xf];
            auto label_at = [&](so::V3 const& q) {
                so::V3 l = so::to_daughter(prog.tree_r, prog.tree_t, q);
                l = so::to_daughter(xf0.m3(), xf0.v3(), l);
                return part0.node->eval(l).in;
            };
            uint64_t directed = 0;
            for (int ix = 0; ix < nd; ++ix)
                for (int iy = 0; iy < nd; ++iy)
                    for (int iz = 0; iz < nd; ++iz)
                    {
                        int const idx[3] = {ix, iy, iz};
                        ld q0[3];
                        for (int k = 0; k < 3; ++k)
                        {
                            ld step = (prog.content.hi[k] - prog.content.lo[k]) / nd;
                            q0[k] = prog.content.lo[k] + step * (idx[k] + ld(shift[k]));
                        }
                        auto at = [&](ld s) {
                            return so::V3{q0[0] + s * u.x, q0[1] + s * u.y, q0[2] + s * u.z};
                        };
                        ld const ds = 0.04L;
                        bool prev = label_at(at(0));
                        for (int m = 1; m <= 60; ++m)
                        {
                            bool cur = label_at(at(m * ds));
                            if (cur == prev)
                                continue;
                            // bisect the first change in ((m-1) ds, m ds]
                            ld lo = (m - 1) * ds, hi = m * ds;
                            for (int it = 0; it < 30; ++it)
                            {
                                ld mid = (lo + hi) / 2;
                                (label_at(at(mid)) == prev ? lo : hi) = mid;
                            }
                            for (int off : {-3, -1, 1, 3})
                            {
                                so::V3 q = at(hi + ld(off) * ld(len) / 2);
                                probe_point(Real3{double(q.x), double(q.y), double(q.z)});
                                ++directed;
                            }
                            prev = cur;
                        }
                    }
            R.count("directed_probes", directed);
            if (directed)
                R.tag("probe:directed");
        }
        R.count("evaluations", compared);
        R.count("ambiguous_skipped", ambiguous);
        R.count("mismatches", mismatches);
        R.outcome(outcome);
        for (auto const& kv : seen_expected)
        {
            if (kv.first == "[EXTERIOR]")
                R.tag("expect:outside", kv.second);
            else if (kv.first.size() > 1 && kv.first.substr(1) == "bg")
                R.tag(std::string("expect:background-") + (kv.first[0] == 'w' ? "world" : "daughter"),
                      kv.second);
            else if (kv.first.size() > 3 && kv.first.substr(1) == "rest")
                R.tag(std::string("expect:rest-") + (kv.first[0] == 'w' ? "world" : "daughter"), kv.second);
            else
                R.tag(std::string("expect:material-") + (kv.first[0] == 'w' ? "world" : "daughter"),
                      kv.second);
        }
        // non-trivial: the probes saw the material(s) AND something else (the check could
        // have failed both ways), i.e. >= 2 distinct expected labels besides "outside"
        size_t distinct = seen_expected.size() - (seen_expected.count("[EXTERIOR]") ? 1 : 0);
        if (distinct >= 2)
            R.nontrivial(vf::hash_str(cid));
        else
            R.tag("trivial:single-region");
        if (programs % 997 == 1 || R.replay())
            R.sample(fmt("%s: %zu surfaces (%zu volumes, %zu universes), %llu points compared, "
                         "%llu ambiguous, %zu expected regions, %llu mismatches",
                         cid.c_str(), st.surfaces, st.volumes, st.universes,
                         (unsigned long long)compared, (unsigned long long)ambiguous,
                         seen_expected.size(), (unsigned long long)mismatches));
        R.end_case();
    }
    R.note("space", fmt("%zu programs in tier %s (%zu leaves of which %d base, %zu transforms, %d "
                        "placements, %d tolerances), %d^3 x (2 + extra content boxes) lattice probes "
                        "each + directed probes for kind f",
                        keys.size(), R.tier().c_str(), sp::leaves().size(), sp::num_base_leaves,
                        sp::transforms().size(), int(sp::num_placements_ext), sp::num_tolerances, nlat));
    return R.finish();
}
