#!/usr/bin/env python3
"""Regenerate MANIFEST.json from checks_config.py + manifest_meta.py (keeps it schema-valid)."""
import json, os, subprocess, sys
VERIF = os.path.dirname(os.path.abspath(__file__))
sys.path.insert(0, VERIF)
from checks_config import CHECKS, METAS
from manifest_meta import NOT_APPLICABLE_REASON, PENDING_REASON

# Only checks listed in config/ENABLED.txt are claimed (work-in-progress configs stay unclaimed)
ENABLED = set(open(os.path.join(VERIF, "config", "ENABLED.txt")).read().split())
props = [json.loads(l)["id"] for l in open(os.path.join(VERIF, "properties.jsonl"))]
hooks = subprocess.run(["git", "-C", "/repo", "log", "--format=%H %s", "--grep=^verif hook"],
                       capture_output=True, text=True).stdout.strip().splitlines()
m = {
    "version": 1,
    "setup_cmd": "./setup.sh",
    "hooks": {
        "guard": "CELERITAS_VERIF",
        "enable": "-DCELERITAS_VERIF=1 in CMAKE_CXX_FLAGS of the out-of-tree library builds under "
                  "/verif/build/<flavour>/celeritas (setup.sh) and on every harness compile line (check)",
        "baseline_off_cmd": "cmake --build /repo/_build -j16 -- -k 0 ; ctest --test-dir /repo/_build -j8 --timeout 900",
        "source_commits": [h.split()[0] for h in reversed(hooks)],
        "add_only": True,
    },
    "engines": [
        {"name": "harness-plumbing", "path": "engine/harness.hh", "serves_properties": sorted(ENABLED & set(CHECKS)),
         "kind_free_text": "sharding, deadlines, counters, crash/hang attribution, result files"},
        {"name": "driver", "path": "check", "serves_properties": sorted(ENABLED & set(CHECKS)),
         "kind_free_text": "rebuilds libraries+harness from /repo working tree, runs shards, merges evidence, known findings"},
    ],
    "checks": [],
    "notes": "See DESIGN.md. All checks enumerate a stated finite space of executions of the real code exhaustively.",
    "not_applicable": [],
}
for pid in props:
    if pid in CHECKS and pid in ENABLED:
        c = CHECKS[pid]
        mm = METAS[pid]
        entry = {
            "property_id": pid,
            "quick_cmd": f"./check {pid} quick",
            "thorough_cmd": f"./check {pid} thorough",
            "evidence_file": f"/verif/evidence/{pid}.json",
            "replay_cmd_template": f"./check {pid} --replay {{path}}",
            "engine": mm["engine"],
            "level_claimed": {"category": c["level"], "text": mm["text"], "design_ref": mm["design_ref"]},
            "level_note": mm["note"],
            "technique": mm["technique"],
        }
        m["checks"].append(entry)
    else:
        m["not_applicable"].append({"property_id": pid,
                                    "reason": NOT_APPLICABLE_REASON.get(pid, PENDING_REASON)})
json.dump(m, open(os.path.join(VERIF, "MANIFEST.json"), "w"), indent=1)
try:
    import jsonschema
    jsonschema.validate(m, json.load(open("/root/.vp/MANIFEST.schema.json")))
    print("MANIFEST.json valid;", len(m["checks"]), "checks,", len(m["not_applicable"]), "not claimed")
except ImportError:
    print("jsonschema not available; written without validation")
