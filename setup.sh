#!/bin/bash
# MANIFEST.setup_cmd: configure and build the celeritas libraries from /repo's working tree in
# the flavours the checks need (rel, asan, tsan) under /verif/build/<flavour>/celeritas.
# Offline; only files on disk.  Harness executables are built on demand by ./check.
#
#   ./setup.sh            build all flavours
#   ./setup.sh rel asan   build only the named flavours
set -euo pipefail
cd "$(dirname "$0")"
VERIF=$(pwd)
REPO=${VERIF_REPO:-/repo}
BUILD=${VERIF_BUILD:-$VERIF/build}
FLAVOURS=("$@")
if [ ${#FLAVOURS[@]} -eq 0 ]; then FLAVOURS=(rel asan tsan); fi

flags_for() {
  case "$1" in
    rel)  echo "-O2 -g0 -DNDEBUG" ;;
    asan) echo "-O1 -g1 -fno-omit-frame-pointer -fsanitize=address -fsanitize-recover=address" ;;
    tsan) echo "-O1 -g1 -fno-omit-frame-pointer -fsanitize=thread" ;;
    *) echo "unknown flavour $1" >&2; exit 2 ;;
  esac
}

for fl in "${FLAVOURS[@]}"; do
  B="$BUILD/$fl/celeritas"
  mkdir -p "$B"
  EXTRA=$(flags_for "$fl")
  if [ ! -f "$B/build.ninja" ]; then
    cmake -G Ninja -S "$REPO" -B "$B" \
      -DCMAKE_BUILD_TYPE= \
      -DCMAKE_CXX_COMPILER=g++ \
      -DCMAKE_CXX_FLAGS="-Wno-error -w -DCELERITAS_VERIF=1 $EXTRA" \
      -DCMAKE_SHARED_LINKER_FLAGS="$( [ "$fl" = asan ] && echo -fsanitize=address; [ "$fl" = tsan ] && echo -fsanitize=thread )" \
      -DBUILD_SHARED_LIBS=ON \
      -DCELERITAS_BUILD_TESTS=OFF -DCELERITAS_BUILD_DOCS=OFF -DCELERITAS_BUILD_DEMOS=OFF \
      -DCELERITAS_USE_MPI=OFF -DCELERITAS_USE_OpenMP=OFF -DCELERITAS_USE_Python=OFF \
      -DCELERITAS_USE_PNG=OFF -DCELERITAS_USE_Geant4=OFF -DCELERITAS_USE_ROOT=OFF \
      -DCELERITAS_USE_HepMC3=OFF -DCELERITAS_USE_VecGeom=OFF -DCELERITAS_USE_CUDA=OFF \
      -DCELERITAS_USE_HIP=OFF -DCELERITAS_USE_Perfetto=OFF \
      -DCELERITAS_DEBUG=OFF \
      -Dnlohmann_json_DIR=/root/miniconda/share/cmake/nlohmann_json \
      > "$B/configure.log" 2>&1 || { cat "$B/configure.log"; exit 1; }
  fi
  echo "[setup] building flavour $fl"
  flock "$BUILD/$fl/.lock" ninja -C "$B" celeritas > "$B/build.log" 2>&1 || { tail -50 "$B/build.log"; exit 1; }
  ls "$B/lib/"*.so > /dev/null
done
echo "[setup] done"
