// Analytic membership predicates for the solids offered by the orangeinp construction API.
//
// Everything here is written from the DOCUMENTED definitions (class comments in
// IntersectRegion.hh, Solid.hh, PolySolid.hh, Transformed.hh / Transformation.hh, CsgObject.hh,
// and for GenPrism/Parallelepiped the Geant4 G4GenericTrap / G4Para definitions those comments
// refer to), NOT from the surface-construction code: no planes/quadrics are built, no
// simplification, no bounding boxes.  All arithmetic is long double.
//
// Every node evaluates a point to
//     Ev{in, clr}
// `in`  = the point satisfies the mathematical definition of the solid (open set),
// `clr` = "clearance": a LOWER bound (or exact value) of the Euclidean distance from the point
//         to the nearest *constituent surface* of the solid - including the infinite extension
//         of every face (plane beyond its polygon, cylinder beyond its caps, both nappes of a
//         cone, the planes of an enclosed-angle cut, faces of subtracted/negated operands...).
// margin() = +clr inside, -clr outside.  A harness must treat points with clr < 10*tolerance as
// ambiguous: the runtime geometry refuses to initialise ON a surface (also on a surface that is
// internal to the union it belongs to), and construction may move surfaces by up to the
// tolerance (snapping, soft de-duplication).
//
// Out of scope: Involute (no closed-form membership with a sound distance bound).
// GenPrism with twisted faces IS supported: by the G4GenericTrap definition the cross-section at
// height z is the polygon whose vertices are the linear interpolation of the lower and upper
// vertices; a twisted face is the ruled surface swept by the edge, so its trace at fixed z is
// the straight line through the two interpolated vertices.  The constructor checks that the
// cross-section is convex at every sampled height (the only case for which "inside all faces"
// and "inside the polygon" coincide) and refuses anything else.
#pragma once

#include <algorithm>
#include <cmath>
#include <cstdio>
#include <limits>
#include <memory>
#include <stdexcept>
#include <string>
#include <utility>
#include <vector>

namespace vf
{
namespace solids
{
//---------------------------------------------------------------------------//
using ld = long double;
constexpr ld kInf = std::numeric_limits<ld>::infinity();
constexpr ld kPi = 3.14159265358979323846264338327950288L;
constexpr ld kTwoPi = 2 * kPi;

struct V3
{
    ld x{0}, y{0}, z{0};
};
inline V3 operator-(V3 const& a, V3 const& b)
{
    return {a.x - b.x, a.y - b.y, a.z - b.z};
}
inline V3 operator+(V3 const& a, V3 const& b)
{
    return {a.x + b.x, a.y + b.y, a.z + b.z};
}

//! Row-major 3x3 matrix (daughter-to-parent rotation / reflection, orthonormal)
struct M3
{
    ld m[3][3] = {{1, 0, 0}, {0, 1, 0}, {0, 0, 1}};
};
inline V3 mul(M3 const& r, V3 const& v)
{
    return {r.m[0][0] * v.x + r.m[0][1] * v.y + r.m[0][2] * v.z,
            r.m[1][0] * v.x + r.m[1][1] * v.y + r.m[1][2] * v.z,
            r.m[2][0] * v.x + r.m[2][1] * v.y + r.m[2][2] * v.z};
}
inline V3 mul_transpose(M3 const& r, V3 const& v)
{
    return {r.m[0][0] * v.x + r.m[1][0] * v.y + r.m[2][0] * v.z,
            r.m[0][1] * v.x + r.m[1][1] * v.y + r.m[2][1] * v.z,
            r.m[0][2] * v.x + r.m[1][2] * v.y + r.m[2][2] * v.z};
}
//! Rotation by `turns` (fraction of 2 pi, counterclockwise looking down the axis) about a
//! unit axis: Rodrigues' formula
inline M3 rotation_about(V3 axis, ld turns)
{
    ld n = std::sqrt(axis.x * axis.x + axis.y * axis.y + axis.z * axis.z);
    axis = {axis.x / n, axis.y / n, axis.z / n};
    ld c = std::cos(kTwoPi * turns), s = std::sin(kTwoPi * turns), t = 1 - c;
    M3 r;
    r.m[0][0] = c + axis.x * axis.x * t;
    r.m[0][1] = axis.x * axis.y * t - axis.z * s;
    r.m[0][2] = axis.x * axis.z * t + axis.y * s;
    r.m[1][0] = axis.y * axis.x * t + axis.z * s;
    r.m[1][1] = c + axis.y * axis.y * t;
    r.m[1][2] = axis.y * axis.z * t - axis.x * s;
    r.m[2][0] = axis.z * axis.x * t - axis.y * s;
    r.m[2][1] = axis.z * axis.y * t + axis.x * s;
    r.m[2][2] = c + axis.z * axis.z * t;
    return r;
}
//! parent = R * daughter + t   =>   daughter = R^T (parent - t)
inline V3 to_daughter(M3 const& r, V3 const& t, V3 const& parent)
{
    return mul_transpose(r, parent - t);
}
inline V3 to_parent(M3 const& r, V3 const& t, V3 const& d)
{
    return mul(r, d) + t;
}

//! Evaluation result
struct Ev
{
    bool in{true};
    ld clr{kInf};
    ld margin() const { return in ? clr : -clr; }
};
inline Ev ev_and(Ev a, Ev b)
{
    return {a.in && b.in, std::min(a.clr, b.clr)};
}
inline Ev ev_or(Ev a, Ev b)
{
    return {a.in || b.in, std::min(a.clr, b.clr)};
}
inline Ev ev_not(Ev a)
{
    return {!a.in, a.clr};
}

//! Accumulate faces: s < 0 on the inner side of a face, |s| <= distance to the face's surface
struct Faces
{
    bool in{true};
    ld clr{kInf};
    void face(ld s)
    {
        if (!(s < 0))
            in = false;
        clr = std::min(clr, std::fabs(s));
    }
    //! Surface that contributes to clearance only
    void surface(ld s) { clr = std::min(clr, std::fabs(s)); }
    Ev ev() const { return {in, clr}; }
};

//! Axis-aligned box (possibly infinite / empty) used to size the probe region
struct Box3
{
    ld lo[3] = {-kInf, -kInf, -kInf};
    ld hi[3] = {kInf, kInf, kInf};
    bool finite() const
    {
        for (int k = 0; k < 3; ++k)
            if (!std::isfinite(lo[k]) || !std::isfinite(hi[k]))
                return false;
        return true;
    }
    bool empty() const
    {
        for (int k = 0; k < 3; ++k)
            if (lo[k] > hi[k])
                return true;
        return false;
    }
    static Box3 make_empty()
    {
        Box3 b;
        for (int k = 0; k < 3; ++k)
        {
            b.lo[k] = kInf;
            b.hi[k] = -kInf;
        }
        return b;
    }
    static Box3 sym(ld x, ld y, ld z)
    {
        Box3 b;
        b.lo[0] = -x, b.hi[0] = x, b.lo[1] = -y, b.hi[1] = y, b.lo[2] = -z, b.hi[2] = z;
        return b;
    }
    void grow(V3 const& p)
    {
        ld c[3] = {p.x, p.y, p.z};
        for (int k = 0; k < 3; ++k)
        {
            lo[k] = std::min(lo[k], c[k]);
            hi[k] = std::max(hi[k], c[k]);
        }
    }
};
inline Box3 box_union(Box3 const& a, Box3 const& b)
{
    if (a.empty())
        return b;
    if (b.empty())
        return a;
    Box3 r;
    for (int k = 0; k < 3; ++k)
    {
        r.lo[k] = std::min(a.lo[k], b.lo[k]);
        r.hi[k] = std::max(a.hi[k], b.hi[k]);
    }
    return r;
}
inline Box3 box_intersection(Box3 const& a, Box3 const& b)
{
    Box3 r;
    for (int k = 0; k < 3; ++k)
    {
        r.lo[k] = std::max(a.lo[k], b.lo[k]);
        r.hi[k] = std::min(a.hi[k], b.hi[k]);
    }
    return r;
}

inline std::string num(ld v)
{
    char b[48];
    snprintf(b, sizeof b, "%.6Lg", v);
    return b;
}

//---------------------------------------------------------------------------//
class Node
{
  public:
    virtual ~Node() = default;
    virtual Ev eval(V3 const& p) const = 0;
    //! Conservative enclosing box (may be infinite)
    virtual Box3 bbox() const = 0;
    virtual std::string str() const = 0;
};
using SP = std::shared_ptr<Node const>;

//---------------------------------------------------------------------------//
// PRIMITIVES (IntersectRegion.hh)
//---------------------------------------------------------------------------//
//! "A rectangular parallelepiped/cuboid centered on the origin", half-widths
class Box final : public Node
{
  public:
    Box(ld hx, ld hy, ld hz) : h_{hx, hy, hz} {}
    Ev eval(V3 const& p) const final
    {
        Faces f;
        f.face(p.x - h_[0]);
        f.face(-p.x - h_[0]);
        f.face(p.y - h_[1]);
        f.face(-p.y - h_[1]);
        f.face(p.z - h_[2]);
        f.face(-p.z - h_[2]);
        return f.ev();
    }
    Box3 bbox() const final { return Box3::sym(h_[0], h_[1], h_[2]); }
    std::string str() const final
    {
        return "box(" + num(h_[0]) + "," + num(h_[1]) + "," + num(h_[2]) + ")";
    }

  private:
    ld h_[3];
};

//! "A sphere centered on the origin"
class Sphere final : public Node
{
  public:
    explicit Sphere(ld r) : r_(r) {}
    Ev eval(V3 const& p) const final
    {
        Faces f;
        f.face(std::sqrt(p.x * p.x + p.y * p.y + p.z * p.z) - r_);
        return f.ev();
    }
    Box3 bbox() const final { return Box3::sym(r_, r_, r_); }
    std::string str() const final { return "sphere(" + num(r_) + ")"; }

  private:
    ld r_;
};

//! "A Z-aligned cylinder centered on the origin": radius, half-height
class Cylinder final : public Node
{
  public:
    Cylinder(ld r, ld hh) : r_(r), hh_(hh) {}
    Ev eval(V3 const& p) const final
    {
        Faces f;
        f.face(std::sqrt(p.x * p.x + p.y * p.y) - r_);
        f.face(p.z - hh_);
        f.face(-p.z - hh_);
        return f.ev();
    }
    Box3 bbox() const final { return Box3::sym(r_, r_, hh_); }
    std::string str() const final { return "cyl(" + num(r_) + "," + num(hh_) + ")"; }

  private:
    ld r_, hh_;
};

//! "A closed cone along the Z axis centered on the origin": radius r_lo at z=-hh, r_hi at
//! z=+hh, linear in between.  Equal radii = cylinder (used by polycone segments).
class Cone final : public Node
{
  public:
    Cone(ld rlo, ld rhi, ld hh) : rlo_(rlo), rhi_(rhi), hh_(hh) {}
    Ev eval(V3 const& p) const final
    {
        Faces f;
        f.face(p.z - hh_);
        f.face(-p.z - hh_);
        ld slope = (rhi_ - rlo_) / (2 * hh_);  // dR/dz
        ld big_r = rlo_ + slope * (p.z + hh_);  // signed beyond the apex
        ld r = std::sqrt(p.x * p.x + p.y * p.y);
        ld cosang = 1 / std::sqrt(1 + slope * slope);
        // lateral face: distance to the generating line is (r - R(z)) cos(angle); the quadric
        // also contains the mirror nappe r = -R(z) beyond the apex
        bool lateral_in = big_r > 0 && r < big_r;
        if (!lateral_in)
            f.in = false;
        f.surface((r - big_r) * cosang);
        f.surface((r + big_r) * cosang);
        return f.ev();
    }
    Box3 bbox() const final
    {
        ld r = std::max(rlo_, rhi_);
        return Box3::sym(r, r, hh_);
    }
    std::string str() const final
    {
        return "cone(" + num(rlo_) + "," + num(rhi_) + "," + num(hh_) + ")";
    }

  private:
    ld rlo_, rhi_, hh_;
};

//! "An axis-aligned ellipsoid centered at the origin": radii along x, y, z
class Ellipsoid final : public Node
{
  public:
    Ellipsoid(ld a, ld b, ld c) : r_{a, b, c} {}
    Ev eval(V3 const& p) const final
    {
        // k(p) = |(x/a, y/b, z/c)| has |grad k| <= 1/min(a,b,c), so
        // distance to {k=1} >= |k-1| * min(a,b,c)
        ld k = std::sqrt((p.x / r_[0]) * (p.x / r_[0]) + (p.y / r_[1]) * (p.y / r_[1])
                         + (p.z / r_[2]) * (p.z / r_[2]));
        Faces f;
        f.face((k - 1) * std::min(r_[0], std::min(r_[1], r_[2])));
        return f.ev();
    }
    Box3 bbox() const final { return Box3::sym(r_[0], r_[1], r_[2]); }
    std::string str() const final
    {
        return "ellipsoid(" + num(r_[0]) + "," + num(r_[1]) + "," + num(r_[2]) + ")";
    }

  private:
    ld r_[3];
};

//! "A regular, z-extruded polygon centered on the origin": with orientation 0 there is a face
//! at y = -apothem (n=3: flat bottom, point up; n=4: axis-aligned square; n=6: flat top);
//! "orientation" in [0,1) is a counterclockwise rotation by orientation * (2 pi / n).
class Prism final : public Node
{
  public:
    Prism(int n, ld apothem, ld hh, ld orientation)
        : n_(n), a_(apothem), hh_(hh), orient_(orientation)
    {
    }
    Ev eval(V3 const& p) const final
    {
        Faces f;
        f.face(p.z - hh_);
        f.face(-p.z - hh_);
        for (int k = 0; k < n_; ++k)
        {
            // outward normal of face k: the -y face rotated counterclockwise
            ld phi = -kPi / 2 + (k + orient_) * kTwoPi / n_;
            f.face(p.x * std::cos(phi) + p.y * std::sin(phi) - a_);
        }
        return f.ev();
    }
    Box3 bbox() const final
    {
        ld rc = a_ / std::cos(kPi / n_);
        return Box3::sym(rc, rc, hh_);
    }
    std::string str() const final
    {
        return "prism(" + std::to_string(n_) + "," + num(a_) + "," + num(hh_) + ","
               + num(orient_) + ")";
    }

  private:
    int n_;
    ld a_, hh_, orient_;
};

//! Generalized prism / trapezoid (G4GenericTrap with any number of vertices): polygon `lo` at
//! z=-hz and `hi` at z=+hz with corresponding vertices joined by straight edges.
class GenPrism final : public Node
{
  public:
    using Poly = std::vector<std::pair<ld, ld>>;
    GenPrism(ld hz, Poly lo, Poly hi) : hz_(hz), lo_(std::move(lo)), hi_(std::move(hi))
    {
        if (lo_.size() != hi_.size() || lo_.size() < 3)
            throw std::logic_error("genprism oracle: bad vertex count");
        // orientation from the larger of the two signed areas
        ld alo = area(lo_), ahi = area(hi_);
        sign_ = (std::fabs(alo) >= std::fabs(ahi) ? alo : ahi) > 0 ? 1 : -1;
        // largest lateral slope |d vertex / dz| for the distance bound
        ld s2 = 0;
        for (size_t i = 0; i < lo_.size(); ++i)
        {
            ld dx = (hi_[i].first - lo_[i].first) / (2 * hz_);
            ld dy = (hi_[i].second - lo_[i].second) / (2 * hz_);
            s2 = std::max(s2, dx * dx + dy * dy);
        }
        // a twisted face also tilts along the edge: bound its in-plane rotation rate as well
        ld rot = 0;
        for (size_t i = 0; i < lo_.size(); ++i)
        {
            size_t j = (i + 1) % lo_.size();
            ld ex = (hi_[j].first - hi_[i].first) - (lo_[j].first - lo_[i].first);
            ld ey = (hi_[j].second - hi_[i].second) - (lo_[j].second - lo_[i].second);
            rot = std::max(rot, std::sqrt(ex * ex + ey * ey) / (2 * hz_));
        }
        extent_ = 0;
        for (auto const* poly : {&lo_, &hi_})
            for (auto const& v : *poly)
                extent_ = std::max(extent_, std::sqrt(v.first * v.first + v.second * v.second));
        slope_ = std::sqrt(s2);
        shrink_ = 1 / std::sqrt(1 + s2);
        rot_ = rot;
        // validity for this oracle: convex cross-section at all sampled heights
        for (int k = 0; k <= 16; ++k)
        {
            Poly v = section(ld(k) / 16);
            if (!convex(v))
                throw std::logic_error("genprism oracle: cross-section not convex");
        }
    }
    Ev eval(V3 const& p) const final
    {
        Faces f;
        f.face(p.z - hz_);
        f.face(-p.z - hz_);
        ld t = (p.z + hz_) / (2 * hz_);
        Poly v = section(t);
        size_t n = v.size();
        for (size_t i = 0; i < n; ++i)
        {
            size_t j = (i + 1) % n;
            ld ex = v[j].first - v[i].first, ey = v[j].second - v[i].second;
            ld len = std::sqrt(ex * ex + ey * ey);
            ld px = p.x - v[i].first, py = p.y - v[i].second;
            if (len < 1e-9L)
            {
                if (lo_[i] == lo_[j] && hi_[i] == hi_[j])
                    continue;  // coincident vertices: not a face at all
                // edge collapsed at this height (apex of a degenerate end, i.e. z = +-hz):
                // no sound lower bound on the distance to the face -> ambiguous
                f.surface(0);
                continue;
            }
            // in-plane signed distance g to the line through v_i(z), v_j(z) (left of a CCW
            // edge is inside).  Lower bound of the 3-D distance to the (possibly twisted) face
            // {g = 0}:  dist >= min(|g|, c) / Lip_c,  Lip_c = Lipschitz constant of g in the
            // ball B(p, c):  |dg/d(x,y)| = 1,
            // |dg/dz| <= |v_i'| + |dphi/dz| * |(x,y) - v_i(z)|  with  |dphi/dz| <= |e'|/|e(z)|.
            ld d = -sign_ * (ex * py - ey * px) / len;
            ld reach = std::sqrt(px * px + py * py);
            ld c = ld(0.01);
            if (rot_ > 0)
                c = std::min(c, ld(0.25) * len / rot_);
            ld omega = rot_ / (len - rot_ * c);
            ld dgdz = slope_ + omega * (reach + c * (1 + slope_));
            ld lip = std::sqrt(1 + dgdz * dgdz);
            ld bound = std::min(std::fabs(d), c) / lip;
            if (!(d < 0))
                f.in = false;
            f.surface(bound);
        }
        return f.ev();
    }
    Box3 bbox() const final
    {
        Box3 b = Box3::make_empty();
        for (auto const& v : lo_)
            b.grow({v.first, v.second, -hz_});
        for (auto const& v : hi_)
            b.grow({v.first, v.second, hz_});
        return b;
    }
    std::string str() const final
    {
        std::string s = "genprism(" + num(hz_) + ";";
        for (auto const& v : lo_)
            s += " " + num(v.first) + "," + num(v.second);
        s += ";";
        for (auto const& v : hi_)
            s += " " + num(v.first) + "," + num(v.second);
        return s + ")";
    }

  private:
    static ld area(Poly const& v)
    {
        ld a = 0;
        for (size_t i = 0; i < v.size(); ++i)
        {
            size_t j = (i + 1) % v.size();
            a += v[i].first * v[j].second - v[j].first * v[i].second;
        }
        return a / 2;
    }
    Poly section(ld t) const
    {
        Poly v(lo_.size());
        for (size_t i = 0; i < lo_.size(); ++i)
            v[i] = {lo_[i].first + t * (hi_[i].first - lo_[i].first),
                    lo_[i].second + t * (hi_[i].second - lo_[i].second)};
        return v;
    }
    bool convex(Poly const& v) const
    {
        size_t n = v.size();
        for (size_t i = 0; i < n; ++i)
        {
            size_t j = (i + 1) % n, k = (i + 2) % n;
            ld c = (v[j].first - v[i].first) * (v[k].second - v[j].second)
                   - (v[j].second - v[i].second) * (v[k].first - v[j].first);
            if (sign_ * c < -1e-12L)
                return false;
        }
        return true;
    }
    ld hz_;
    Poly lo_, hi_;
    int sign_{1};
    ld shrink_{1}, slope_{0}, rot_{0}, extent_{0};
};

//! G4Para: half-lengths (dx,dy,dz) of the *projections* of the edges on x,y,z; the z faces at
//! -dz,+dz; alpha = angle between the line through the centres of the x-parallel edges of a z
//! face and the y axis; (theta, phi) = polar/azimuthal angle of the line through the centres
//! of the two z faces.  Angles in turns.
class Parallelepiped final : public Node
{
  public:
    Parallelepiped(ld dx, ld dy, ld dz, ld alpha, ld theta, ld phi)
        : d_{dx, dy, dz}
        , ta_(std::tan(kTwoPi * alpha))
        , tx_(std::tan(kTwoPi * theta) * std::cos(kTwoPi * phi))
        , ty_(std::tan(kTwoPi * theta) * std::sin(kTwoPi * phi))
    {
    }
    Ev eval(V3 const& p) const final
    {
        Faces f;
        f.face(p.z - d_[2]);
        f.face(-p.z - d_[2]);
        // centre of the cross-section at height z
        ld cx = p.z * tx_, cy = p.z * ty_;
        // y faces: y - z*ty = +-dy, normal (0, 1, -ty)
        ld ny = std::sqrt(1 + ty_ * ty_);
        f.face(((p.y - cy) - d_[1]) / ny);
        f.face((-(p.y - cy) - d_[1]) / ny);
        // x faces: (x - cx) - (y - cy) tan(alpha) = +-dx, normal (1, -ta, -tx + ty*ta)
        ld u = (p.x - cx) - (p.y - cy) * ta_;
        ld nx = std::sqrt(1 + ta_ * ta_ + (tx_ - ty_ * ta_) * (tx_ - ty_ * ta_));
        f.face((u - d_[0]) / nx);
        f.face((-u - d_[0]) / nx);
        return f.ev();
    }
    Box3 bbox() const final
    {
        ld ey = d_[1] + d_[2] * std::fabs(ty_);
        ld ex = d_[0] + d_[1] * std::fabs(ta_) + d_[2] * std::fabs(tx_);
        return Box3::sym(ex, ey, d_[2]);
    }
    std::string str() const final
    {
        return "para(" + num(d_[0]) + "," + num(d_[1]) + "," + num(d_[2]) + ";tan_a=" + num(ta_)
               + ",tx=" + num(tx_) + ",ty=" + num(ty_) + ")";
    }

  private:
    ld d_[3];
    ld ta_, tx_, ty_;
};

//! Azimuthal sector about the z axis: all points whose azimuth (0 = +x, counterclockwise) lies
//! in (start, start + interior), in turns, interior in (0, 1].  Serves both InfWedge ("open
//! wedge shape from the Z axis", interior <= 1/2) and SolidEnclosedAngle ("pie slice infinite
//! along the z axis and outward from it").
class Sector final : public Node
{
  public:
    Sector(ld start, ld interior) : start_(start), interior_(interior) {}
    Ev eval(V3 const& p) const final
    {
        if (interior_ >= 1)
            return {true, kInf};
        ld phi = std::atan2(p.y, p.x) / kTwoPi;  // (-1/2, 1/2]
        ld delta = phi - start_;
        delta -= std::floor(delta);  // [0,1)
        Ev e;
        e.in = delta < interior_;
        // the two bounding surfaces are full planes through the z axis
        ld a0 = kTwoPi * start_, a1 = kTwoPi * (start_ + interior_);
        ld d0 = p.x * std::sin(a0) - p.y * std::cos(a0);
        ld d1 = p.x * std::sin(a1) - p.y * std::cos(a1);
        e.clr = std::min(std::fabs(d0), std::fabs(d1));
        return e;
    }
    Box3 bbox() const final { return Box3{}; }
    std::string str() const final
    {
        return "sector(" + num(start_) + "," + num(interior_) + ")";
    }

  private:
    ld start_, interior_;
};

//---------------------------------------------------------------------------//
// COMBINATORS (CsgObject.hh, Transformed.hh)
//---------------------------------------------------------------------------//
//! "Everywhere *but* the embedded object"
class Negated final : public Node
{
  public:
    explicit Negated(SP a) : a_(std::move(a)) {}
    Ev eval(V3 const& p) const final { return ev_not(a_->eval(p)); }
    Box3 bbox() const final { return Box3{}; }
    std::string str() const final { return "not(" + a_->str() + ")"; }

  private:
    SP a_;
};

//! AnyObjects: "Union of the given objects"
class Any final : public Node
{
  public:
    explicit Any(std::vector<SP> v) : v_(std::move(v)) {}
    Ev eval(V3 const& p) const final
    {
        Ev e{false, kInf};
        for (auto const& a : v_)
            e = ev_or(e, a->eval(p));
        return e;
    }
    Box3 bbox() const final
    {
        Box3 b = Box3::make_empty();
        for (auto const& a : v_)
            b = box_union(b, a->bbox());
        return b;
    }
    std::string str() const final
    {
        std::string s = "any(";
        for (size_t i = 0; i < v_.size(); ++i)
            s += (i ? ", " : "") + v_[i]->str();
        return s + ")";
    }

  private:
    std::vector<SP> v_;
};

//! AllObjects: "Intersection of the given objects"
class All final : public Node
{
  public:
    explicit All(std::vector<SP> v) : v_(std::move(v)) {}
    Ev eval(V3 const& p) const final
    {
        Ev e{true, kInf};
        for (auto const& a : v_)
            e = ev_and(e, a->eval(p));
        return e;
    }
    Box3 bbox() const final
    {
        Box3 b;
        for (auto const& a : v_)
            b = box_intersection(b, a->bbox());
        return b;
    }
    std::string str() const final
    {
        std::string s = "all(";
        for (size_t i = 0; i < v_.size(); ++i)
            s += (i ? ", " : "") + v_[i]->str();
        return s + ")";
    }

  private:
    std::vector<SP> v_;
};

//! make_subtraction: "the second object subtracted from the first"
inline SP subtraction(SP a, SP b)
{
    return std::make_shared<All>(std::vector<SP>{std::move(a), std::make_shared<Negated>(std::move(b))});
}

//! make_rdv: "a combination of possibly negated objects": intersection of the objects taken
//! inside (true) or outside (false)
inline SP rdv(std::vector<std::pair<bool, SP>> const& v)
{
    std::vector<SP> items;
    for (auto const& kv : v)
        items.push_back(kv.first ? kv.second : SP(std::make_shared<Negated>(kv.second)));
    return std::make_shared<All>(std::move(items));
}

//! Transformed: the object's points are mapped daughter-to-parent by r_p = R r_d + t
class Transformed final : public Node
{
  public:
    Transformed(SP a, M3 r, V3 t) : a_(std::move(a)), r_(r), t_(t) {}
    Ev eval(V3 const& p) const final { return a_->eval(to_daughter(r_, t_, p)); }
    Box3 bbox() const final
    {
        Box3 b = a_->bbox();
        if (!b.finite())
            return b.empty() ? b : Box3{};
        Box3 out = Box3::make_empty();
        for (int c = 0; c < 8; ++c)
        {
            V3 q{(c & 1) ? b.hi[0] : b.lo[0], (c & 2) ? b.hi[1] : b.lo[1],
                 (c & 4) ? b.hi[2] : b.lo[2]};
            out.grow(to_parent(r_, t_, q));
        }
        return out;
    }
    std::string str() const final
    {
        std::string s = "xf[";
        for (int i = 0; i < 3; ++i)
            for (int j = 0; j < 3; ++j)
                s += num(r_.m[i][j]) + (j == 2 ? ";" : ",");
        s += " t=" + num(t_.x) + "," + num(t_.y) + "," + num(t_.z) + "](" + a_->str() + ")";
        return s;
    }

  private:
    SP a_;
    M3 r_;
    V3 t_;
};

//! Diagnostic wrapper: evaluates its operand, optionally with the membership inverted.  Used
//! by harnesses to attribute a disagreement to one leaf of a tree ("would the observation be
//! explained if this leaf's membership were the opposite?").  Never used for the verdict.
class Flippable final : public Node
{
  public:
    explicit Flippable(SP a) : a_(std::move(a)) {}
    Ev eval(V3 const& p) const final
    {
        Ev e = a_->eval(p);
        return flip_ ? ev_not(e) : e;
    }
    Box3 bbox() const final { return a_->bbox(); }
    std::string str() const final { return a_->str(); }
    void set_flip(bool f) const { flip_ = f; }

  private:
    SP a_;
    mutable bool flip_{false};
};

//---------------------------------------------------------------------------//
// SOLIDS (Solid.hh, PolySolid.hh)
//---------------------------------------------------------------------------//
//! Solid: "a shape with (optionally) the same kind of shape subtracted from it, and
//! (optionally) an azimuthal section removed from it"
inline SP hollow_sliced(SP outer, SP excluded, SP sector)
{
    std::vector<SP> items{std::move(outer)};
    if (excluded)
        items.push_back(std::make_shared<Negated>(std::move(excluded)));
    if (sector)
        items.push_back(std::move(sector));
    return std::make_shared<All>(std::move(items));
}

//! PolyCone / PolyPrism: "a series of stacked cones or cylinders" / "stacked regular prisms":
//! axial grid z[0..n], outer (and optionally inner) radius at each grid point; segment i spans
//! z[i]..z[i+1]; zero-height segments contribute nothing; optional azimuthal restriction.
//! `sides` == 0: cones; otherwise regular prisms (radius = apothem, must be equal at both ends).
class PolySolid final : public Node
{
  public:
    PolySolid(std::vector<ld> inner, std::vector<ld> outer, std::vector<ld> z, SP sector,
              int sides = 0, ld orientation = 0)
        : z_(std::move(z)), outer_(outer), sector_(std::move(sector)), sides_(sides)
    {
        for (size_t i = 0; i + 1 < z_.size(); ++i)
        {
            ld hh = (z_[i + 1] - z_[i]) / 2;
            if (!(hh > 0))
                continue;
            Seg s;
            s.zc = (z_[i + 1] + z_[i]) / 2;
            if (sides == 0)
            {
                s.outer = std::make_shared<Cone>(outer[i], outer[i + 1], hh);
                if (!inner.empty())
                    s.inner = std::make_shared<Cone>(inner[i], inner[i + 1], hh);
            }
            else
            {
                if (outer[i] != outer[i + 1])
                    throw std::logic_error("polyprism oracle: unequal radii");
                s.outer = std::make_shared<Prism>(sides, outer[i], hh, orientation);
                if (!inner.empty())
                    s.inner = std::make_shared<Prism>(sides, inner[i], hh, orientation);
            }
            segs_.push_back(std::move(s));
        }
        desc_ = (sides ? "polyprism" + std::to_string(sides) + "@" + num(orientation) : std::string("polycone"));
        desc_ += "(z:";
        for (ld v : z_)
            desc_ += " " + num(v);
        desc_ += "; out:";
        for (ld v : outer)
            desc_ += " " + num(v);
        if (!inner.empty())
        {
            desc_ += "; in:";
            for (ld v : inner)
                desc_ += " " + num(v);
        }
        if (sector_)
            desc_ += "; " + sector_->str();
        desc_ += ")";
    }
    Ev eval(V3 const& p) const final
    {
        Ev e{false, kInf};
        for (auto const& s : segs_)
        {
            V3 q{p.x, p.y, p.z - s.zc};
            Ev seg = s.outer->eval(q);
            if (s.inner)
                seg = ev_and(seg, ev_not(s.inner->eval(q)));
            e = ev_or(e, seg);
        }
        if (sector_)
            e = ev_and(e, sector_->eval(p));
        return e;
    }
    Box3 bbox() const final
    {
        ld r = 0;
        for (ld v : outer_)
            r = std::max(r, v);
        if (sides_ > 0)
            r /= std::cos(kPi / sides_);  // circumradius
        Box3 b = Box3::sym(r, r, 0);
        b.lo[2] = z_.front();
        b.hi[2] = z_.back();
        return b;
    }
    std::string str() const final { return desc_; }

  private:
    struct Seg
    {
        ld zc;
        SP outer, inner;
    };
    std::vector<ld> z_, outer_;
    std::vector<Seg> segs_;
    SP sector_;
    int sides_{0};
    std::string desc_;
};

//---------------------------------------------------------------------------//
}  // namespace solids
}  // namespace vf
