// C12 oracle: long double re-derivation of quadric surfaces from surface.data(), rounding model,
// per-ray checker and point/direction generators.  Shared by harness/c12_*.cc.
#pragma once
#include <algorithm>
#include <array>
#include <cmath>
#include <cstdint>
#include <map>
#include <string>
#include <unordered_set>
#include <variant>
#include <vector>

#include "corecel/Constants.hh"
#include "corecel/cont/Array.hh"
#include "corecel/math/ArrayOperators.hh"
#include "corecel/math/Turn.hh"
#include "orange/MatrixUtils.hh"
#include "orange/OrangeTypes.hh"
#include "orange/surf/ConeAligned.hh"
#include "orange/surf/CylAligned.hh"
#include "orange/surf/CylCentered.hh"
#include "orange/surf/GeneralQuadric.hh"
#include "orange/surf/Involute.hh"
#include "orange/surf/Plane.hh"
#include "orange/surf/PlaneAligned.hh"
#include "orange/surf/SimpleQuadric.hh"
#include "orange/surf/Sphere.hh"
#include "orange/surf/SphereCentered.hh"
#include "orange/surf/SurfaceSimplifier.hh"
#include "orange/surf/detail/SurfaceTransformer.hh"
#include "orange/surf/detail/SurfaceTranslator.hh"
#include "orange/transform/NoTransformation.hh"
#include "orange/transform/SignedPermutation.hh"
#include "orange/transform/TransformSimplifier.hh"
#include "orange/transform/Transformation.hh"
#include "orange/transform/Translation.hh"
#include "orange/transform/VariantTransform.hh"
#include "engine/harness.hh"

using namespace celeritas;
using vf::fmt;
using ld = long double;

static constexpr ld EPS = 0x1p-52L;
static constexpr ld KT = 64;
static constexpr ld MIN_A = 1e-10L;  // QuadraticSolver::min_a() = Tolerance::sqrt_quadratic()^2
static const ld PI_L = 3.14159265358979323846264338327950288L;

//---------------------------------------------------------------------------//
// Oracle quadric
struct OQ
{
    enum Fam
    {
        linear,  // planes: (d - n.p)/(n.u), exact n.u != 0 test
        sphere,  // QuadraticSolver(1, hb)
        cyl,  // a = 1 - u_T^2, none when a < 1e-10
        general  // QuadraticSolver::solve_general
    };
    ld o[3] = {0, 0, 0};
    ld A[3] = {0, 0, 0};
    ld C[3] = {0, 0, 0};  // xy, yz, zx
    ld F[3] = {0, 0, 0};
    ld K = 0;
    Fam fam = general;
    char const* sig = "?";  // signature prefix
};

static constexpr int ax_u(int t)
{
    return t == 0 ? 1 : 0;
}
static constexpr int ax_v(int t)
{
    return t == 2 ? 1 : 2;
}

template<Axis T>
inline OQ derive(PlaneAligned<T> const& s)
{
    // x_T - position = 0
    OQ q;
    q.fam = OQ::linear;
    q.sig = "plane-aligned";
    q.F[int(T)] = 1;
    q.K = -ld(s.data()[0]);
    return q;
}
inline OQ derive(Plane const& s)
{
    // a x + b y + c z - d = 0
    OQ q;
    q.fam = OQ::linear;
    q.sig = "plane";
    auto d = s.data();
    for (int i = 0; i < 3; ++i)
        q.F[i] = d[i];
    q.K = -ld(d[3]);
    return q;
}
template<Axis T>
inline OQ derive(CylCentered<T> const& s)
{
    // u^2 + v^2 - R^2 = 0
    OQ q;
    q.fam = OQ::cyl;
    q.sig = "cyl-centered";
    q.A[ax_u(int(T))] = 1;
    q.A[ax_v(int(T))] = 1;
    q.K = -ld(s.data()[0]);
    return q;
}
template<Axis T>
inline OQ derive(CylAligned<T> const& s)
{
    // (u - u0)^2 + (v - v0)^2 - R^2 = 0
    OQ q;
    q.fam = OQ::cyl;
    q.sig = "cyl";
    auto d = s.data();
    q.A[ax_u(int(T))] = 1;
    q.A[ax_v(int(T))] = 1;
    q.o[ax_u(int(T))] = d[0];
    q.o[ax_v(int(T))] = d[1];
    q.K = -ld(d[2]);
    return q;
}
inline OQ derive(SphereCentered const& s)
{
    OQ q;
    q.fam = OQ::sphere;
    q.sig = "sphere-centered";
    q.A[0] = q.A[1] = q.A[2] = 1;
    q.K = -ld(s.data()[0]);
    return q;
}
inline OQ derive(Sphere const& s)
{
    OQ q;
    q.fam = OQ::sphere;
    q.sig = "sphere";
    auto d = s.data();
    q.A[0] = q.A[1] = q.A[2] = 1;
    for (int i = 0; i < 3; ++i)
        q.o[i] = d[i];
    q.K = -ld(d[3]);
    return q;
}
template<Axis T>
inline OQ derive(ConeAligned<T> const& s)
{
    // (u-u0)^2 + (v-v0)^2 - t^2 (x_T - x0)^2 = 0
    OQ q;
    q.fam = OQ::general;
    q.sig = "cone";
    auto d = s.data();
    for (int i = 0; i < 3; ++i)
        q.o[i] = d[i];
    q.A[ax_u(int(T))] = 1;
    q.A[ax_v(int(T))] = 1;
    q.A[int(T)] = -ld(d[3]);
    return q;
}
inline OQ derive(SimpleQuadric const& s)
{
    // a x^2 + b y^2 + c z^2 + d x + e y + f z + g = 0
    OQ q;
    q.fam = OQ::general;
    q.sig = "sq";
    auto d = s.data();
    for (int i = 0; i < 3; ++i)
    {
        q.A[i] = d[i];
        q.F[i] = d[3 + i];
    }
    q.K = d[6];
    return q;
}
inline OQ derive(GeneralQuadric const& s)
{
    // a x^2 + b y^2 + c z^2 + d xy + e yz + f zx + g x + h y + i z + j = 0
    OQ q;
    q.fam = OQ::general;
    q.sig = "gq";
    auto d = s.data();
    for (int i = 0; i < 3; ++i)
    {
        q.A[i] = d[i];
        q.C[i] = d[3 + i];
        q.F[i] = d[6 + i];
    }
    q.K = d[9];
    return q;
}

struct FM
{
    ld f, m;
};
static inline FM evalf(OQ const& q, double const p[3])
{
    ld r0 = ld(p[0]) - q.o[0], r1 = ld(p[1]) - q.o[1], r2 = ld(p[2]) - q.o[2];
    ld t[10] = {q.A[0] * r0 * r0, q.A[1] * r1 * r1, q.A[2] * r2 * r2, q.C[0] * r0 * r1,
                q.C[1] * r1 * r2, q.C[2] * r2 * r0, q.F[0] * r0,      q.F[1] * r1,
                q.F[2] * r2,      q.K};
    FM r{0, 0};
    for (ld v : t)
    {
        r.f += v;
        r.m += fabsl(v);
    }
    return r;
}
struct Grad
{
    ld g[3];
    ld gm;  // max_i sum |terms of g_i|
};
static inline Grad evalg(OQ const& q, double const p[3])
{
    ld r[3] = {ld(p[0]) - q.o[0], ld(p[1]) - q.o[1], ld(p[2]) - q.o[2]};
    Grad G;
    // d/dx: 2 A0 x + Cxy y + Czx z + F0 ; d/dy: 2 A1 y + Cxy x + Cyz z + F1 ; d/dz: 2 A2 z + Cyz y + Czx x + F2
    ld tx[4] = {2 * q.A[0] * r[0], q.C[0] * r[1], q.C[2] * r[2], q.F[0]};
    ld ty[4] = {2 * q.A[1] * r[1], q.C[0] * r[0], q.C[1] * r[2], q.F[1]};
    ld tz[4] = {2 * q.A[2] * r[2], q.C[1] * r[1], q.C[2] * r[0], q.F[2]};
    ld* tt[3] = {tx, ty, tz};
    G.gm = 0;
    for (int i = 0; i < 3; ++i)
    {
        ld s = 0, m = 0;
        for (int k = 0; k < 4; ++k)
        {
            s += tt[i][k];
            m += fabsl(tt[i][k]);
        }
        G.g[i] = s;
        G.gm = std::max(G.gm, m);
    }
    return G;
}
struct RayO
{
    ld a, hb, c, am, hbm, cm;
};
static inline RayO ray_coeffs(OQ const& q, double const p[3], double const u[3])
{
    ld r[3] = {ld(p[0]) - q.o[0], ld(p[1]) - q.o[1], ld(p[2]) - q.o[2]};
    ld w[3] = {u[0], u[1], u[2]};
    RayO R{0, 0, 0, 0, 0, 0};
    ld ta[6] = {q.A[0] * w[0] * w[0], q.A[1] * w[1] * w[1], q.A[2] * w[2] * w[2],
                q.C[0] * w[0] * w[1], q.C[1] * w[1] * w[2], q.C[2] * w[2] * w[0]};
    for (ld v : ta)
    {
        R.a += v;
        R.am += fabsl(v);
    }
    if (q.fam == OQ::sphere || q.fam == OQ::cyl)
        R.am += 1;  // the code uses |u|^2 == 1
    ld tb[12] = {q.A[0] * r[0] * w[0],
                 q.A[1] * r[1] * w[1],
                 q.A[2] * r[2] * w[2],
                 q.C[0] * r[0] * w[1] / 2,
                 q.C[0] * r[1] * w[0] / 2,
                 q.C[1] * r[1] * w[2] / 2,
                 q.C[1] * r[2] * w[1] / 2,
                 q.C[2] * r[2] * w[0] / 2,
                 q.C[2] * r[0] * w[2] / 2,
                 q.F[0] * w[0] / 2,
                 q.F[1] * w[1] / 2,
                 q.F[2] * w[2] / 2};
    for (ld v : tb)
    {
        R.hb += v;
        R.hbm += fabsl(v);
    }
    FM c = evalf(q, p);
    R.c = c.f;
    R.cm = c.m;
    return R;
}

//---------------------------------------------------------------------------//
// Coverage tags (accumulated locally, flushed once: Run::tag is a std::map)
enum Tag
{
    T_two_roots,
    T_one_root,
    T_no_root,
    T_on_root,
    T_on_none,
    T_along_root,
    T_along_none,
    T_along_on,
    T_edge_a,
    T_cyl_axis,
    T_cyl_axis_edge,
    T_plane_hit,
    T_plane_miss,
    T_plane_parallel,
    T_plane_on,
    T_disc_ambiguous,
    T_far_point,
    T_near_point,
    T_tangent_start,
    T_exact_on,
    T_pos_ambiguous,
    T_flip_checked,
    T_flip_skipped,
    T_missed_checked,
    T_normal_checked,
    T_normal_singular,
    T_sense_checked,
    T_cancel_small_root,
    T_on_contract,
    T_COUNT
};
static char const* const tag_names[T_COUNT] = {
    "solver:two-positive-roots",
    "solver:one-positive-root",
    "solver:no-root",
    "solver:on-surface-root",
    "solver:on-surface-none",
    "solver:along-linear-root",
    "solver:along-none",
    "solver:along-and-on-none",
    "solver:a-at-threshold",
    "cyl:axis-parallel-none",
    "cyl:axis-threshold",
    "plane:hit",
    "plane:behind",
    "plane:parallel",
    "plane:on",
    "oracle:discriminant-ambiguous",
    "pos:far",
    "pos:near-surface",
    "pos:tangent-start",
    "pos:exactly-on(f==0)",
    "pos:ambiguous-skipped",
    "flip:checked",
    "flip:skipped",
    "missed-root:checked",
    "normal:checked",
    "normal:singular-skipped",
    "sense:checked",
    "solver:small-root-cancellation",
    "on-surface:only-other-root-checked",
};

struct Ctx
{
    vf::Run& R;
    uint64_t tags[T_COUNT] = {};
    uint64_t evals = 0;
    uint32_t mask = 0;  // tags reached by the current surface
    std::unordered_set<std::string> seen;
    std::map<std::string, uint64_t> per_type;

    explicit Ctx(vf::Run& r) : R(r) {}
    inline void tag(Tag t)
    {
        ++tags[t];
        mask |= (1u << t);
    }
    template<class F>
    void viol(std::string const& sig, std::string const& cid, F&& msg)
    {
        if (seen.insert(sig).second || R.verbose())
            R.violation(sig, cid, msg());
        else
            R.violation(sig, cid, "");
    }
    void flush()
    {
        for (int i = 0; i < T_COUNT; ++i)
            if (tags[i])
                R.tag(tag_names[i], tags[i]);
        R.count("evaluations", evals);
        for (auto const& kv : per_type)
            R.count("surfaces:" + kv.first, kv.second);
    }
};

static std::string p3(double const p[3])
{
    return fmt("(%s,%s,%s)", vf::dstr(p[0]).c_str(), vf::dstr(p[1]).c_str(), vf::dstr(p[2]).c_str());
}
template<class S>
static std::string data_str(S const& s)
{
    std::string r = "[";
    auto d = s.data();
    for (size_t i = 0; i < d.size(); ++i)
        r += (i ? "," : "") + vf::dstr(d[i]);
    return r + "]";
}
static inline void normalize(ld const v[3], double u[3])
{
    ld n = sqrtl(v[0] * v[0] + v[1] * v[1] + v[2] * v[2]);
    for (int i = 0; i < 3; ++i)
        u[i] = double(v[i] / n);
}
static inline Real3 R3(double const p[3])
{
    return Real3{p[0], p[1], p[2]};
}

//---------------------------------------------------------------------------//
// Direction sets
struct Dir
{
    double u[3];
};
static std::vector<Dir> lattice_dirs()
{
    std::vector<Dir> r;
    for (int i = -1; i <= 1; ++i)
        for (int j = -1; j <= 1; ++j)
            for (int k = -1; k <= 1; ++k)
            {
                if (!i && !j && !k)
                    continue;
                ld v[3] = {ld(i), ld(j), ld(k)};
                Dir d;
                normalize(v, d.u);
                r.push_back(d);
            }
    return r;
}
//! Directions tilted off each axis by sin(theta) = s: 1 - u_T^2 = s^2 straddles 1e-10
static std::vector<Dir> tilt_dirs(bool full)
{
    std::vector<Dir> r;
    std::vector<ld> ss = {1e-6L, 1e-5L, 2e-5L, 1e-3L};
    if (!full)
        ss = {1e-6L, 2e-5L};
    for (int k = 0; k < 3; ++k)
        for (ld s : ss)
        {
            ld v[3] = {0, 0, 0};
            v[(k + 1) % 3] = s;
            v[k] = sqrtl(1 - s * s) * (k == 1 ? -1 : 1);
            Dir d;
            normalize(v, d.u);
            r.push_back(d);
        }
    return r;
}

//---------------------------------------------------------------------------//
struct Budget
{
    std::vector<double> lat;  // lattice coordinates
    int n_far = 0;
    int n_on = 0;  // generated on-surface points
    int n_near = 0;  // near-surface points (from the first n_near on-surface points, 2 each)
    int n_tan = 0;  // tangent start points
    bool full_dirs = true;
};

static double const far_pts[][3] = {
    {1e6, 0, 0},
    {-7e5, 7e5, 0.5},
    {0, -1e6, 0},
    {1e6, 1e6, -1e6},
    {0, 0, 1e6},
    {3e5, -4e5, 1e3},
    {-1e6, 2, 0.5},
    {1e3, -1e3, 1e3},
    {0, 1e9, 0},
    {-2e4, -3e4, 6e4},
};

//---------------------------------------------------------------------------//
// The per-ray check for quadric families
template<class S>
struct RayChecker
{
    S const& s;
    OQ const& q;
    Ctx& cx;
    std::string const& cid;

    std::string ctx_str(double const p[3], double const u[3], bool on) const
    {
        return fmt("%s data=%s pos=%s dir=%s state=%s",
                   q.sig,
                   data_str(s).c_str(),
                   p3(p).c_str(),
                   p3(u).c_str(),
                   on ? "on" : "off");
    }

    void check_sense_at(ld const pl[3], int expect_tag_only, double out_p[3], int* code, int* oracle)
    {
        for (int i = 0; i < 3; ++i)
            out_p[i] = double(pl[i]);
        FM v = evalf(q, out_p);
        *oracle = fabsl(v.f) > KT * EPS * v.m ? (v.f > 0 ? 1 : -1) : 0;
        *code = int(s.calc_sense(R3(out_p)));
        (void)expect_tag_only;
    }

    void operator()(double const p[3], double const u[3], bool on)
    {
        ++cx.evals;
        auto res = s.calc_intersections(R3(p), R3(u), on ? SurfaceState::on : SurfaceState::off);
        constexpr int N = int(sizeof(res) / sizeof(double));  // Array<real_type, 1 or 2>
        RayO r = ray_coeffs(q, p, u);

        // --- regime of the quadratic coefficient
        enum
        {
            reg_linear,
            reg_general,
            reg_along,
            reg_edge,
            reg_cylaxis
        } reg;
        ld amargin = KT * EPS * r.am;
        if (q.fam == OQ::linear)
            reg = reg_linear;
        else if (q.fam == OQ::sphere)
            reg = reg_general;
        else if (q.fam == OQ::cyl)
        {
            // code: a = 1 - u_T^2 ; none when a < 1e-10
            if (r.a > MIN_A + amargin)
                reg = reg_general;
            else if (r.a < MIN_A - amargin)
                reg = reg_cylaxis;
            else
                reg = reg_edge;
        }
        else
        {
            if (fabsl(r.a) > MIN_A + amargin)
                reg = reg_general;
            else if (fabsl(r.a) < MIN_A - amargin)
                reg = reg_along;
            else
                reg = reg_edge;
        }

        auto tol_at = [&](ld t) {
            ld tol = r.am * t * t + 2 * r.hbm * t + r.cm;
            if (reg == reg_general)
                tol += r.hbm * r.hbm / fabsl(r.a);
            tol *= KT * EPS;
            if (reg == reg_along || reg == reg_edge || reg == reg_cylaxis)
                tol += (fabsl(r.a) + amargin) * t * t  // documented linearisation a := 0
                       + KT * EPS * r.hbm * r.hbm / MIN_A;
            return tol;
        };

        // --- every returned distance: positive, on the surface
        int nfinite = 0;
        ld dmin = INFINITY;
        for (int k = 0; k < N; ++k)
        {
            double d = res[k];
            if (d == no_intersection())
                continue;
            ++nfinite;
            if (!(d > 0) || !std::isfinite(d))
            {
                cx.viol(std::string(q.sig) + ":distance-not-positive", cid, [&] {
                    return ctx_str(p, u, on) + fmt(" returned distance[%d]=%s", k, vf::dstr(d).c_str());
                });
                continue;
            }
            dmin = std::min<ld>(dmin, d);
            ld t = d;
            ld resid = (r.a * t + 2 * r.hb) * t + r.c;
            ld tol = tol_at(t);
            if (!(fabsl(resid) <= tol))
            {
                cx.viol(std::string(q.sig) + ":intersection-not-on-surface", cid, [&] {
                    return ctx_str(p, u, on)
                           + fmt(" distance[%d]=%s: f(x+d u)=%Lg exceeds rounding bound %Lg "
                                 "(a=%Lg hb=%Lg c=%Lg)",
                                 k, vf::dstr(d).c_str(), resid, tol, r.a, r.hb, r.c);
                });
            }
        }

        // --- exact roots (long double)
        ld roots[2];
        ld fprime[2];
        int nroots = 0;
        bool disc_ok = true;
        if (reg == reg_linear || r.a == 0)
        {
            // linear: t = -c / (2 hb)
            if (fabsl(2 * r.hb) > KT * EPS * 2 * r.hbm)
            {
                roots[0] = -r.c / (2 * r.hb);
                fprime[0] = fabsl(2 * r.hb);
                nroots = 1;
            }
            else
                disc_ok = (r.hb == 0 && r.hbm == 0) ? true : false;
            if (r.hb == 0)
                disc_ok = true;  // exactly parallel: no root at all
        }
        else
        {
            ld D = r.hb * r.hb - r.a * r.c;
            ld Dm = 2 * r.hbm * r.hbm + fabsl(r.a) * r.cm + r.am * fabsl(r.c);
            if (fabsl(D) <= 4 * KT * EPS * Dm)
            {
                disc_ok = false;
                cx.tag(T_disc_ambiguous);
            }
            else if (D > 0)
            {
                ld sq = sqrtl(D);
                ld qq = -(r.hb + (r.hb >= 0 ? sq : -sq));
                // qq has the larger magnitude: qq/a is the far root, c/qq the near root
                roots[0] = r.c / qq;  // near (smaller |t|)
                roots[1] = qq / r.a;  // far
                fprime[0] = fprime[1] = 2 * sq;
                nroots = 2;
            }
        }

        // --- tags by the code's outcome and regime
        if (reg == reg_linear)
        {
            if (on)
                cx.tag(T_plane_on);
            else if (nfinite)
                cx.tag(T_plane_hit);
            else if (r.hb == 0)
                cx.tag(T_plane_parallel);
            else
                cx.tag(T_plane_miss);
        }
        else if (reg == reg_cylaxis)
            cx.tag(T_cyl_axis);
        else if (reg == reg_edge)
            cx.tag(q.fam == OQ::cyl ? T_cyl_axis_edge : T_edge_a);
        else if (reg == reg_along)
            cx.tag(on ? T_along_on : (nfinite ? T_along_root : T_along_none));
        else if (on)
            cx.tag(nfinite ? T_on_root : T_on_none);
        else
            cx.tag(nfinite == 2 ? T_two_roots : nfinite == 1 ? T_one_root : T_no_root);

        // --- contract of SurfaceState::on (QuadraticSolver::operator()(), Plane*, solve_general):
        // the start point's own root (t = 0 up to rounding) is NOT reported; what may come back is
        // at most ONE distance, the other root -2 hb / a of a t^2 + 2 hb t = 0 (nothing at all for
        // planes, along the surface |a| < 1e-10, and for axis-parallel rays of a cylinder).
        // Rounding of the code's -2 * (hb * (1/a)): hb and a are sums of products (model: KT eps
        // hbm, KT eps am), two more roundings for 1/a and the product:
        //    |d - d_exp| <= KT eps (2 hbm/|a| + 2 |hb| am / a^2) + 8 eps |d_exp|
        // A self hit is the root c/(2 hb) = O(eps M / |hb|) of the start point itself: it shows up as
        // a second distance or as a distance that is not the other root.
        if (on && nfinite > 0)
        {
            cx.tag(T_on_contract);
            char const* why = nullptr;
            ld dexp = 0, told = 0;
            if (nfinite > 1)
                why = "more than one distance returned";
            else if (reg == reg_linear)
                why = "a plane returned a distance";
            else if (reg == reg_along || reg == reg_cylaxis)
                why = "a distance returned although the ray runs along the surface";
            else
            {
                dexp = -2 * r.hb / r.a;
                told = KT * EPS * (2 * r.hbm / fabsl(r.a) + 2 * fabsl(r.hb) * r.am / (r.a * r.a))
                       + 8 * EPS * fabsl(dexp);
                if (!(fabsl(dmin - dexp) <= told) && std::isfinite((double)dmin))
                    why = "the returned distance is not the other root -2hb/a";
            }
            if (why)
            {
                cx.viol(std::string(q.sig) + ":on-surface-self-hit", cid, [&] {
                    return ctx_str(p, u, on)
                           + fmt(" %s: returned (%s%s%s), other root -2hb/a=%.18Lg (+-%Lg) (a=%Lg hb=%Lg c=%Lg)",
                                 why, vf::dstr(res[0]).c_str(), N > 1 ? "," : "",
                                 N > 1 ? vf::dstr(res[N - 1]).c_str() : "", dexp, told, r.a, r.hb, r.c);
                });
            }
        }

        // --- no nearer positive crossing
        if (disc_ok || reg == reg_along)
        {
            int consider = nroots;
            bool claim = true;
            bool lin_model = false;
            if (reg == reg_along)
            {
                // documented: a is treated as zero; only the root of 2 hb t + c = 0 is promised
                // (solve_along_surface), and only when |hb| > 1e-10; the far root is dropped
                claim = !on && fabsl(r.hb) > MIN_A + KT * EPS * r.hbm;
                roots[0] = -r.c / (2 * r.hb);
                fprime[0] = fabsl(2 * r.hb);
                consider = 1;
                lin_model = true;
            }
            else if (reg == reg_edge || reg == reg_cylaxis)
                claim = false;
            if (claim)
            {
                ld first = INFINITY, first_dt = 0;
                for (int k = 0; k < consider; ++k)
                {
                    ld t = roots[k];
                    if (!(t > 0) || !std::isfinite((double)t))
                        continue;
                    ld dt = (lin_model ? KT * EPS * (2 * r.hbm * t + r.cm) : tol_at(t)) / fprime[k]
                            + 4 * EPS * t;
                    if (t > 2 * dt && t < first)
                    {
                        first = t;
                        first_dt = dt;
                    }
                }
                if (std::isfinite((double)first) && first < 1e300L)
                {
                    cx.tag(T_missed_checked);
                    if (first < 1e-3L * fabsl(roots[nroots - 1]) && nroots == 2)
                        cx.tag(T_cancel_small_root);
                    if (dmin > first + 2 * first_dt)
                    {
                        cx.viol(std::string(q.sig) + ":missed-nearer-crossing", cid, [&] {
                            return ctx_str(p, u, on)
                                   + fmt(" exact first crossing at t=%.18Lg (+-%Lg) but nearest "
                                         "returned distance is %Lg (a=%Lg hb=%Lg c=%Lg)",
                                         first, first_dt, dmin, r.a, r.hb, r.c);
                        });
                    }
                }
            }
        }

        // --- sense flips across each reported crossing; normal at the first hit
        bool normal_done = false;
        for (int k = 0; k < N; ++k)
        {
            double d = res[k];
            if (!(d > 0) || !std::isfinite(d))
                continue;
            ld t = d;
            ld fp = fabsl(2 * (r.a * t + r.hb));
            ld tol_hit = tol_at(t);  // includes the solver's cancellation term hbm^2/|a|
            if (!(fp > 0) || !disc_ok)
            {
                cx.tag(T_flip_skipped);
                continue;
            }
            // the probe points are rounded to double: |delta f| <= sum |g_i| ulp(p_i)/2
            double ph0[3];
            for (int i = 0; i < 3; ++i)
                ph0[i] = double(ld(p[i]) + t * ld(u[i]));
            Grad Gh = evalg(q, ph0);
            ld tol_round = 0;
            for (int i = 0; i < 3; ++i)
                tol_round += 2 * EPS * fabsl(Gh.g[i]) * (fabsl(ld(ph0[i])) + fabsl(q.o[i]));
            ld h = 8 * (tol_hit + tol_round) / fp + 0x1p-26L * std::max<ld>(t, 1);
            // the other root must be away from the window
            bool window_ok = true;
            if (nroots == 2)
            {
                ld other = fabsl(roots[0] - t) < fabsl(roots[1] - t) ? roots[1] : roots[0];
                if (fabsl(other - t) <= 4 * h)
                    window_ok = false;
            }
            else if (reg != reg_linear && r.a != 0)
                window_ok = false;
            if (reg == reg_along || reg == reg_edge)
            {
                // linearised distance: the true crossing may be off by a t^2 / fp
                if ((fabsl(r.a) + amargin) * t * t / fp > h)
                    window_ok = false;
            }
            if (!window_ok)
            {
                cx.tag(T_flip_skipped);
                continue;
            }
            // (i) exact arithmetic along the ray: f changes sign across the reported distance
            {
                ld tm = t - h, tp = t + h;
                ld fm_ = (r.a * tm + 2 * r.hb) * tm + r.c, fp_ = (r.a * tp + 2 * r.hb) * tp + r.c;
                if ((fm_ > 0) == (fp_ > 0) && fabsl(fm_) > tol_hit && fabsl(fp_) > tol_hit)
                {
                    cx.viol(std::string(q.sig) + ":reported-crossing-is-not-a-crossing", cid, [&] {
                        return ctx_str(p, u, on)
                               + fmt(" distance[%d]=%s: f(d-h)=%Lg and f(d+h)=%Lg have the same sign (h=%Lg)",
                                     k, vf::dstr(d).c_str(), fm_, fp_, h);
                    });
                    continue;
                }
            }
            // (ii) the real calc_sense at the (rounded) probe points
            ld pm[3], pp[3];
            for (int i = 0; i < 3; ++i)
            {
                pm[i] = ld(p[i]) + (t - h) * ld(u[i]);
                pp[i] = ld(p[i]) + (t + h) * ld(u[i]);
            }
            double dm[3], dp[3];
            int cm_, om, cp_, op;
            check_sense_at(pm, 0, dm, &cm_, &om);
            check_sense_at(pp, 0, dp, &cp_, &op);
            cx.evals += 2;
            if (om == 0 || op == 0 || om == op)
            {
                cx.tag(T_flip_skipped);
            }
            else
            {
                cx.tag(T_flip_checked);
                if (cm_ != om || cp_ != op)
                {
                    cx.viol(std::string(q.sig) + ":sense-does-not-flip", cid, [&] {
                        return ctx_str(p, u, on)
                               + fmt(" distance[%d]=%s: calc_sense before/after = %d/%d, sign f = "
                                     "%d/%d at %s / %s",
                                     k, vf::dstr(d).c_str(), cm_, cp_, om, op, p3(dm).c_str(),
                                     p3(dp).c_str());
                    });
                }
            }
            if (!normal_done)
            {
                normal_done = true;
                double ph[3];
                for (int i = 0; i < 3; ++i)
                    ph[i] = double(ld(p[i]) + t * ld(u[i]));
                check_normal(ph);
            }
        }
    }

    void check_normal(double const ph[3])
    {
        Grad G = evalg(q, ph);
        ld gn = sqrtl(G.g[0] * G.g[0] + G.g[1] * G.g[1] + G.g[2] * G.g[2]);
        if (!(gn > 1e4L * KT * EPS * G.gm))
        {
            cx.tag(T_normal_singular);
            return;
        }
        ++cx.evals;
        cx.tag(T_normal_checked);
        Real3 n = s.calc_normal(R3(ph));
        ld nn = sqrtl(ld(n[0]) * n[0] + ld(n[1]) * n[1] + ld(n[2]) * n[2]);
        // unit: sqrt + 3 products + division: 8 eps ; planes return the stored normal (<= 2 eps)
        ld tol = KT * EPS * G.gm / gn + 8 * EPS;
        bool bad = !(fabsl(nn - 1) <= 8 * EPS);
        for (int i = 0; i < 3; ++i)
            if (!(fabsl(ld(n[i]) - G.g[i] / gn) <= tol))
                bad = true;
        if (bad)
        {
            cx.viol(std::string(q.sig) + ":normal-not-unit-gradient", cid, [&] {
                return fmt("%s data=%s pos=%s calc_normal=%s |n|-1=%Lg expected grad/|grad|=(%Lg,%Lg,%Lg) tol=%Lg",
                           q.sig, data_str(s).c_str(), p3(ph).c_str(),
                           p3(std::array<double, 3>{n[0], n[1], n[2]}.data()).c_str(), nn - 1,
                           G.g[0] / gn, G.g[1] / gn, G.g[2] / gn, tol);
            });
        }
    }
};

//---------------------------------------------------------------------------//
struct Pt
{
    double p[3];
    int kind;  // 0 lattice, 1 far, 2 generated on-surface, 3 near-surface, 4 tangent start
    int ed0 = 0, ed1 = 0;  // extra directions [ed0, ed1)
};

//! Points on the surface: solve f = 0 for one coordinate from lattice base points
static void gen_on_points(OQ const& q, std::vector<double> const& lat, int want, std::vector<Pt>& out)
{
    if (want <= 0)
        return;
    int n = int(lat.size());
    int made = 0;
    int idx = 0;
    std::vector<std::array<double, 3>> seen;
    for (int rep = 0; rep < 3 && made < want; ++rep)
        for (int i = 0; i < n && made < want; ++i)
            for (int j = 0; j < n && made < want; ++j, ++idx)
            {
                int k = (idx + rep) % 3;  // coordinate solved for
                double base[3];
                base[k] = 0;
                base[(k + 1) % 3] = lat[i];
                base[(k + 2) % 3] = lat[(j + rep) % n];
                double e[3] = {0, 0, 0};
                e[k] = 1;
                RayO r = ray_coeffs(q, base, e);
                ld cand[2];
                int nc = 0;
                if (r.a == 0)
                {
                    if (r.hb != 0)
                        cand[nc++] = -r.c / (2 * r.hb);
                }
                else
                {
                    ld D = r.hb * r.hb - r.a * r.c;
                    if (D >= 0)
                    {
                        ld sq = sqrtl(D);
                        ld qq = -(r.hb + (r.hb >= 0 ? sq : -sq));
                        if (qq != 0)
                        {
                            cand[nc++] = r.c / qq;
                            cand[nc++] = qq / r.a;
                        }
                        else
                            cand[nc++] = 0;
                    }
                }
                for (int c = 0; c < nc && made < want; ++c)
                {
                    if (!std::isfinite((double)cand[c]) || fabsl(cand[c]) > 1e3L)
                        continue;
                    Pt pt;
                    pt.kind = 2;
                    pt.p[0] = base[0];
                    pt.p[1] = base[1];
                    pt.p[2] = base[2];
                    pt.p[k] = double(cand[c]);
                    FM v = evalf(q, pt.p);
                    if (!(fabsl(v.f) <= 4 * EPS * v.m))
                        continue;
                    std::array<double, 3> key{pt.p[0], pt.p[1], pt.p[2]};
                    if (std::find(seen.begin(), seen.end(), key) != seen.end())
                        continue;
                    seen.push_back(key);
                    out.push_back(pt);
                    ++made;
                }
            }
}

//! Two unit tangents at p (perpendicular to the gradient); false at singular points
static bool tangents(OQ const& q, double const p[3], double t1[3], double t2[3])
{
    Grad G = evalg(q, p);
    ld gn = sqrtl(G.g[0] * G.g[0] + G.g[1] * G.g[1] + G.g[2] * G.g[2]);
    if (!(gn > 1e4L * KT * EPS * G.gm) || gn == 0)
        return false;
    int k = 0;
    for (int i = 1; i < 3; ++i)
        if (fabsl(G.g[i]) < fabsl(G.g[k]))
            k = i;
    ld e[3] = {0, 0, 0};
    e[k] = 1;
    ld a[3] = {G.g[1] * e[2] - G.g[2] * e[1], G.g[2] * e[0] - G.g[0] * e[2], G.g[0] * e[1] - G.g[1] * e[0]};
    normalize(a, t1);
    ld b[3] = {G.g[1] * a[2] - G.g[2] * a[1], G.g[2] * a[0] - G.g[0] * a[2], G.g[0] * a[1] - G.g[1] * a[0]};
    normalize(b, t2);
    return true;
}

//! Directions along which the quadratic form vanishes (asymptotic directions), and neighbours
//! giving |a| ~ 1e-11 .. 1e-8, from sign changes of a(u) between lattice directions
static void null_dirs(OQ const& q, std::vector<Dir> const& lat, int max_pairs, std::vector<Dir>& out)
{
    if (q.fam != OQ::general)
        return;
    auto aform = [&](ld const w[3]) {
        return q.A[0] * w[0] * w[0] + q.A[1] * w[1] * w[1] + q.A[2] * w[2] * w[2]
               + q.C[0] * w[0] * w[1] + q.C[1] * w[1] * w[2] + q.C[2] * w[2] * w[0];
    };
    int pairs = 0;
    size_t n = lat.size();
    for (size_t i = 0; i < n && pairs < max_pairs; i += 3)
        for (size_t j = i + 1; j < n && pairs < max_pairs; j += 2)
        {
            ld vi[3] = {lat[i].u[0], lat[i].u[1], lat[i].u[2]};
            ld vj[3] = {lat[j].u[0], lat[j].u[1], lat[j].u[2]};
            ld ai = aform(vi), aj = aform(vj);
            if (!(ai * aj < 0))
                continue;
            ld d[3] = {vj[0] - vi[0], vj[1] - vi[1], vj[2] - vi[2]};
            ld ad = aform(d);
            ld bil = (aj - ai - ad) / 2;  // B(vi, d)
            // a(vi + s d) = ai + 2 s bil + s^2 ad
            ld s;
            if (ad == 0)
                s = -ai / (2 * bil);
            else
            {
                ld D = bil * bil - ad * ai;
                if (D < 0)
                    continue;
                ld sq = sqrtl(D);
                ld qq = -(bil + (bil >= 0 ? sq : -sq));
                ld s1 = ai / qq, s2 = qq / ad;
                s = (s1 > 0 && s1 < 1) ? s1 : s2;
            }
            if (!(s > 0 && s < 1))
                continue;
            ++pairs;
            for (ld ds : {0.0L, 0x1p-34L, -0x1p-31L, 0x1p-27L})
            {
                ld w[3] = {vi[0] + (s + ds) * d[0], vi[1] + (s + ds) * d[1], vi[2] + (s + ds) * d[2]};
                Dir dd;
                normalize(w, dd.u);
                out.push_back(dd);
            }
        }
}

template<class S>
static void check_surface(Ctx& cx,
                          S const& s,
                          std::string const& cid,
                          Budget const& b,
                          std::vector<Dir> const& latd,
                          std::vector<Dir> const& tiltd)
{
    OQ q = derive(s);
    RayChecker<S> rc{s, q, cx, cid};
    cx.mask = 0;

    // ---- positions
    std::vector<Pt> pts;
    for (double x : b.lat)
        for (double y : b.lat)
            for (double z : b.lat)
                pts.push_back(Pt{{x, y, z}, 0});
    for (int i = 0; i < b.n_far; ++i)
        pts.push_back(Pt{{far_pts[i][0], far_pts[i][1], far_pts[i][2]}, 1});
    std::vector<Pt> onp;
    gen_on_points(q, b.lat, b.n_on, onp);
    std::vector<Dir> extra;
    // aimed directions for far points: towards generated on-surface points and the origin o
    {
        size_t first_far = b.lat.size() * b.lat.size() * b.lat.size();
        for (int i = 0; i < b.n_far; ++i)
        {
            Pt& fp = pts[first_far + i];
            fp.ed0 = int(extra.size());
            for (size_t k = 0; k < onp.size() && k < 2; ++k)
            {
                ld w[3] = {ld(onp[k].p[0]) - fp.p[0], ld(onp[k].p[1]) - fp.p[1], ld(onp[k].p[2]) - fp.p[2]};
                Dir d;
                normalize(w, d.u);
                extra.push_back(d);
            }
            ld w[3] = {q.o[0] + 0.25L - fp.p[0], q.o[1] - 0.125L - fp.p[1], q.o[2] + 0.0625L - fp.p[2]};
            Dir d;
            normalize(w, d.u);
            extra.push_back(d);
            fp.ed1 = int(extra.size());
        }
    }
    // near-surface and tangent-start points from the generated on-surface points
    std::vector<Pt> derived;
    for (size_t k = 0; k < onp.size(); ++k)
    {
        double t1[3], t2[3];
        bool has_t = tangents(q, onp[k].p, t1, t2);
        if (has_t)
        {
            onp[k].ed0 = int(extra.size());
            for (int sgn : {1, -1})
            {
                extra.push_back(Dir{{sgn * t1[0], sgn * t1[1], sgn * t1[2]}});
                extra.push_back(Dir{{sgn * t2[0], sgn * t2[1], sgn * t2[2]}});
            }
            onp[k].ed1 = int(extra.size());
        }
        if (int(k) < b.n_near)
        {
            Grad G = evalg(q, onp[k].p);
            int ax = 0;
            for (int i = 1; i < 3; ++i)
                if (fabsl(G.g[i]) > fabsl(G.g[ax]))
                    ax = i;
            for (int sgn : {1, -1})
            {
                Pt np = onp[k];
                np.kind = 3;
                np.ed0 = np.ed1 = 0;
                double sc = std::max({1.0, std::fabs(np.p[0]), std::fabs(np.p[1]), std::fabs(np.p[2])});
                np.p[ax] += sgn * 0x1p-24 * sc;
                derived.push_back(np);
            }
        }
        if (has_t && int(k) < b.n_tan)
        {
            for (double dist : {1.0, 64.0})
            {
                Pt tp;
                tp.kind = 4;
                double const* tt = (dist == 1.0) ? t1 : t2;
                for (int i = 0; i < 3; ++i)
                    tp.p[i] = double(ld(onp[k].p[i]) - ld(dist) * ld(tt[i]));
                tp.ed0 = int(extra.size());
                extra.push_back(Dir{{tt[0], tt[1], tt[2]}});
                tp.ed1 = int(extra.size());
                derived.push_back(tp);
            }
        }
    }
    pts.insert(pts.end(), onp.begin(), onp.end());
    pts.insert(pts.end(), derived.begin(), derived.end());

    // ---- directions common to all points of this surface
    std::vector<Dir> dirs = latd;
    dirs.insert(dirs.end(), tiltd.begin(), tiltd.end());
    null_dirs(q, latd, b.full_dirs ? 3 : 1, dirs);

    for (Pt const& pt : pts)
    {
        FM v = evalf(q, pt.p);
        bool on;
        if (fabsl(v.f) <= 4 * EPS * v.m)
            on = true;
        else if (fabsl(v.f) > KT * EPS * v.m)
            on = false;
        else
        {
            cx.tag(T_pos_ambiguous);
            continue;
        }
        if (pt.kind == 1)
            cx.tag(T_far_point);
        else if (pt.kind == 3)
            cx.tag(T_near_point);
        else if (pt.kind == 4)
            cx.tag(T_tangent_start);
        if (on && v.f == 0)
            cx.tag(T_exact_on);

        if (!on)
        {
            ++cx.evals;
            cx.tag(T_sense_checked);
            int code = int(s.calc_sense(R3(pt.p)));
            int want = v.f > 0 ? 1 : -1;
            if (code != want)
            {
                cx.viol(std::string(q.sig) + ":sense-is-not-sign-of-f", cid, [&] {
                    return fmt("%s data=%s pos=%s calc_sense=%d but f=%Lg (|terms|=%Lg)", q.sig,
                               data_str(s).c_str(), p3(pt.p).c_str(), code, v.f, v.m);
                });
            }
        }
        else
        {
            rc.check_normal(pt.p);
        }
        for (Dir const& d : dirs)
            rc(pt.p, d.u, on);
        for (int e = pt.ed0; e < pt.ed1; ++e)
            rc(pt.p, extra[e].u, on);
    }

    // non-trivial = (surface instance, solver/regime branch reached)
    uint64_t h = vf::hash_str(cid);
    for (int t = 0; t < T_COUNT; ++t)
        if (cx.mask & (1u << t))
            cx.R.nontrivial(vf::hash_mix(h, t));
    cx.per_type[q.sig]++;
}

