// Independent point location from the geometry *definition* (OrangeInput).
//
// Nothing here calls the navigator, the trackers, the surface classes' sense/intersection
// code, the logic evaluator, the BIH or the universe indexer.  Surfaces are evaluated in
// long double from their stored coefficients following the equations documented in the
// surface headers; region logic is evaluated by an own RPN evaluator; daughters, transforms
// and rectangular arrays are descended by own code.
//
// A point is "ambiguous" when it lies within `eps` (a length, first-order distance
// |f|/|grad f| with a curvature allowance) of ANY surface of any universe it descends
// through, or within eps of a rect-array grid plane.  Ambiguous points carry no claim.
#pragma once

#include <array>
#include <cmath>
#include <string>
#include <variant>
#include <vector>

#include "orange/OrangeInput.hh"
#include "orange/OrangeTypes.hh"
#include "orange/surf/VariantSurface.hh"
#include "orange/transform/VariantTransform.hh"

namespace vf
{
//---------------------------------------------------------------------------//
using LD = long double;
using P3 = std::array<LD, 3>;

struct OSurface
{
    celeritas::SurfaceType type;
    std::vector<LD> d;  // stored coefficients
};

//! f(x) and gradient of a surface; also an upper bound of the second derivatives
inline void eval_surface(OSurface const& s, P3 const& p, LD* f, P3* g, LD* h2)
{
    using ST = celeritas::SurfaceType;
    LD const x = p[0], y = p[1], z = p[2];
    *g = {0, 0, 0};
    *h2 = 0;
    auto axis_of = [](ST t, ST base) { return int(t) - int(base); };
    switch (s.type)
    {
        case ST::px:
        case ST::py:
        case ST::pz: {
            int a = axis_of(s.type, ST::px);
            *f = p[a] - s.d[0];
            (*g)[a] = 1;
            break;
        }
        case ST::cxc:
        case ST::cyc:
        case ST::czc: {
            int a = axis_of(s.type, ST::cxc);
            *f = -s.d[0];
            for (int k = 0; k < 3; ++k)
                if (k != a)
                {
                    *f += p[k] * p[k];
                    (*g)[k] = 2 * p[k];
                }
            *h2 = 2;
            break;
        }
        case ST::sc: {
            *f = x * x + y * y + z * z - s.d[0];
            *g = {2 * x, 2 * y, 2 * z};
            *h2 = 2;
            break;
        }
        case ST::cx:
        case ST::cy:
        case ST::cz: {
            // data: origin_u, origin_v, radius_sq with (U,V) the two other axes in order
            int a = axis_of(s.type, ST::cx);
            int u = (a == 0) ? 1 : 0;
            int v = (a == 2) ? 1 : 2;
            LD du = p[u] - s.d[0], dv = p[v] - s.d[1];
            *f = du * du + dv * dv - s.d[2];
            (*g)[u] = 2 * du;
            (*g)[v] = 2 * dv;
            *h2 = 2;
            break;
        }
        case ST::p: {
            *f = s.d[0] * x + s.d[1] * y + s.d[2] * z - s.d[3];
            *g = {s.d[0], s.d[1], s.d[2]};
            break;
        }
        case ST::s: {
            LD dx = x - s.d[0], dy = y - s.d[1], dz = z - s.d[2];
            *f = dx * dx + dy * dy + dz * dz - s.d[3];
            *g = {2 * dx, 2 * dy, 2 * dz};
            *h2 = 2;
            break;
        }
        case ST::kx:
        case ST::ky:
        case ST::kz: {
            // (u-u0)^2 + (v-v0)^2 - t^2 (w-w0)^2 ; data: origin[3], tangent_sq
            int a = axis_of(s.type, ST::kx);
            LD r[3] = {x - s.d[0], y - s.d[1], z - s.d[2]};
            *f = 0;
            for (int k = 0; k < 3; ++k)
            {
                if (k == a)
                {
                    *f -= s.d[3] * r[k] * r[k];
                    (*g)[k] = -2 * s.d[3] * r[k];
                }
                else
                {
                    *f += r[k] * r[k];
                    (*g)[k] = 2 * r[k];
                }
            }
            *h2 = 2 * std::max<LD>(1, std::fabs(s.d[3]));
            break;
        }
        case ST::sq: {
            // a x^2 + b y^2 + c z^2 + d x + e y + f z + g
            *f = s.d[0] * x * x + s.d[1] * y * y + s.d[2] * z * z + s.d[3] * x + s.d[4] * y
                 + s.d[5] * z + s.d[6];
            *g = {2 * s.d[0] * x + s.d[3], 2 * s.d[1] * y + s.d[4], 2 * s.d[2] * z + s.d[5]};
            *h2 = 2 * std::max({std::fabs(s.d[0]), std::fabs(s.d[1]), std::fabs(s.d[2])});
            break;
        }
        case ST::gq: {
            // a x^2 + b y^2 + c z^2 + d xy + e yz + f zx + g x + h y + i z + j
            LD const a = s.d[0], b = s.d[1], c = s.d[2], d = s.d[3], e = s.d[4], ff = s.d[5],
                     gg = s.d[6], h = s.d[7], i = s.d[8], j = s.d[9];
            *f = a * x * x + b * y * y + c * z * z + d * x * y + e * y * z + ff * z * x + gg * x
                 + h * y + i * z + j;
            *g = {2 * a * x + d * y + ff * z + gg, 2 * b * y + d * x + e * z + h,
                  2 * c * z + e * y + ff * x + i};
            *h2 = 2 * (std::fabs(a) + std::fabs(b) + std::fabs(c)) + std::fabs(d) + std::fabs(e)
                  + std::fabs(ff);
            break;
        }
        default: *f = NAN; break;
    }
}

struct OVolume
{
    std::string label;
    std::vector<int> faces;
    std::vector<celeritas::logic_int> logic;
    bool background{false};
    bool implicit{false};
    int daughter{-1};  // index into OUnit::daughters
};
struct ODaughter
{
    int universe{-1};
    int ttype{0};  // 0 none, 1 translation, 2 transformation
    LD rot[3][3] = {{1, 0, 0}, {0, 1, 0}, {0, 0, 1}};
    LD tra[3] = {0, 0, 0};
    //! parent -> daughter coordinates: R^T (x - t)
    P3 down(P3 const& x) const
    {
        P3 y = {x[0] - tra[0], x[1] - tra[1], x[2] - tra[2]};
        if (ttype < 2)
            return y;
        P3 r;
        for (int i = 0; i < 3; ++i)
            r[i] = rot[0][i] * y[0] + rot[1][i] * y[1] + rot[2][i] * y[2];
        return r;
    }
    //! direction parent -> daughter
    P3 rotate_down(P3 const& d) const
    {
        if (ttype < 2)
            return d;
        P3 r;
        for (int i = 0; i < 3; ++i)
            r[i] = rot[0][i] * d[0] + rot[1][i] * d[1] + rot[2][i] * d[2];
        return r;
    }
};
struct OUniverse
{
    bool is_array{false};
    std::string label;
    // unit
    std::vector<OSurface> surfaces;
    std::vector<OVolume> volumes;
    std::vector<ODaughter> daughters;
    int background{-1};
    // array
    std::array<std::vector<double>, 3> grid;
    int num_volumes() const
    {
        if (!is_array)
            return int(volumes.size());
        return int((grid[0].size() - 1) * (grid[1].size() - 1) * (grid[2].size() - 1));
    }
};

struct OLevel
{
    int universe;
    int local_volume;
    P3 pos;
};
struct OLocation
{
    enum Status
    {
        ok,
        ambiguous,  // within eps of a surface: no claim
        overlap,  // two explicit volumes claim the point (invalid geometry there)
        nowhere,  // no volume and no background
        unsupported  // involute etc.
    };
    Status status{ok};
    std::vector<OLevel> levels;
    int global_volume{-1};  // of the deepest level
    bool outside{false};  // deepest... level-0 volume is the exterior (local 0 of universe 0)
    std::string why;
};

class GeoOracle
{
  public:
    explicit GeoOracle(celeritas::OrangeInput const& inp)
    {
        using namespace celeritas;
        tol_abs_ = inp.tol.abs;
        tol_rel_ = inp.tol.rel;
        for (auto const& vu : inp.universes)
        {
            OUniverse u;
            if (auto const* unit = std::get_if<UnitInput>(&vu))
            {
                u.label = unit->label.name;
                for (auto const& vs : unit->surfaces)
                {
                    OSurface s;
                    s.type = static_cast<SurfaceType>(vs.index());
                    std::visit(
                        [&s](auto const& surf) {
                            for (auto v : surf.data())
                                s.d.push_back(v);
                        },
                        vs);
                    if (s.type == SurfaceType::inv)
                        supported_ = false;
                    u.surfaces.push_back(std::move(s));
                }
                std::map<int, int> vol_to_daughter;
                for (auto const& kv : unit->daughter_map)
                {
                    ODaughter d;
                    d.universe = int(kv.second.universe_id.unchecked_get());
                    std::visit(
                        [&d](auto const& t) {
                            using T = std::decay_t<decltype(t)>;
                            if constexpr (std::is_same_v<T, Translation>)
                            {
                                d.ttype = 1;
                                for (int i = 0; i < 3; ++i)
                                    d.tra[i] = t.translation()[i];
                            }
                            else if constexpr (std::is_same_v<T, Transformation>)
                            {
                                d.ttype = 2;
                                for (int i = 0; i < 3; ++i)
                                {
                                    d.tra[i] = t.translation()[i];
                                    for (int j = 0; j < 3; ++j)
                                        d.rot[i][j] = t.rotation()[i][j];
                                }
                            }
                        },
                        kv.second.transform);
                    vol_to_daughter[int(kv.first.unchecked_get())] = int(u.daughters.size());
                    u.daughters.push_back(d);
                }
                for (size_t vi = 0; vi < unit->volumes.size(); ++vi)
                {
                    auto const& v = unit->volumes[vi];
                    OVolume ov;
                    ov.label = v.label.name;
                    for (auto f : v.faces)
                        ov.faces.push_back(int(f.unchecked_get()));
                    ov.logic = v.logic;
                    ov.background = (v.zorder == ZOrder::background);
                    ov.implicit = (v.flags & VolumeRecord::implicit_vol);
                    auto it = vol_to_daughter.find(int(vi));
                    if (it != vol_to_daughter.end())
                        ov.daughter = it->second;
                    u.volumes.push_back(std::move(ov));
                }
                if (!u.volumes.empty() && u.volumes.back().background)
                    u.background = int(u.volumes.size()) - 1;
            }
            else
            {
                auto const& arr = std::get<RectArrayInput>(vu);
                u.is_array = true;
                u.label = arr.label.name;
                for (int a = 0; a < 3; ++a)
                    u.grid[a] = arr.grid[a];
                for (auto const& di : arr.daughters)
                {
                    ODaughter d;
                    d.universe = int(di.universe_id.unchecked_get());
                    std::visit(
                        [&d](auto const& t) {
                            using T = std::decay_t<decltype(t)>;
                            if constexpr (std::is_same_v<T, Translation>)
                            {
                                d.ttype = 1;
                                for (int i = 0; i < 3; ++i)
                                    d.tra[i] = t.translation()[i];
                            }
                            else if constexpr (std::is_same_v<T, Transformation>)
                            {
                                d.ttype = 2;
                                for (int i = 0; i < 3; ++i)
                                {
                                    d.tra[i] = t.translation()[i];
                                    for (int j = 0; j < 3; ++j)
                                        d.rot[i][j] = t.rotation()[i][j];
                                }
                            }
                        },
                        di.transform);
                    u.daughters.push_back(d);
                }
            }
            univ_.push_back(std::move(u));
        }
        int off = 0;
        for (auto const& u : univ_)
        {
            offsets_.push_back(off);
            off += u.num_volumes();
        }
        num_volumes_ = off;
    }

    bool supported() const { return supported_; }
    //! Exactly coincident duplicate surfaces inside one unit (not de-duplicated input): the
    //! senses of the two copies can disagree after a crossing, so such an input is degenerate
    //! and no navigation claim is made for it.
    bool has_duplicate_surfaces() const
    {
        for (auto const& u : univ_)
            for (size_t i = 0; i < u.surfaces.size(); ++i)
                for (size_t j = i + 1; j < u.surfaces.size(); ++j)
                    if (u.surfaces[i].type == u.surfaces[j].type && u.surfaces[i].d == u.surfaces[j].d)
                        return true;
        return false;
    }
    int num_universes() const { return int(univ_.size()); }
    OUniverse const& universe(int i) const { return univ_[i]; }
    int num_volumes() const { return num_volumes_; }
    int global_volume(int universe, int local) const { return offsets_[universe] + local; }
    double tol_abs() const { return tol_abs_; }
    double tol_rel() const { return tol_rel_; }

    //! Name of a global volume id ("universe/volume")
    std::string volume_name(int gv) const
    {
        if (gv < 0)
            return "<none>";
        for (size_t u = 0; u < univ_.size(); ++u)
        {
            int n = univ_[u].num_volumes();
            if (gv < offsets_[u] + n)
            {
                int l = gv - offsets_[u];
                if (univ_[u].is_array)
                    return univ_[u].label + "/cell" + std::to_string(l);
                return univ_[u].label + "/" + univ_[u].volumes[l].label + "#"
                       + std::to_string(l);
            }
        }
        return "<bad>";
    }

    //! Locate a global point; eps = ambiguity distance (length)
    OLocation locate(std::array<double, 3> const& gpos, double eps) const
    {
        OLocation loc;
        if (!supported_)
        {
            loc.status = OLocation::unsupported;
            return loc;
        }
        P3 pos = {gpos[0], gpos[1], gpos[2]};
        int uid = 0;
        for (int depth = 0; depth < 64; ++depth)
        {
            OUniverse const& u = univ_[uid];
            int local = -1;
            ODaughter const* dau = nullptr;
            if (u.is_array)
            {
                int idx[3];
                for (int a = 0; a < 3; ++a)
                {
                    auto const& g = u.grid[a];
                    if (pos[a] < g.front() - eps || pos[a] > g.back() + eps)
                    {
                        loc.status = OLocation::nowhere;
                        loc.why = "outside array grid";
                        return loc;
                    }
                    int k = -1;
                    for (size_t i = 0; i + 1 < g.size(); ++i)
                        if (pos[a] >= g[i] && pos[a] < g[i + 1])
                            k = int(i);
                    for (double gv : g)
                        if (std::fabs(pos[a] - gv) <= eps)
                        {
                            loc.status = OLocation::ambiguous;
                            loc.why = "near array grid plane";
                            return loc;
                        }
                    if (k < 0)
                    {
                        loc.status = OLocation::nowhere;
                        return loc;
                    }
                    idx[a] = k;
                }
                int ny = int(u.grid[1].size()) - 1, nz = int(u.grid[2].size()) - 1;
                local = (idx[0] * ny + idx[1]) * nz + idx[2];
                dau = &u.daughters.at(local);
            }
            else
            {
                // senses of all surfaces of the unit (true = outside = f > 0)
                std::vector<signed char> sense(u.surfaces.size());
                for (size_t si = 0; si < u.surfaces.size(); ++si)
                {
                    LD f, h2;
                    P3 g;
                    eval_surface(u.surfaces[si], pos, &f, &g, &h2);
                    LD gn = std::sqrt(g[0] * g[0] + g[1] * g[1] + g[2] * g[2]);
                    if (!(std::fabs(f) > LD(eps) * (gn + LD(eps) * h2)))
                    {
                        loc.status = OLocation::ambiguous;
                        loc.why = "near surface " + std::to_string(si) + " of universe "
                                  + std::to_string(uid);
                        return loc;
                    }
                    sense[si] = f > 0;
                }
                int found = -1;
                for (size_t vi = 0; vi < u.volumes.size(); ++vi)
                {
                    OVolume const& v = u.volumes[vi];
                    if (v.background)
                        continue;
                    if (eval_logic(v, sense))
                    {
                        if (found >= 0)
                        {
                            loc.status = OLocation::overlap;
                            loc.why = "volumes " + std::to_string(found) + " and "
                                      + std::to_string(vi) + " of universe "
                                      + std::to_string(uid) + " both contain the point";
                            return loc;
                        }
                        found = int(vi);
                    }
                }
                if (found < 0)
                    found = u.background;
                if (found < 0)
                {
                    loc.status = OLocation::nowhere;
                    loc.why = "no volume in universe " + std::to_string(uid);
                    return loc;
                }
                local = found;
                if (u.volumes[local].daughter >= 0)
                    dau = &u.daughters[u.volumes[local].daughter];
            }
            loc.levels.push_back({uid, local, pos});
            if (!dau)
                break;
            pos = dau->down(pos);
            uid = dau->universe;
        }
        loc.global_volume = global_volume(loc.levels.back().universe,
                                          loc.levels.back().local_volume);
        loc.outside = (loc.levels[0].local_volume == 0);
        return loc;
    }

    //! Is the neighbourhood of a boundary point "clean": every surface (of every universe the
    //! point descends through, following the location of `probe_side`) that comes within
    //! radius r of X passes within `coincide` of X and all such surfaces are mutually parallel
    //! there (one geometric surface, possibly seen at several levels).  Corners, edges and
    //! features thinner than r make a crossing point unclean: no claim is made there.
    bool clean_crossing(std::array<double, 3> const& X, OLocation const& probe_side, double r,
                        double coincide) const
    {
        std::vector<P3> normals;  // global-frame unit normals
        P3 pos = {X[0], X[1], X[2]};
        // accumulated rotation global->local as 3 basis vectors (rows of local axes in global)
        std::vector<ODaughter const*> path;
        for (size_t l = 0; l < probe_side.levels.size(); ++l)
        {
            OUniverse const& u = univ_[probe_side.levels[l].universe];
            if (u.is_array)
            {
                for (int a = 0; a < 3; ++a)
                    for (double gv : u.grid[a])
                    {
                        LD dist = std::fabs(pos[a] - gv);
                        if (dist < r)
                        {
                            if (dist > coincide)
                                return false;
                            P3 n = {0, 0, 0};
                            n[a] = 1;
                            normals.push_back(rotate_up(path, n));
                        }
                    }
            }
            else
            {
                for (auto const& sf : u.surfaces)
                {
                    LD f, h2;
                    P3 g;
                    eval_surface(sf, pos, &f, &g, &h2);
                    LD gn = std::sqrt(g[0] * g[0] + g[1] * g[1] + g[2] * g[2]);
                    if (!(gn > 0))
                    {
                        if (std::fabs(f) < LD(r) * LD(r) * (h2 + 1))
                            return false;  // near a singular point (cone apex...)
                        continue;
                    }
                    LD dist = std::fabs(f) / gn;
                    // curvature allowance: quadric within r if |f| < r (gn + r h2)
                    if (std::fabs(f) < LD(r) * (gn + LD(r) * h2))
                    {
                        if (dist > coincide)
                            return false;
                        P3 n = {g[0] / gn, g[1] / gn, g[2] / gn};
                        normals.push_back(rotate_up(path, n));
                    }
                }
            }
            // descend
            ODaughter const* dau = nullptr;
            int lv = probe_side.levels[l].local_volume;
            if (u.is_array)
                dau = &u.daughters.at(lv);
            else if (u.volumes[lv].daughter >= 0)
                dau = &u.daughters[u.volumes[lv].daughter];
            if (!dau || l + 1 >= probe_side.levels.size())
                break;
            pos = dau->down(pos);
            path.push_back(dau);
        }
        for (size_t i = 0; i < normals.size(); ++i)
            for (size_t j = i + 1; j < normals.size(); ++j)
            {
                LD dp = normals[i][0] * normals[j][0] + normals[i][1] * normals[j][1]
                        + normals[i][2] * normals[j][2];
                if (std::fabs(dp) < 1 - 1e-6L)
                    return false;
            }
        return true;
    }

    //! Number of universe levels (along the chain of `loc`) in which the point X lies within
    //! `tol` of some surface: >= 2 means X sits on a surface that is shared between levels
    //! (a daughter surface coincident with a parent surface).
    int levels_touching_surface(std::array<double, 3> const& X, OLocation const& loc, double tol) const
    {
        int count = 0;
        P3 pos = {X[0], X[1], X[2]};
        for (size_t l = 0; l < loc.levels.size(); ++l)
        {
            OUniverse const& u = univ_[loc.levels[l].universe];
            bool touch = false;
            if (u.is_array)
            {
                for (int a = 0; a < 3; ++a)
                    for (double gv : u.grid[a])
                        touch |= std::fabs(pos[a] - gv) < tol;
            }
            else
            {
                for (auto const& sf : u.surfaces)
                {
                    LD f, h2;
                    P3 g;
                    eval_surface(sf, pos, &f, &g, &h2);
                    LD gn = std::sqrt(g[0] * g[0] + g[1] * g[1] + g[2] * g[2]);
                    if (gn > 0 && std::fabs(f) / gn < tol)
                        touch = true;
                }
            }
            count += touch;
            ODaughter const* dau = nullptr;
            int lv = loc.levels[l].local_volume;
            if (u.is_array)
                dau = &u.daughters.at(lv);
            else if (u.volumes[lv].daughter >= 0)
                dau = &u.daughters[u.volumes[lv].daughter];
            if (!dau)
                break;
            pos = dau->down(pos);
        }
        return count;
    }

    //! Transform a global direction down to the frame of level `lev` of a location
    P3 dir_at_level(OLocation const& loc, std::array<double, 3> const& gdir, size_t lev) const
    {
        P3 d = {gdir[0], gdir[1], gdir[2]};
        for (size_t l = 0; l < lev && l + 1 < loc.levels.size() + 1; ++l)
        {
            OUniverse const& u = univ_[loc.levels[l].universe];
            ODaughter const* dau = u.is_array
                                       ? &u.daughters[loc.levels[l].local_volume]
                                       : &u.daughters[u.volumes[loc.levels[l].local_volume].daughter];
            d = dau->rotate_down(d);
        }
        return d;
    }

  private:
    static P3 rotate_up(std::vector<ODaughter const*> const& path, P3 n)
    {
        for (size_t k = path.size(); k-- > 0;)
        {
            ODaughter const* d = path[k];
            if (d->ttype < 2)
                continue;
            P3 r;
            for (int i = 0; i < 3; ++i)
                r[i] = d->rot[i][0] * n[0] + d->rot[i][1] * n[1] + d->rot[i][2] * n[2];
            n = r;
        }
        return n;
    }
    static bool eval_logic(OVolume const& v, std::vector<signed char> const& sense)
    {
        using namespace celeritas;
        if (v.logic.empty())
            return false;
        bool stack[128];
        int sp = 0;
        for (logic_int tok : v.logic)
        {
            if (!logic::is_operator_token(tok))
            {
                stack[sp++] = sense[v.faces.at(tok)];
            }
            else if (tok == logic::ltrue)
                stack[sp++] = true;
            else if (tok == logic::lnot)
                stack[sp - 1] = !stack[sp - 1];
            else if (tok == logic::land)
            {
                bool b = stack[--sp];
                stack[sp - 1] = stack[sp - 1] && b;
            }
            else if (tok == logic::lor)
            {
                bool b = stack[--sp];
                stack[sp - 1] = stack[sp - 1] || b;
            }
        }
        return sp == 1 && stack[0];
    }

    std::vector<OUniverse> univ_;
    std::vector<int> offsets_;
    int num_volumes_{0};
    bool supported_{true};
    double tol_abs_{0}, tol_rel_{0};
};

//---------------------------------------------------------------------------//
}  // namespace vf
