// Sample points placed by the independent oracle (geo_oracle.hh) from the geometry DEFINITION:
//   * one representative interior point per distinct oracle chain (universe:volume per level),
//     so that every volume of every nested universe instance that the scan can see is sampled
//     (small volumes are found through a per-universe "critical coordinate" grid built from the
//     stored surface coefficients, in the universe's local frame, mapped up to the global frame);
//   * points next to every face of the located volume at every level: foot point X of a chain
//     point on the surface (exact root of the quadratic f restricted to the normal line), then
//     X -+ delta n(X) on both sides.
// Nothing here calls navigation code; the real code's bounding boxes are NOT used.
// The enumeration is deterministic (fixed lattices, fixed order), i.e. part of the declared space.
#pragma once

#include <algorithm>
#include <array>
#include <cmath>
#include <map>
#include <string>
#include <vector>

#include "oracle/geo_oracle.hh"

namespace vf
{
//---------------------------------------------------------------------------//
using SD3 = std::array<double, 3>;

struct OInstance
{
    int universe{0};
    int depth{0};
    LD R[3][3] = {{1, 0, 0}, {0, 1, 0}, {0, 0, 1}};  // global = R local + t
    LD t[3] = {0, 0, 0};
    SD3 up(P3 const& x) const
    {
        SD3 r;
        for (int i = 0; i < 3; ++i)
            r[i] = double(R[i][0] * x[0] + R[i][1] * x[1] + R[i][2] * x[2] + t[i]);
        return r;
    }
};

//! Placements of universes in the global frame (breadth first, capped; for units/arrays with
//! many daughters a fixed spread of them is followed)
inline std::vector<OInstance>
enumerate_instances(GeoOracle const& o, size_t cap = 64, size_t max_daughters = 6)
{
    std::vector<OInstance> out;
    OInstance root;
    out.push_back(root);
    for (size_t qi = 0; qi < out.size() && out.size() < cap; ++qi)
    {
        OInstance cur = out[qi];
        OUniverse const& u = o.universe(cur.universe);
        size_t nd = u.daughters.size();
        std::vector<size_t> pick;
        if (nd <= max_daughters)
            for (size_t i = 0; i < nd; ++i)
                pick.push_back(i);
        else
            for (size_t k = 0; k < max_daughters; ++k)
            {
                size_t i = (k * (nd - 1)) / (max_daughters - 1);
                if (pick.empty() || pick.back() != i)
                    pick.push_back(i);
            }
        for (size_t di : pick)
        {
            if (out.size() >= cap)
                break;
            ODaughter const& d = u.daughters[di];
            OInstance ch;
            ch.universe = d.universe;
            ch.depth = cur.depth + 1;
            for (int i = 0; i < 3; ++i)
            {
                for (int j = 0; j < 3; ++j)
                {
                    LD s = 0;
                    for (int k = 0; k < 3; ++k)
                        s += cur.R[i][k] * (d.ttype < 2 ? LD(k == j) : d.rot[k][j]);
                    ch.R[i][j] = s;
                }
                LD s = cur.t[i];
                for (int k = 0; k < 3; ++k)
                    s += cur.R[i][k] * d.tra[k];
                ch.t[i] = s;
            }
            out.push_back(ch);
        }
    }
    return out;
}

//! Per-axis coordinates at which something of the universe begins or ends (local frame)
inline void critical_coords(OUniverse const& u, std::array<std::vector<LD>, 3>& c)
{
    using ST = celeritas::SurfaceType;
    if (u.is_array)
    {
        for (int a = 0; a < 3; ++a)
            for (double g : u.grid[a])
                c[a].push_back(g);
        return;
    }
    for (auto const& s : u.surfaces)
    {
        switch (s.type)
        {
            case ST::px:
            case ST::py:
            case ST::pz: c[int(s.type) - int(ST::px)].push_back(s.d[0]); break;
            case ST::cxc:
            case ST::cyc:
            case ST::czc: {
                int a = int(s.type) - int(ST::cxc);
                LD r = std::sqrt(s.d[0]);
                for (int k = 0; k < 3; ++k)
                    if (k != a)
                    {
                        c[k].push_back(-r);
                        c[k].push_back(r);
                    }
                break;
            }
            case ST::sc: {
                LD r = std::sqrt(s.d[0]);
                for (int k = 0; k < 3; ++k)
                {
                    c[k].push_back(-r);
                    c[k].push_back(r);
                }
                break;
            }
            case ST::cx:
            case ST::cy:
            case ST::cz: {
                int a = int(s.type) - int(ST::cx);
                int uu = (a == 0) ? 1 : 0, vv = (a == 2) ? 1 : 2;
                LD r = std::sqrt(s.d[2]);
                c[uu].push_back(s.d[0] - r);
                c[uu].push_back(s.d[0] + r);
                c[vv].push_back(s.d[1] - r);
                c[vv].push_back(s.d[1] + r);
                break;
            }
            case ST::s: {
                LD r = std::sqrt(s.d[3]);
                for (int k = 0; k < 3; ++k)
                {
                    c[k].push_back(s.d[k] - r);
                    c[k].push_back(s.d[k] + r);
                }
                break;
            }
            case ST::kx:
            case ST::ky:
            case ST::kz: {
                // apex, and the cone radius one unit along the axis
                int a = int(s.type) - int(ST::kx);
                LD t = std::sqrt(std::fabs(s.d[3]));
                for (int k = 0; k < 3; ++k)
                {
                    if (k == a)
                        c[k].push_back(s.d[k]);
                    else
                    {
                        c[k].push_back(s.d[k] - t);
                        c[k].push_back(s.d[k] + t);
                    }
                }
                break;
            }
            case ST::sq: {
                // centre -d/(2a) and the semi-axes where they exist
                LD K = -s.d[6];
                LD ctr[3];
                bool okc[3];
                for (int k = 0; k < 3; ++k)
                {
                    okc[k] = std::fabs(s.d[k]) > 0;
                    ctr[k] = okc[k] ? -s.d[3 + k] / (2 * s.d[k]) : 0;
                    if (okc[k])
                        K += s.d[3 + k] * s.d[3 + k] / (4 * s.d[k]);
                }
                for (int k = 0; k < 3; ++k)
                {
                    if (!okc[k])
                        continue;
                    LD q = K / s.d[k];
                    if (q > 0)
                    {
                        c[k].push_back(ctr[k] - std::sqrt(q));
                        c[k].push_back(ctr[k] + std::sqrt(q));
                    }
                    else
                        c[k].push_back(ctr[k]);
                }
                break;
            }
            default: break;  // p, gq: found through the global lattice
        }
    }
}

//! Sample coordinates of one axis: inside every gap between successive critical coordinates
inline std::vector<LD> gap_points(std::vector<LD> c, double off, double fallback_lo, double fallback_hi)
{
    std::sort(c.begin(), c.end());
    std::vector<LD> u;
    for (LD x : c)
        if (std::isfinite(double(x)) && (u.empty() || x - u.back() > 1e-9L * (1 + std::fabs(x))))
            u.push_back(x);
    std::vector<LD> out;
    if (u.size() < 2)
    {
        LD lo = fallback_lo, hi = fallback_hi;
        if (u.size() == 1)
        {
            out.push_back(u[0] - (0.37L + off) * (u[0] - lo > 0 ? std::min<LD>(u[0] - lo, 1) : 1));
            out.push_back(u[0] + (0.41L + off) * (hi - u[0] > 0 ? std::min<LD>(hi - u[0], 1) : 1));
        }
        else
            out.push_back(lo + (0.5L + off) * (hi - lo));
        return out;
    }
    bool few = u.size() < 4;
    // beyond the extreme coordinates: the bounding surfaces of a daughter universe are usually
    // stored in the PARENT (elided in the daughter), so its background extends past them
    LD span = u.back() - u.front();
    out.push_back(u.front() - (0.45L + off) * span);
    out.push_back(u.front() - (0.12L + off) * span);
    out.push_back(u.back() + (0.12L + off) * span);
    out.push_back(u.back() + (0.45L + off) * span);
    for (size_t i = 0; i + 1 < u.size(); ++i)
    {
        LD a = u[i], b = u[i + 1];
        if (few)
        {
            out.push_back(a + (0.2L + off) * (b - a));
            out.push_back(a + (0.8L + off) * (b - a));
        }
        out.push_back(a + (0.5L + off) * (b - a));
    }
    return out;
}

struct OSample
{
    enum Kind
    {
        chain_rep,  // representative (largest first-order clearance) of a distinct chain
        near_face  // next to a face of the located volume, at distance `delta` from the point X
    };
    Kind kind{chain_rep};
    SD3 p{};
    std::string chain;
    double clearance{0};
    // near_face only
    int level{-1}, universe{-1}, surface{-1};  // surface = -1-axis for an array grid plane
    double delta{0};
    SD3 foot{};  // the surface point X (global)
    SD3 toward{};  // global unit vector from p to X
    bool boundary_confirmed{false};  // oracle locates X + probe*toward in another chain (or outside)
    double probe{0};
};

struct OSampleOptions
{
    int lattice{17};  // global n^3 scan
    size_t cand_per_chain{24};  // chain points tried as origin of foot points
    int per_face{1};  // accepted foot points per (chain, level, face)
    std::vector<double> deltas{0.003, 0.02};  // x scale
    size_t max_grid{6000};  // per-instance critical grid cap
    bool near_faces{true};
};

namespace detail_samples
{
inline std::string chain_key(OLocation const& l)
{
    std::string s;
    char buf[32];
    for (auto const& lv : l.levels)
    {
        snprintf(buf, sizeof buf, "%d:%d/", lv.universe, lv.local_volume);
        s += buf;
    }
    return s;
}
//! first-order distance to the nearest surface of any level
inline double clearance(GeoOracle const& o, OLocation const& loc)
{
    LD best = INFINITY;
    for (auto const& lv : loc.levels)
    {
        OUniverse const& u = o.universe(lv.universe);
        if (u.is_array)
        {
            for (int a = 0; a < 3; ++a)
                for (double g : u.grid[a])
                    best = std::min<LD>(best, std::fabs(lv.pos[a] - g));
            continue;
        }
        for (auto const& sf : u.surfaces)
        {
            LD f, h2;
            P3 g;
            eval_surface(sf, lv.pos, &f, &g, &h2);
            LD gn = std::sqrt(g[0] * g[0] + g[1] * g[1] + g[2] * g[2]);
            if (gn > 0)
                best = std::min(best, std::fabs(f) / gn);
        }
    }
    return double(best);
}
//! rotate a vector from the frame of level `lev` of `loc` up to the global frame
inline P3 vec_up(GeoOracle const& o, OLocation const& loc, size_t lev, P3 v)
{
    for (size_t l = lev; l-- > 0;)
    {
        OUniverse const& u = o.universe(loc.levels[l].universe);
        ODaughter const* d = u.is_array
                                 ? &u.daughters[loc.levels[l].local_volume]
                                 : &u.daughters[u.volumes[loc.levels[l].local_volume].daughter];
        if (d->ttype < 2)
            continue;
        P3 r;
        for (int i = 0; i < 3; ++i)
            r[i] = d->rot[i][0] * v[0] + d->rot[i][1] * v[1] + d->rot[i][2] * v[2];
        v = r;
    }
    return v;
}
}  // namespace detail_samples

//! Deterministic oracle-placed samples inside the box [lo, hi]
inline std::vector<OSample> oracle_samples(GeoOracle const& o, SD3 const& lo, SD3 const& hi,
                                           double eps_amb, double scale, OSampleOptions const& opt)
{
    using namespace detail_samples;
    struct Cand
    {
        SD3 p;
        OLocation loc;
        double clr;
    };
    std::vector<SD3> pts;
    // (1) global lattice with the same irrational offsets as the harness lattices
    int const n = opt.lattice;
    for (int ix = 0; ix < n; ++ix)
        for (int iy = 0; iy < n; ++iy)
            for (int iz = 0; iz < n; ++iz)
                pts.push_back({lo[0] + (ix + 0.5 + 0.0173) / n * (hi[0] - lo[0]),
                               lo[1] + (iy + 0.5 - 0.0231) / n * (hi[1] - lo[1]),
                               lo[2] + (iz + 0.5 + 0.0291) / n * (hi[2] - lo[2])});
    // (2) critical-coordinate grids of universe instances
    for (OInstance const& in : enumerate_instances(o))
    {
        std::array<std::vector<LD>, 3> cc;
        critical_coords(o.universe(in.universe), cc);
        if (cc[0].empty() && cc[1].empty() && cc[2].empty())
            continue;
        std::array<std::vector<LD>, 3> g;
        double const offs[3] = {0.0137, -0.0271, 0.0319};
        for (int a = 0; a < 3; ++a)
            g[a] = gap_points(cc[a], offs[a], -0.25 * scale, 0.25 * scale);
        // cap the product by thinning the shortest axes first (keeps the fine axis of slab stacks)
        auto total = [&] { return g[0].size() * g[1].size() * g[2].size(); };
        for (int guard = 0; total() > opt.max_grid && guard < 64; ++guard)
        {
            int pick = -1;
            for (int a = 0; a < 3; ++a)
                if (g[a].size() > 3 && (pick < 0 || g[a].size() < g[pick].size()))
                    pick = a;
            if (pick < 0)
                break;
            std::vector<LD> t;
            for (size_t i = 0; i < g[pick].size(); i += 2)
                t.push_back(g[pick][i]);
            g[pick] = t;
        }
        for (LD x : g[0])
            for (LD y : g[1])
                for (LD z : g[2])
                {
                    SD3 q = in.up(P3{x, y, z});
                    bool inside = true;
                    for (int a = 0; a < 3; ++a)
                        inside = inside && q[a] > lo[a] && q[a] < hi[a];
                    if (inside)
                        pts.push_back(q);
                }
    }
    // locate, group by chain
    std::vector<Cand> cands;
    std::map<std::string, std::vector<size_t>> by_chain;
    std::vector<std::string> order;  // chains in order of first appearance
    for (SD3 const& p : pts)
    {
        OLocation l = o.locate(p, eps_amb);
        if (l.status != OLocation::ok || l.outside)
            continue;
        std::string key = chain_key(l);
        auto& v = by_chain[key];
        if (v.empty())
            order.push_back(key);
        cands.push_back({p, l, clearance(o, l)});
        v.push_back(cands.size() - 1);
    }
    std::vector<OSample> out;
    for (auto const& key : order)
    {
        auto const& v = by_chain[key];
        size_t best = v[0];
        for (size_t i : v)
            if (cands[i].clr > cands[best].clr)
                best = i;
        OSample s;
        s.kind = OSample::chain_rep;
        s.p = cands[best].p;
        s.chain = key;
        s.clearance = cands[best].clr;
        out.push_back(s);
    }
    if (!opt.near_faces)
        return out;
    // (3) next to every face of the located volume, at every level
    double const probe = 10 * eps_amb;
    for (auto const& key : order)
    {
        auto const& v = by_chain[key];
        // candidate origins: a fixed spread over the chain's points
        std::vector<size_t> origins;
        size_t stride = std::max<size_t>(1, v.size() / opt.cand_per_chain);
        for (size_t i = 0; i < v.size() && origins.size() < opt.cand_per_chain; i += stride)
            origins.push_back(v[i]);
        OLocation const& l0 = cands[v[0]].loc;
        for (size_t lev = 0; lev < l0.levels.size(); ++lev)
        {
            OUniverse const& u = o.universe(l0.levels[lev].universe);
            // faces: of the located volume (all surfaces when the list is empty), or the six
            // walls of the array cell
            std::vector<int> faces;
            if (u.is_array)
                faces = {-1, -2, -3, -4, -5, -6};  // -(1 + axis) low wall, -(4 + axis) high wall
            else
            {
                faces = u.volumes[l0.levels[lev].local_volume].faces;
                if (faces.empty())
                    for (size_t si = 0; si < u.surfaces.size(); ++si)
                        faces.push_back(int(si));
            }
            for (int face : faces)
            {
                int accepted = 0;
                for (size_t oi : origins)
                {
                    if (accepted >= opt.per_face)
                        break;
                    Cand const& cd = cands[oi];
                    P3 pl = cd.loc.levels[lev].pos;
                    P3 X, nX;
                    LD side;  // sign of f at the origin: inner side of the surface
                    if (u.is_array)
                    {
                        int a = (-face - 1) % 3;
                        bool high = (-face - 1) >= 3;
                        auto const& g = u.grid[a];
                        double wall = NAN;
                        for (size_t i = 0; i + 1 < g.size(); ++i)
                            if (pl[a] >= g[i] && pl[a] < g[i + 1])
                                wall = high ? g[i + 1] : g[i];
                        if (!std::isfinite(wall))
                            continue;
                        X = pl;
                        X[a] = wall;
                        nX = {0, 0, 0};
                        nX[a] = 1;
                        side = high ? -1 : 1;
                    }
                    else
                    {
                        OSurface const& sf = u.surfaces[face];
                        LD f0, h2;
                        P3 g0;
                        eval_surface(sf, pl, &f0, &g0, &h2);
                        LD gn = std::sqrt(g0[0] * g0[0] + g0[1] * g0[1] + g0[2] * g0[2]);
                        if (!(gn > 0) || !std::isfinite(double(f0)))
                            continue;
                        P3 nn = {g0[0] / gn, g0[1] / gn, g0[2] / gn};
                        // f restricted to the normal line is exactly quadratic: three evaluations
                        LD f1, fm;
                        P3 gt;
                        eval_surface(sf, P3{pl[0] + nn[0], pl[1] + nn[1], pl[2] + nn[2]}, &f1, &gt, &h2);
                        eval_surface(sf, P3{pl[0] - nn[0], pl[1] - nn[1], pl[2] - nn[2]}, &fm, &gt, &h2);
                        LD A = (f1 + fm) / 2 - f0, B = (f1 - fm) / 2, C = f0;
                        LD t = NAN;
                        if (std::fabs(A) < 1e-14L * (std::fabs(B) + std::fabs(C)))
                            t = -C / B;
                        else
                        {
                            LD disc = B * B - 4 * A * C;
                            if (disc < 0)
                                continue;
                            LD sq = std::sqrt(disc);
                            LD q = -(B + (B >= 0 ? sq : -sq)) / 2;
                            LD t1 = q / A, t2 = (q != 0) ? C / q : NAN;
                            t = t1;
                            if (std::isfinite(double(t2)) && std::fabs(t2) < std::fabs(t1))
                                t = t2;
                        }
                        if (!std::isfinite(double(t)))
                            continue;
                        X = {pl[0] + t * nn[0], pl[1] + t * nn[1], pl[2] + t * nn[2]};
                        LD fx;
                        P3 gx;
                        eval_surface(sf, X, &fx, &gx, &h2);
                        LD gxn = std::sqrt(gx[0] * gx[0] + gx[1] * gx[1] + gx[2] * gx[2]);
                        if (!(gxn > 0))
                            continue;
                        nX = {gx[0] / gxn, gx[1] / gxn, gx[2] / gxn};
                        side = f0 > 0 ? 1 : -1;
                    }
                    LD dist = std::sqrt((X[0] - pl[0]) * (X[0] - pl[0]) + (X[1] - pl[1]) * (X[1] - pl[1])
                                        + (X[2] - pl[2]) * (X[2] - pl[2]));
                    if (!(dist > 4 * probe))
                        continue;
                    // global foot point and global inward normal
                    P3 dX = vec_up(o, cd.loc, lev, P3{X[0] - pl[0], X[1] - pl[1], X[2] - pl[2]});
                    P3 nin = vec_up(o, cd.loc, lev, P3{side * nX[0], side * nX[1], side * nX[2]});
                    SD3 Xg = {double(cd.p[0] + dX[0]), double(cd.p[1] + dX[1]), double(cd.p[2] + dX[2])};
                    bool box_ok = true;
                    for (int a = 0; a < 3; ++a)
                        box_ok = box_ok && Xg[a] > lo[a] && Xg[a] < hi[a];
                    if (!box_ok)
                        continue;
                    // X must be a boundary of THIS chain: just inside is the chain ...
                    SD3 qi = {Xg[0] + probe * double(nin[0]), Xg[1] + probe * double(nin[1]),
                              Xg[2] + probe * double(nin[2])};
                    OLocation li = o.locate(qi, eps_amb);
                    if (li.status != OLocation::ok || chain_key(li) != key)
                        continue;
                    // ... and just beyond is something else
                    SD3 qo = {Xg[0] - probe * double(nin[0]), Xg[1] - probe * double(nin[1]),
                              Xg[2] - probe * double(nin[2])};
                    OLocation lo_ = o.locate(qo, eps_amb);
                    bool confirmed = lo_.status == OLocation::ok && chain_key(lo_) != key;
                    if (lo_.status == OLocation::ok && !confirmed)
                        continue;  // not a boundary here (internal surface of a union etc.)
                    bool any = false;
                    for (double dfrac : opt.deltas)
                    {
                        double delta = dfrac * scale;
                        if (delta > 0.5 * double(dist))
                            delta = 0.5 * double(dist);
                        if (delta < 4 * probe)
                            continue;
                        for (int sgn : {1, -1})
                        {
                            SD3 q = {Xg[0] + sgn * delta * double(nin[0]),
                                     Xg[1] + sgn * delta * double(nin[1]),
                                     Xg[2] + sgn * delta * double(nin[2])};
                            OLocation lq = o.locate(q, eps_amb);
                            if (lq.status != OLocation::ok || lq.outside)
                                continue;
                            std::string kq = chain_key(lq);
                            if (sgn > 0 && kq != key)
                                continue;  // something thinner than delta: not this chain's sample
                            if (sgn < 0 && (!confirmed || kq == key))
                                continue;
                            OSample s;
                            s.kind = OSample::near_face;
                            s.p = q;
                            s.chain = kq;
                            s.clearance = clearance(o, lq);
                            s.level = int(lev);
                            s.universe = l0.levels[lev].universe;
                            s.surface = face;
                            s.delta = delta;
                            s.foot = Xg;
                            s.toward = {-sgn * double(nin[0]), -sgn * double(nin[1]),
                                        -sgn * double(nin[2])};
                            // beyond X (seen from q) lies another chain: for the inner point that is
                            // qo; for the outer point it is qi (chain `key` != kq)
                            s.boundary_confirmed = confirmed;
                            s.probe = probe;
                            out.push_back(s);
                            any = true;
                        }
                    }
                    if (any)
                        ++accepted;
                }
            }
        }
    }
    return out;
}

//! Exactly degenerate interior points of the stored surfaces: sphere centres and points on the
//! axis of (centred or general axis-aligned) cylinders, of every universe instance, in the
//! global frame.  The gradient of the surface vanishes there (no unit normal exists), which is a
//! special branch of the safety calculation; the points are ordinary interior points (a pencil
//! beam along the axis of a detector barrel travels on such an axis).
struct ODegenerate
{
    SD3 p{};
    int universe{-1}, surface{-1};
    bool axis{false};  // false: sphere centre
};
inline std::vector<ODegenerate>
degenerate_points(GeoOracle const& o, SD3 const& lo, SD3 const& hi, double scale, size_t per_axis = 3)
{
    using ST = celeritas::SurfaceType;
    std::vector<ODegenerate> out;
    auto push = [&](OInstance const& in, P3 const& local, int u, int si, bool axis) {
        ODegenerate d;
        d.p = in.up(local);
        for (int a = 0; a < 3; ++a)
            if (!(d.p[a] > lo[a] && d.p[a] < hi[a]))
                return;
        for (auto const& e : out)
            if (std::fabs(e.p[0] - d.p[0]) + std::fabs(e.p[1] - d.p[1]) + std::fabs(e.p[2] - d.p[2])
                < 1e-9 * scale)
                return;
        d.universe = u;
        d.surface = si;
        d.axis = axis;
        out.push_back(d);
    };
    for (OInstance const& in : enumerate_instances(o))
    {
        OUniverse const& u = o.universe(in.universe);
        if (u.is_array)
            continue;
        std::array<std::vector<LD>, 3> cc;
        critical_coords(u, cc);
        for (size_t si = 0; si < u.surfaces.size(); ++si)
        {
            OSurface const& s = u.surfaces[si];
            switch (s.type)
            {
                case ST::sc: push(in, P3{0, 0, 0}, in.universe, int(si), false); break;
                case ST::s: push(in, P3{s.d[0], s.d[1], s.d[2]}, in.universe, int(si), false); break;
                case ST::cxc:
                case ST::cyc:
                case ST::czc:
                case ST::cx:
                case ST::cy:
                case ST::cz: {
                    bool centred = s.type == ST::cxc || s.type == ST::cyc || s.type == ST::czc;
                    int a = int(s.type) - int(centred ? ST::cxc : ST::cx);
                    int uu = (a == 0) ? 1 : 0, vv = (a == 2) ? 1 : 2;
                    // a few positions along the axis: inside gaps of that axis' critical coordinates
                    auto g = gap_points(cc[a], 0.0173, -0.25 * scale, 0.25 * scale);
                    size_t stride = std::max<size_t>(1, g.size() / per_axis);
                    size_t cnt = 0;
                    for (size_t i = stride / 2; i < g.size() && cnt < per_axis; i += stride, ++cnt)
                    {
                        P3 q = {0, 0, 0};
                        q[a] = g[i];
                        if (!centred)
                        {
                            q[uu] = s.d[0];
                            q[vv] = s.d[1];
                        }
                        push(in, q, in.universe, int(si), true);
                    }
                    break;
                }
                default: break;
            }
        }
    }
    return out;
}

//---------------------------------------------------------------------------//
}  // namespace vf
