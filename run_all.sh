#!/bin/bash
# usage: ./run_all.sh quick|thorough C01 C02 ...   -> summary lines in build/run_all.<tier>.log
tier=$1; shift
mkdir -p build
for p in "$@"; do
  start=$(date +%s)
  out=$(./check $p $tier 2>&1); rc=$?
  end=$(date +%s)
  echo "== $p $tier rc=$rc wall=$((end-start))s"
  echo "$out" | grep -E "VIOLATION|KNOWN-FINDING|\] C[0-9]+ |ERROR|BROKEN" | cut -c1-400
done
