#!/usr/bin/env python3
"""Regenerate DESIGN.md sections 6.2 and 6.3 (between the markers) from seeded/*/meta.json."""
import subprocess, re, os, sys

HERE = os.path.dirname(os.path.abspath(__file__))
table = subprocess.run([sys.executable, os.path.join(HERE, "seeded", "make_table.py")],
                       stdout=subprocess.PIPE, text=True, check=True).stdout

SEC62 = f"""### 6.2 Independently seeded changes (`/verif/seeded/<id>-agent/`)

Twenty fresh sub-agents, one per property, were given ONLY the property text (statement, quantifier,
anchors, mechanisms) and their own scratch worktree of the repository - nothing from `/verif`. Each
was asked for one realistic change that breaks the property for some valid input, history, schedule
or configuration, compiles, keeps the whole test suite green, and needs something specific to
manifest, plus a demonstration program that fails with the change and passes without it. Every
delivery was confirmed here the way the brief prescribes (`./seed_verify.sh <id> <checks>`:
`git -C /repo apply patch.diff`, incremental rebuild of `/repo/_build`, the repository's own `ctest`,
the demonstration, `./check <id> quick`, `git -C /repo checkout -- .`, rebuild, demonstration on the
clean tree; serialised through a lock, nothing committed to `/repo`). Each directory holds
`patch.diff`, `demo.cc` + `demo.sh`, the author's `notes.md`, `confirm.log` and `meta.json` (what
it needs, what was run, the verdicts). `ctest` "2/206" are the two MPI tests that also fail on the
pinned tree; a third failure is `app/celer-geo:cpu` hitting its own 20 s limit on the loaded
machine (passes when rerun alone, recorded as `ctest_rerun_of_failed`).

The FIRST verdict is that of the checks as they stood when the seed arrived (the authors of the
checks had not seen it); "after strengthening" is the verdict of the committed checks.

{table}
The rows `<id>-agentB` are a SECOND wave, seeded after the strengthening described below and in 6.3:
again one fresh sub-agent per property, given the property text plus one line on what the first
wave had done there ("choose a different file/function and a different kind of trigger"). Their
first verdicts measure the strengthened checks on changes nobody here had seen: 17 of 20 were
reported by the property's own check, 3 were missed (C05, C07, C15) and led to the last three
items of the list below. (Second-wave agents built only the libraries and the neighbouring unit
tests; the complete `ctest` was run here for every seed before it was kept. Checks of OTHER
properties that were run on a seed out of curiosity and do not report it - e.g. C03 on the C18
`min_element` seed - are listed as "MISSED" in the table too; only the seed's own property counts.)

The rows `<id>-agentC` are a THIRD wave (each agent was told what the two earlier ones had done
for that property and asked for different code and a different kind of trigger - the seeds are
correspondingly more exotic). First verdicts: 14 of 20 reported by the property's own check, 6
missed (C02, C03, C05, C10, C11, C14; four of those six were reported by the check of a neighbouring
property: C06, C10, -, -, -, C18). All 60 seeds of the three waves are reported by the committed
checks.

What the misses taught, and what was changed:

* **C05** (tie `step limit == boundary distance`): the lattice of C01 had no exact ties - start
  points 0.2/1.4 and random-looking limits never tie with a plane. Added: dyadic
  `fixed_step_limiter` configurations, dyadic axis-parallel primaries, range-tie primaries, and the
  direct claim "geometry state on a boundary after the along-step => post-step action is the
  boundary action". The same roots exposed a genuine defect of the pinned tree (known finding
  "internal move rounded onto a surface") and a repaired one (step length 0 after a failed
  allocation, 421fdb0).
* **C09** (general quadrics that differ only in cross terms): no placement pair in the zoo produced
  two such surfaces. Added the mirror pair of tilts about one axis through a common centre, plus
  (from the review) a second tolerance with abs != rel, self-boundary units and a 4-universe
  hierarchy.
* **C15** (`mean =` instead of `mean +=` when both Urban excitation levels are Gaussian): the check
  judged the Urban model by support and draw count only. Added closed-form CDF quadratures of
  every sampling stage per branch on the scripted-word lattice, and the constructor mean-loss identity.
* **C08, C16** (check ended without a verdict): a state that the changed code produced ran into
  an internal consistency test of the harness (`unmapped volume` after a failed crossing) or killed
  the process outside a named case (heap corruption inside ASan itself). Both harnesses now judge
  the state first (`geo.is_on_boundary() == result.boundary`, Stepper use inside named cases, ASan
  report/death callbacks), and the driver reports ANY shard that ends without a verdict as
  violation `abnormal-exit:<part>` instead of ending the run as broken.
* **C05, second wave** (tracking cut applied on a boundary-limited step: the particle is stopped
  ON the surface): no root of the lattice arrived at a boundary with less than the tracking cut.
  Added e-/e+ roots that reach the face of the inner box with 0.005 MeV (below the 0.02 MeV cut)
  and with 0.025 MeV; the seed is then reported by the boundary-state claim of the first wave.
* **C15, second wave** (gamma distribution, `alpha == 1` fast path using the scale as a rate): the
  quadrature lattice paired each shape letter with ONE scale letter, and `alpha = 1` only with
  `beta = 1`, where rate and scale coincide. Parameter letters are now a full cross (shape x scale);
  the general lesson - cross the special values of different parameters, do not pair them - was
  checked for the other two-parameter families.
* **C07, second wave** (per-stream primary buffer replays the tail of an earlier, larger batch):
  every event of the C06 and C07 alphabets had the same number of primaries. Events now carry 5, 3
  and 4 primaries, so that every history / stream assignment with two events on one state contains
  a smaller batch after a larger one.
* **Third wave.** C02 (`CoreState::reset` no longer clears the slot statuses): the property's
  histories had no abandoned event; every NEW bookkeeping state of the search is now also abandoned,
  `reset_state()` is called, the slots and counters must be clean and a fresh event must satisfy a
  fresh ledger. C03 (`LogicStack::apply_or` with an operand pending beneath the `|`): the zoo had no
  volume of the form `A & (B | C)`; geometry g6 adds two (ball caps, framed bars). C05 (stale MSC
  step applied to a particle that starts a step at rest): configurations with MSC AND a starved
  secondary stack, two primaries, so that an annihilation at rest is deferred by an allocation
  failure. C10 (infix string of a tree that still holds a constant inside a join): every tree of the
  search is also printed after `exchange(node, True/False)`, before simplification. C11 (array
  safety with a mis-indexed clamp): rectangular arrays with unequal cell counts 5x2x1, 2x5x1, 1x2x6
  (the bundled ones are 3x4x2 and 2x2x1, where confusing an axis with a plane index is the identity).
  C14 (partial re-opening of the repaired `UniformGrid::find` defect): grids whose computed last
  point lies one ulp below the stored `back` were not in the quick lattice; added.
"""

SEC63 = """### 6.3 Coverage review and strengthening (mutants under `/verif/mutants/<id>/`)

After the first seeds had shown what kind of change slips through (an input dimension missing
from a lattice; a known-finding signature that is too coarse; an oracle that is one-sided), ten
read-only reviewers went through every check against its property and the anchored code and listed
the most plausible small changes the check would NOT see (`/verif/review/<id>.md`, 3-6 per
property, each with the missing lattice value or comparison). Builder sub-agents (and the author
for C01/C05) then closed the cheap ones; every closed gap was demonstrated with the reviewer's
mutant in a scratch copy (diff and violation line recorded under `mutants/<id>/`). Highlights:

| property | added | mutants that are caught only now |
|---|---|---|
| C01/C05 | starved secondary stack (`.cap2/.cap3`), no post-interaction cuts, two primaries per event (second one outside the world), a 4th particle (proton: positive, not an antiparticle, no MSC model) sharing a slot with a multiple-scattering e-, quick-tier re-indexed track order and rotated-daughter geometry, straight-line `length == displacement`, quantitative bound for the field+MSC finding | energy set before the failed-allocation test; see 6.2 for the tie seed |
| C02 | exhaustive frontier (the old search evaluated 1/16 of the successors below depth 1), exact-fit capacity must not throw, child species/position multiset per parent, `unchanged` letter, mixed event ids, implemented bisimulation test | `<=`->`<` in either capacity test, dropped `particle = ti.particle`, dropped `secondaries({})`, event-id slips |
| C16 | throw <=> ledger count exceeds capacity, same Stepper reused after overflow + `reset_state()`, primaries into a non-empty queue at the limit, failed step must carry `physics-failure`, several tracks exhausting the stack in one step, three track orders | validate after insert, dropped `+ num_initializers`, allocator ignoring `start`, dropped failure action |
| C03 | position and remaining step after every move, roots in every volume chain incl. the deepest leaf, off-tangent `set_dir` directions on nested surfaces, re-initialisation op, hex-array, signatures carry the geometry | single-level / wrong-order `rotate_up`, `next_step` not reduced, stale boundary flag on slot reuse, BIH second-visit slip |
| C11 | infinite safety judged like any value, samples next to every face of every level, one per volume chain, exact axis/centre points | non-simple volume / face returning inf; new finding: safety at the exact axis of a cylinder / centre of a sphere |
| C04 | separate gamma / electron relaxation cuts, product identity from the EADL tables, per-photon annihilation kinematics, particle in the brems draw-bound signatures, near-pole letters with y>0, mirrored-frame classification of the recorded rotate() defect | cut swap, Auger electron tagged gamma, brems photon id, photon energies swapped, two wrong repairs of rotate() |
| C20 | renormalising-branch parents with z<0 and y>=0; cone about the mirrored parent on the y<0 letters | copysign-from-z and signed-hypotenuse variants of rotate() |
| C06 | exception aborts (user action throwing at its n-th call, in-kernel throw, invalid event id) + `reset_state()`, StepperResult sequence, looping primary in the field configs, slots = 1, g3 geometry, real SimpleCalo/diagnostics tallies | killed slots surviving reset, insert-before-validate, `num_generated` not reset, looping counter not reset, hoisted post-step action lookup |
| C07 | StatusChecker, action-sorted track order and field+MSC variants, rotated stream assignments for T>=4, per-action atomic budgets, rendezvous at begin-run hooks (TSan lost races on the loaded machine) | static scratch in `count_tracks_per_action`, static field params in the along-step, stream-dependent reseed; new finding (repaired): StatusChecker begin-run race |
| C08 | the returned boundary flag is compared with the geometry state after every call (and a failed / unmapped state is a verdict, not a harness error); trial-budget exhaustion is attributed from a replay of the recorded stepper applications and keeps the oracle name as sub-signature; option sets `max_nsteps` 1/10 and `bump_distance != minimum_step`; steps below coordinate resolution; `operator()()` without a limit; B = 0; RZ map values against long-double re-interpolation incl. a map smaller than the world; both colours of the start/step checkerboard | `accurate_advance` end step, momentum sign in the short-step branch, dropped `chord.length == 0`, bump by `minimum_substep()`, landing threshold from `bump_distance()`, RZ map index/validity slips; new findings: `one_good_step` running out of trials, unchecked sagitta after an exhausted chord search, `operator()()` returning inf/NaN, wrong volume after a crossing that follows a multi-turn RK4 substep |
| C14 | `linear_loss_limit` 0 / 1e-300 and steps down to range x 2^-53, MSC geo->true against the documented inverse + round trip + monotonicity, `msc_mfp` value, options lattice for `range_to_step`, distinct tables per (material, particle) + positron | 'limit 0 means disabled', sign/exponent slips in `MscStepFromGeo`, mfp divided by E, `rho * min_eprime_over_e`, particle ignored in `UrbanMscData::at`; new finding (repaired): negative mean loss for steps below eps x range |
| C09 | GenPrism faces with coincident leading vertices, second tolerance (abs != rel), self-boundary units, 4-universe hierarchy placed twice, mirror tilts | rel/abs swap in SoftSurfaceEqual, background only for >2 volumes, depth from the last daughter; new findings: GenPrism (known), soft_eq_distance (repaired) |
| C10 | De Morgan on aliased trees from `replace_and_simplify`, postfix chains up to and beyond `LogicStack::max_stack_depth()` through `OrangeParams` | un-dealiased `std::get`, `calc_max_depth` off by one, `apply_and` mask |
| C12 | simplifier offsets 1e-7..2^-11 with a 2^-24 ring, `make_permutation(Axis, QuarterTurn)`, on-surface state (at most one root, its value), involute `tol_point` and attribution of missed crossings | unsquared thresholds, permutation sense, `on` ignored by Plane / SimpleQuadric, involute bracket step |
| C19 | tiny cell translations, half-space and semi-infinite bounding boxes, empty-logic implicit volume, literal legacy (SCALE v0) texts, file-name entry points | soft zero in `make_transform`, bbox writer conditions, legacy daughter index, `.gdml` fallback; new finding (repaired): empty-logic volume not readable |
| C13 | Initializer offsets up to 2^64-1, the real engine's `generate_canonical<float/double>` with forced boundary words | 32-bit offset truncation, `GenerateCanonical32<>` default type |
| C15 | see 6.2; charge-2 particle in the energy-loss helper, exact-zero canonicals, regime ties, case-specific rotate signature + near-axis letters with y>0 | Urban stage slips, `ipow<2>(charge)` dropped, Bernoulli `<=`, helper strictness flips, two masked rotate() variants |
| C17 | the real `copy_steps()` compared element-wise, one-hot and disjoint selections, filter-merge order, detectors without a pre-point field, stream id and per-stream calorimeter, `clear()`, re-indexed orders, non-monotone detector ids | copy loop from slot 1, dropped `parent_id`, `operator bool`/`|=` slips, last-callback-wins filter, `StreamId{0}`, no-op `clear()` |
| C18 | uncalled range iterator operators, ranges straddling 2^31 / 2^32 and wider than 2^32, NaN / signed zeros / returned-reference identity for min/max/clamp, inexact `eumod` | postfix `--`, 32-bit difference type, ternary `max`, `clamp` with `<=`; new finding (repaired): `eumod` returning the denominator |
"""

SEC63 += """
A last, narrower review followed the third wave. All three second- and third-wave lessons had the same
shape - an input dimension the code depends on was CONSTANT over the lattice, or two dimensions were PAIRED
instead of CROSSED - so five reviewers listed, per harness, the dimensions that are constant, stuck at
their default, paired, or only ever monotone (`/verif/review/<id>.dims.md`), and the cheapest of those
were added as lattice values (no new oracles): zero-energy and timed primaries, table-end energies, a
same-event pair of primaries, tight stack AND initializer limits together (C01/C05/C02/C16); offsets with
subsequence 0, stream ids, event ids up to 2^64/slots, decoupled stream/event/position indices, a small
diagnostic bin count, four slots, distinct unique/event ids (C13/C17/C06/C07); x/y-aligned cylinders,
shifted and non-uniform array grids, a decreasing surface labelling, transformed first operands
(C03/C11/C10/C09); unequal pre/post speeds, charge 2, permuted volume->material maps, a hollow field map,
poisoned neighbour slots and a second process (C20/C08/C14/C04); negative inexact eumod denominators,
static-extent spans, heavy-particle Tsai-Urban, rotation composition against an independent product, unit
headers (C18/C15/C12/C19). What each harness enumerates after these additions is stated in its header
comment and in `config/<id>.py`.
"""

p = os.path.join(HERE, "DESIGN.md")
s = open(p).read()
begin = "<!-- SEC6-BEGIN -->"
end = "<!-- SEC6-END -->"
if begin not in s:
    anchor = "Independently seeded changes (fresh sub-agents that saw only the property text) are recorded under\n`/verif/seeded/<id>/` and summarised in section 6.2 when confirmed.\n"
    assert anchor in s
    s = s.replace(anchor, begin + "\n" + end + "\n")
i, j = s.index(begin), s.index(end)
s = s[:i] + begin + "\n" + SEC62 + "\n" + SEC63 + "\n" + s[j:]
open(p, "w").write(s)
print("sections 6.2/6.3 written")
