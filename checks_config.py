"""Per-property check configuration used by ./check: loaded from config/C*.py.

Each config/Cxx.py defines
  CHECK = {level, rule, assumptions, bounds, parts:[...]}   (see below)
  META  = {engine, design_ref, technique, text, note}        (texts for MANIFEST.json)
A part = one harness executable run on one library flavour:
  name, harness (harness/<harness>.cc, or sources:[...]), flavour (rel|asan|tsan),
  shards{tier:n}, deadline{tier:seconds}, tiers (default both), depth{tier:harness tier} (optional),
  cflags/ldflags/libs/env/args (optional).
"""
import glob, importlib.util, os

_here = os.path.dirname(os.path.abspath(__file__))
CHECKS = {}
METAS = {}
for _f in sorted(glob.glob(os.path.join(_here, "config", "C*.py"))):
    _id = os.path.basename(_f)[:-3]
    _spec = importlib.util.spec_from_file_location("verif_config_" + _id, _f)
    _m = importlib.util.module_from_spec(_spec)
    _spec.loader.exec_module(_m)
    if getattr(_m, "ENABLED", True):
        CHECKS[_id] = _m.CHECK
        METAS[_id] = _m.META
