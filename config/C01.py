_RULE = ("E1 deviation-bounded exploration of one event: configuration lattice {along-step: linear, "
         "linear+fluctuation, uniform field, field+fluctuation, neutral, and the four with Urban MSC} x slots {1,2,8 | quick 1,3} x "
         "track order {none, init_charge, reindex_status} x cross-section level {moderate, high} x "
         "geometry {box-in-box, rotated daughter} ; primary lattice {gamma,e-,e+} x {0.03,1,100,9000 MeV} "
         "x {centre, near wall} x {6 axes + 2 oblique | quick 3} ; ALL interaction-outcome sequences with "
         "<= B deviations (quick 2, thorough 3) from the default 'absorb, deposit all' over the menu "
         "{absorb, scatter/2, scatter+1, absorb+2, absorb+pair(e+e-), absorb+sub-cut secondary, "
         "unchanged, scatter+3, annihilate}. non-trivial = execution with >=1 deviation and >=2 tracks, "
         "distinct by (root, step stream hash).")
CHECK = {
    "level": "model_checking",
    "rule": _RULE,
    "assumptions": [
        "scripted interactions conserve 'available energy' (KE + 2mc^2 for e+) by construction, so any "
        "imbalance is the loop's (continuous loss, cuts, tracking cut, boundary, secondaries handling)",
        "RNG is the real XORWOW reseeded per execution: MFP sampling and loss fluctuations follow one "
        "fixed stream; the explored nondeterminism is the interaction outcome",
        "tolerance 64 ulp x (8 + 4 x steps) x (E_primary + 2mc^2)",
        "Urban MSC variants use a synthetic transport cross section (lambda_tr = E^2 / 20 MeV^2/cm)",
    ],
    "bounds": {"extra_roots": "same executions as C05 (shared harness): boundary arrival below / above the tracking cut; MSC with a starved stack and an at-rest deferral; e+ primary AT REST at birth (E = 0) alone and as second primary next to a 1 MeV e-; primaries exactly at the ends of the scripted tables (1e4 MeV gamma/e-/e+, 1e-3 MeV gamma); non-zero primary times (2^-31 s, 3*2^-32 s) on the dyadic, table-end, at-rest and all two-primary roots",
               "quick": {"deviations": 2}, "thorough": {"deviations": 3}},
    "parts": [
        {"name": "energy", "harness": "c01_energy", "flavour": "rel",
         "shards": {"quick": 16, "thorough": 16}, "deadline": {"quick": 100, "thorough": 1200}},
        {"name": "rng", "harness": "c01_energy", "flavour": "rel",
         "shards": {"quick": 16, "thorough": 16}, "deadline": {"quick": 100, "thorough": 900}},
    ],
}
META = {
    "engine": "E1 deviation-bounded choice-tree explorer (engine/explorer.hh, harness/loop_explore.hh)",
    "design_ref": "DESIGN.md section 3, C01",
    "technique": "stateless deviation-bounded exhaustive exploration of interaction-outcome sequences on "
                 "the real stepping loop with an independent energy ledger",
    "text": ("Every outcome sequence within the deviation bound is executed on the real Stepper for every "
             "configuration/primary of the lattice and the event and per-track energy balance is recomputed "
             "from the public step stream; forced rare branches (sub-cut secondaries, e+ bookkeeping, "
             "tracking cut, range end, boundary-limited steps) are reached by construction rather than by "
             "luck."),
    "note": "states = distinct step streams; transitions = Stepper calls; traces are implementation traces.",
}
