CHECK = {
    "level": "model_checking",
    "rule": ("explicit-state exploration of CsgTree: state = tree built by a sequence of effective "
             "insert() calls (<= K nodes besides true/false, <= 4 surfaces introduced in canonical "
             "order under two surface-id labellings); at every state with < K nodes ALL inserts of the "
             "alphabet {existing/next surface, not{x}, all/any with every ordered operand list of "
             "length 0..3 over all nodes incl. true/false, duplicates and complementary pairs} are "
             "applied and the returned node compared with the intended expression's truth table; on "
             "every state and EVERY node as root: own truth table over all 2^n assignments vs "
             "PostfixLogicBuilder->LogicEvaluator (plain and remapped), InternalSurfaceFlagger "
             "(simple => conjunction of literals), build_infix_string, SenseEvaluator; simplify() from "
             "every start; replace_and_simplify(n, True|False) for every n (agreement on consistent "
             "assignments, exception only if none) followed by postfix/flagger/string/simplify on the "
             "replaced tree; transform_negated_joins with volume sets {}, {i}, {i,j}, all (volumes "
             "keep their function, no negated join left) followed by explicit infix (fully "
             "parenthesised and with the outer parentheses omitted, in front of a guard page) -> "
             "InfixEvaluator on every node; transform_negated_joins ALSO on every tree produced by "
             "replace_and_simplify (aliases and literal constants inside; volume sets {}, {all alias "
             "nodes + unreferenced nodes}, each alias node, each negated surface; agreement on the "
             "consistent assignments). K = 6 (quick) / 7 (thorough).  Second lattice (both tiers): "
             "right-nested alternating all/any chains over the 4 surfaces, plain and with every "
             "second level negated, both outer operators, both labellings, with postfix stack depth "
             "5, 8, 9, 15, 16, 17, 24, 31, 32, 33, 40, M-2, M-1, M, M+1, M+8 (M = "
             "LogicStack::max_stack_depth() = 64 in this host build): encoders on the root for depth "
             "< M, and a hand-made UnitInput -> OrangeParams for every depth (rejected with the "
             "logic-depth error iff depth >= M; else scalars.max_logic_depth == depth and "
             "LogicEvaluator on the stored logic reproduces the truth table). non-trivial = distinct (tree shape, set of branch tags reached) class "
             "of a state with >= 2 nodes."),
    "assumptions": [
        "surface identity matters only through the numeric LocalSurfaceId order: surfaces are "
        "introduced in canonical order and two labellings ({0,1,2,3} and the sparse, non-monotone "
        "{5,1,6,3}) are run; a third, strictly decreasing labelling {7,4,2,0} (first surface = largest "
        "id) is run one level shallower for the insert transitions and the encoder checks only",
        "replace_and_simplify is applied once per tree (a second call trips its own debug "
        "assertions on literal True nodes)",
        "transform_negated_joins is applied to alias-free insert-built trees and to the aliased "
        "trees that replace_and_simplify produces (DeMorganSimplifier dereferences aliases "
        "throughout, the library's unit test transform_negated_joins_with_aliases runs it on one, "
        "and the property quantifies over trees with aliases); trees with a double negation "
        "(possible only through an alias) stay excluded as its class comment demands",
        "this commit has no production tree->infix converter (transform_negated_joins and "
        "InfixEvaluator are only reached from unit tests): the harness emits the documented explicit "
        "infix form of the De Morgan'ed tree; expressions containing the constant False cannot be "
        "written in that token language and are skipped",
        "simplify() on insert-built trees is a no-op by construction (insert already simplifies one "
        "level); it is exercised non-trivially on the replaced trees",
        "CELERITAS_DEBUG is off: library assertions are not an oracle; malformed results are "
        "detected by the harness's own tree analysis before any library visitor is called",
    ],
    "bounds": {"exchange_strings": "every tree of the search is also printed with build_infix_string after exchange(node, True|False) for every node, before any simplification (constants inside joins)",
               "quick": {"effective_inserts_per_labelling": 6, "labellings": 2,
                         "third_labelling": "{7,4,2,0}, 5 effective inserts, encoders (postfix plain + remapped, flagger, sense, string) only",
                         "surfaces": 4, "operands": 3,
                         "chain_stack_depths": "5..40 and M-2..M+8 (16 values), x2 operators x2 negation patterns x2 labellings"},
               "thorough": {"effective_inserts_per_labelling": 7, "labellings": 2,
                            "third_labelling": "{7,4,2,0}, 6 effective inserts (asan part: 4), encoders only",
                            "surfaces": 4, "operands": 3, "asan_part_effective_inserts": 5,
                            "chain_stack_depths": "as quick (also in the asan part)",
                            "note": "labelling 1: the depth-7 leaves get the encoder checks only "
                                    "(postfix/flagger/string/sense: the operations that read surface "
                                    "ids); simplify/replace/De Morgan run there up to depth 6 and "
                                    "under labelling 0 up to depth 7; no insert transitions are "
                                    "applied at depth-K leaves in either tier"}},
    "parts": [
        {"name": "csg", "harness": "c10_csg", "flavour": "rel",
         "shards": {"quick": 16, "thorough": 16}, "deadline": {"quick": 100, "thorough": 1100}},
        # thorough only: the same exploration with K=5 under AddressSanitizer (out-of-range node /
        # face indices inside the library's own visitors)
        {"name": "csg_asan", "harness": "c10_csg", "flavour": "asan", "tiers": ("thorough",),
         "shards": {"thorough": 16}, "deadline": {"thorough": 600}},
    ],
}

META = {
    "engine": "E2 explicit-state exploration over insert histories (harness/c10_csg.cc)",
    "design_ref": "DESIGN.md section 3, C10",
    "technique": "bounded-exhaustive enumeration of all CSG trees reachable by <= K effective inserts "
                 "and of every rewrite/encode operation on every node of each, judged by 16-bit truth "
                 "tables computed by an independent recursive evaluator",
    "text": ("Model checking of the CSG tree as a transition system: states are the distinct trees "
             "(printed form) reachable by insert(); transitions are insert, simplify, "
             "replace_and_simplify, transform_negated_joins and the postfix/infix/string encoders. "
             "Every transition is executed on the real library objects and compared with the truth "
             "table of the intended expression over all sense assignments, so equivalence is decided "
             "for every tree in the bound, not for hand-picked ones."),
    "note": ("Trusts: the harness's own evaluator/parser (60 lines); surface symmetry argument "
             "(two labellings); trees deeper than K effective inserts (other than the directed chain "
             "family) and operand lists longer than 3 are outside the bound."),
}
