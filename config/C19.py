CHECK = {
    "level": "exploration",
    "rule": ("Every enumerated OrangeInput a is written with the real to_json, dumped, parsed and read "
             "back with the real from_json to b; an independent field-for-field comparison (doubles "
             "bit-equal) of labels, faces, logic, flags, z-order, bounding boxes, surfaces + labels, "
             "daughter universe + transform, array grids + cell daughters and tolerances must find no "
             "difference (only the reader normalisations written in OrangeInputIO.json.cc are applied "
             "to the expectation: background volume logic/bbox, zero translation in an array cell); the "
             "second dump must be byte-identical; OrangeParams built from a and b must give identical "
             "volume/surface/level sequences and bit-identical distances/positions/safeties on a fixed "
             "ray lattice. Inputs: all bundled *.org.json; the product leaf solid x object transform x "
             "placement (global/background/daughter depth 1-3 x daughter transform) x tolerance x label "
             "style through UnitProto/InputBuilder; hand-written units containing every surface type; "
             "rect arrays 1..3 cells per axis (direct/intermediate/nested; cell translations: cell centres, "
             "exact zero, NoTransformation, and tiny non-zero ones that must stay Translations); a "
             "VolumeInput field lattice (z-order x 6 volume-bbox kinds [infinite, finite, mixed, null, two "
             "half spaces] x flags 0..15 x logic strings x labels, all transform forms; unit-bbox kind "
             "[finite, unbounded along x, half space, infinite] x volume-bbox kind at z-order M and x "
             "z-order at the finite volume bbox); units holding one volume with EMPTY logic + implicit_vol "
             "(z-orders M, x, B); every binary exponent x 6 mantissa patterns x sign as surface data; an "
             "array with 12 cells of extreme and of tiny non-zero translations; two literal legacy (SCALE "
             "v0) texts reaching the reader-only spellings (cells/cell_names/surface_names, "
             "parent_volumes, flat unit translations with a zero triple, integer z-orders 1-4 and 65534, "
             "'simple unit' / 'rectangular array', array parent_cells = a non-identity permutation), "
             "decoded independently and compared with what the reader produced, then round-tripped and "
             "navigated. For families file, row, arr and legacy the text is also written to "
             "<tmp>/geo.v1.json-like.org.json and OrangeParams(\"....org.json\") and "
             "OrangeParams(\"....gdml\") (documented fallback to .org.json without Geant4) must navigate "
             "identically to OrangeParams(input) on the small ray lattice, and so must a plain <tmp>/plain.v2.json "
             "name; the written text must carry _format ORANGE, an integer _version and _units == native; "
             "patched legacy texts: _units native / foreign (must throw), _format 'orange', no label-list keys. non-trivial = a distinct "
             "structure class (set of structural tags: surface types, transform types, z-orders, flags, "
             "bbox kinds, label kinds, depth, array shape, leaf/placement)."),
    "assumptions": [
        "host build, double precision; JSON is nlohmann::json as used by the library",
        "VolumeInput::obz (oriented bounding zone) is not part of the JSON schema and is not compared; "
        "it is not used by navigation in this revision",
        "labels do not contain Label's reserved separator '@' inside a name or extension",
        "bounding-box coordinates equal to +-DBL_MAX are not generated (the schema reserves them for +-inf)",
        "hand-written 'lat' and 'ext' inputs are compared structurally only (they are not consistent "
        "geometries); all other families are also navigated",
        "legacy integer z-order of the global exterior is not in the alphabet: the reader maps 65533 to "
        "'exterior' while a 16-bit -1 is 65535, and nothing documents which one the SCALE exporter wrote",
        "the orange-update application (app/orange-update.cc) is not built in the verification build "
        "and is not executed; its reader/writer calls are the ones exercised through operator<< / >>",
    ],
    "bounds": {"quick": {"ray_lattice": "4^3 start points x 16 directions", "max_crossings": 1000,
                         "builder_product": "13 leaves x 7 object transforms x 15 placements x 3 tolerances x 2 label styles + 12x12x3 boolean pairs",
                         "solid_programs": "1-in-5 hash selection of C09's quick zoo"},
               "thorough": {"ray_lattice": "6^3 start points x 30 directions (4^3 x 16 for family sp)", "max_crossings": 1000,
                            "builder_product": "13 leaves x 10 object transforms x 15 placements x 3 tolerances x 2 label styles + 12x12x3 boolean pairs",
                            "solid_programs": "all of C09's thorough zoo; navigation on 2 programs per structure class and shard"}},
    "parts": [
        {"name": "roundtrip", "harness": "c19_json_roundtrip", "flavour": "rel",
         "cflags": ["-DC19_USE_SOLID_PROGRAMS=1"],   # third input family: C09's problems/solid_programs.hh
         "depth": {"quick": "thorough"},   # thorough bounds cost < 40 s
         "shards": {"quick": 16, "thorough": 16}, "deadline": {"quick": 120, "thorough": 1100}},
    ],
}

META = {
    "engine": "E4 lattice enumeration over geometry programs (harness/c19_json_roundtrip.cc, problems/c19_*.hh)",
    "design_ref": "DESIGN.md section 3, C19",
    "technique": "bounded-exhaustive enumeration of geometry inputs (all bundled files + a finite product of "
                 "construction-API programs + hand-written lattices covering every surface/transform/z-order/"
                 "flag/bbox/label form), independent structural oracle + textual fixpoint + differential navigation",
    "text": ("Every input of the stated finite space is pushed through the real writer and reader; the result "
             "is compared field by field by code that shares nothing with the I/O layer, the second dump must be "
             "a fixpoint, and geometry built from the original and from the re-read input must navigate "
             "bit-identically on a fixed ray lattice; the same holds for geometry loaded through the "
             "file-name entry points of OrangeParams."),
    "note": ("Values between lattice points are not covered; labels containing '@' and bbox coordinates of exactly "
             "+-DBL_MAX are excluded as outside the schema's conventions. A unit-level null bounding box is read "
             "back as infinite (writer omits it); no constructed or bundled input has one. Found on the "
             "original tree: a VolumeInput with empty logic + implicit_vol is written without a 'logic' key "
             "and could not be read back (signature roundtrip:empty-logic-volume-not-readable; repaired in "
             "/repo 0110ad3, repro harness/c19_repro_empty_logic.cc)."),
}
