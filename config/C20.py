CHECK = {
    "level": "exploration",
    "rule": ("Lattice enumeration (E4) x scripted RNG (E5) of the real CerenkovDndxCalculator, "
             "CerenkovOffload, CerenkovGenerator, ScintillationOffload and ScintillationGenerator on "
             "hand-built optical Material/Cerenkov/Scintillation params. Every element of the stated "
             "product is executed and every generated photon is judged by long-double oracles: finite "
             "E>0, Cerenkov E inside the table, |dir|=|pol|=1, dir.pol=0, position on the chord "
             "pre->post, time >= pre-step time, Cerenkov cone dir.parent = 1/(n(E) beta_mean) with an "
             "own interpolation of the table, dN/dx finite/>=0/==0 below threshold/<= documented bound, "
             "offload empty below threshold and step data copied verbatim, bounded draws. "
             "non-trivial = a configuration block (material x speeds x direction x variant [x charge]) "
             "that exercises a non-default regime: table partly below threshold, pre- or post-step "
             "point below threshold, parent direction in a special rotate() branch, several "
             "scintillation components / rise time > 0 / neutral parent, offload that returned photons."),
    "assumptions": [
        "host build, double precision; canonicals take the production two-word 32-bit path "
        "(vf::ScriptedEngine semantics, wrapped with a hard cap of 65536 words per engine)",
        "generators are only called on distributions the offload would hand over: Cerenkov blocks "
        "whose real dN/dx at the mean speed is 0 are skipped (tagged), since CerenkovGenerator's "
        "energy loop has no exit there by design",
        "scintillation spectra with lambda_mean/lambda_sigma >= 10 (a Gaussian wavelength spectrum "
        "with mean/sigma < 9.4 can yield lambda <= 0 for a reachable normal deviate; not alarmed)",
        "parent directions closer than 1e-5 rad to the z axis but not on it are outside the alphabet "
        "(rotate() snaps them to the pole: cone error up to ~1e-8, solid angle ~1e-10)",
        "parent directions within 0.005 rad of +-z with y < 0 (recorded rotate() defect = rotation into "
        "the frame of the mirrored parent (x,|y|,z)): the Cerenkov cone is judged about the mirrored "
        "parent; a photon on that cone is reported under the recorded signature, a photon on neither "
        "cone under a separate, unrecorded one; letters with z < 0 and y >= 0 keep the plain cone oracle",
        "tolerance 1e-12 (library soft precision; consumer RayleighInteractor expects "
        "|dir.pol| < 1e-14) plus a derived conditioning term of rotate() for parents near the pole",
        "no upper bound on the photon time and no distributional claims are checked (not promised)",
    ],
    "bounds": {
        "quick": {"alphabet": "alphabet_u5", "script_len_generators": 6, "script_len_offload": 3,
                  "materials": 4, "scint_materials": 5, "directions": 21, "variants": 4,
                  "beta_lattice_per_material": 7,
                  "dndx_charges": "-1,+1,-2,+2", "scint_speed_pairs": 6,
                  "scint_offload_pre_speeds": "0.9 / 0.3 (post 0.99862874)",
                  "volume_to_material": "v -> (v+2)%n, one non-optical, one duplicate; both MaterialView constructors",
                  "photons_per_script": "2 (Cerenkov) / 3 (scintillation)"},
        "thorough": {"alphabet": "alphabet_u7 (positions 0-4 of the generator scripts; alphabet_u5 at position 5)", "script_len_generators": 6, "script_len_offload": 3,
                     "materials": 5, "scint_materials": 6, "directions": 27, "variants": 4,
                     "beta_lattice_per_material": 8,
                     "dndx_charges": "-1,+1,-2,+2", "scint_speed_pairs": 6,
                     "scint_offload_pre_speeds": "0.9 / 0.3 (post 0.99862874)",
                     "volume_to_material": "v -> (v+2)%n, one non-optical, one duplicate; both MaterialView constructors",
                     "photons_per_script": "2 (Cerenkov) / 3 (scintillation)"},
    },
    "parts": [
        {"name": "optical", "harness": "c20_optical_gen", "flavour": "rel",
         "shards": {"quick": 16, "thorough": 16}, "deadline": {"quick": 240, "thorough": 1150}},
    ],
}

META = {
    "engine": "E4 lattice x E5 scripted RNG (harness/c20_optical_gen.cc)",
    "design_ref": "DESIGN.md section 3, C20",
    "technique": "bounded-exhaustive enumeration of step/material lattices times all scripted "
                 "canonical prefixes A_u^6, independent long-double oracle on every generated photon",
    "text": ("Small-scope exploration of the optical photon generators: materials with barely rising, "
             "rising, sub-threshold-low-end and two-knot refractive-index tables; ordered (beta_pre, "
             "beta_post) pairs from a lattice derived from each table's thresholds; parent directions "
             "covering every branch of rotate(); positions/step lengths/charges/times as covering "
             "variants; scintillation spectra with 1-3 components, rise time 0 and > 0, several fall "
             "times, charged and neutral parents. All A_u^6 canonical prefixes are forced, so energy "
             "rejection, sin^2 rejection, step-fraction rejection, component selection, spare normal "
             "deviate and rise-time rejection are reached deterministically."),
    "note": ("Trusts: celeritas constants/units for unit conversion only; the fixed splitmix tail "
             "behind the enumerated prefix (E5); the conditioning model of rotate() stated in the "
             "harness header."),
}
