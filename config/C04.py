CHECK = {
    "level": "exploration",
    "rule": ("Lattice x scripted RNG, exhaustive: for every interactor family and every configuration "
             "(model variant, incident particle, material/element, production cuts, incident energy from "
             "{E_min, next(E_min), 6 log-uniform interior points, every internal branch threshold read "
             "from the code/model data -1/0/+1 ulp, prev(E_max), E_max}) x 14 incident directions "
             "(6 axes + 8 diagonals; em part: + 6 letters for the near-pole branch of the shared rotate() "
             "helper: 1e-3 rad off +-z with negative and with positive y, and (0,0,+-(1-2^-53))) x all RNG scripts (quick: all 5^4 prefixes over "
             "{2^-32, 1/4, 1/2, 3/4, 1-2^-32} on the first 4 canonicals; thorough: those + every script "
             "with <= 2 forced canonicals, 7-letter alphabet incl. the extreme 32-bit words, anywhere in "
             "the first 16; unforced canonicals from a fixed splitmix64 tail) x secondary storage "
             "{0, need-1, need, ample; models with need >= 2 also on a stack whose TOTAL capacity is need-1, "
             "full and empty} the real Interactor::operator() is called and its Interaction is "
             "judged by an independent long-double four-vector ledger. non-trivial = a distinct "
             "(configuration, set of branch tags reached by the outcome) with a non-default branch "
             "(rejection retry, sub-cut secondary, special regime, ...). Energies between lattice "
             "points and RNG streams outside the scripts are not covered."),
    "assumptions": [
        "host build, double precision; CELER_EXPECT/ASSERT compiled out: every call stays inside the "
        "model applicability intersected with the interactor's constructor preconditions (interval per "
        "model listed at the top of harness/c04_em.cc and harness/c04_muhad.cc)",
        "open lower applicability ends (0, ...) are represented by 1e-6 MeV (1e-7 MeV for Livermore PE), "
        "infinite upper ends by the EM high-energy limit 1e8 MeV; the smallest production cut is 1e-4 MeV",
        "a scripted canonical has lower word 0x00100000 (canonical = upper*2^-32 + 2^-33, the middle of "
        "the cell): an exactly-zero canonical is never produced",
        "element data: Livermore PE / atomic relaxation Z=19, Seltzer-Berger Z=29 (the files shipped in "
        "test/celeritas/data); other models: He, O, K, Cu, W, Pb and a three-element compound",
        "atomic relaxation production cuts (gamma, electron): equal {0, 2.5e-4, 1e-3, 1} MeV and split "
        "(1e-2, 0), (0, 1e-2), (2.5e-4, 1e-3), (1e-3, 2.5e-4); every product is compared with the cut of "
        "its own particle type; product identity is decided by the EADL table (radiative / "
        "non-radiative) its energy comes from",
        "momentum balance is only required of models that return all products of a two-body process "
        "(Klein-Nishina with surviving electron, Moller, Bhabha, e+ annihilation, mu/hadron ionisation); "
        "photoelectric, Rayleigh, pair production, bremsstrahlung and Coulomb scattering leave momentum "
        "with the atom/nucleus; in-flight e+ annihilation additionally gets a per-photon two-body "
        "oracle (photon 0) that does not depend on the second photon",
        "muhad part: scripted canonicals use lower word 0x00100000 (the true middle of the 2^-32 cell: "
        "canonical = ((upper<<21) ^ lower)*2^-53); thorough adds two lower fills giving 2^-53-scale "
        "canonicals whose failures are recorded as observations only",
        "muhad part: Coulomb [1e-4, prev(1e8)] MeV (combined mode: above the energy where the polar range "
        "is non-empty); mu ionisation ICRU73QO/Bragg [1e-4, 0.2], Bethe-Bloch [0.2, 1e3], mu-Bethe-Bloch "
        "[0.2, 1e8] MeV, always E > T_min; proton Bragg [1e-3, 2] / Bethe-Bloch [2, 1e5] MeV as hadron "
        "extension; mu-brems [1e-2, 1e8] MeV and E > gamma cut; in the muhad part the particle type whose "
        "cut the model does not read gets a different cut (1e-3, or 1e-2 where the letter is 1e-3); CHIPS [1e-5, 2e4] MeV on 1H, 3He, 4He, "
        "6Li, 7Li, 63Cu, 65Cu, 208Pb (flat stand-in xs tables for Z without a bundled file; the "
        "interactor never reads them)",
        "muhad part: CHIPS recoil nucleus is not returned; its kinetic energy is the local deposit, so "
        "two-body kinematics (deposit == sqrt(|p_in-p_out|^2+M^2)-M) is checked instead of a momentum sum",
    ],
    "bounds": {"quick": {"rng_prefix_k": 4, "rng_alphabet": 5, "scripts": 625, "directions": 20,
                         "interior_energies": 6, "max_words": 10000},
               "thorough": {"rng_prefix_k": 4, "rng_alphabet": 5, "deviations": 2, "deviation_window": 16,
                            "deviation_alphabet": 7, "scripts": 6618, "directions": 20,
                            "interior_energies": 6, "max_words": 10000,
                            "muhad": {"scripts": 5236, "interior_energies": 12,
                                      "interior_energies_coulomb_mubrems": 8, "chips_energies": 16}}},
    "parts": [
        {"name": "em", "harness": "c04_em", "flavour": "rel",
         "shards": {"quick": 16, "thorough": 16}, "deadline": {"quick": 120, "thorough": 1100}},
        {"name": "muhad", "harness": "c04_muhad", "flavour": "rel", "cflags": ["-fno-access-control"],
         "shards": {"quick": 16, "thorough": 16}, "deadline": {"quick": 120, "thorough": 1100}},
    ],
}

META = {
    "engine": "E4 lattice x E5 scripted RNG (harness/c04_em.cc, harness/c04_muhad.cc, "
              "problems/interactor_env.hh)",
    "design_ref": "DESIGN.md section 3, C04",
    "technique": "bounded-exhaustive enumeration of (model, energy, direction, material, cut, storage, "
                 "RNG script) with an independent long-double energy/momentum ledger on every outcome",
    "text": ("Every interactor is called through its public header for every point of a finite lattice "
             "whose energy letters are derived from the code's own branch thresholds and whose random "
             "numbers are owned by the explorer, so range ends, near-cut secondaries, extreme angles and "
             "rejection retries are forced instead of waited for. The oracle re-derives total energy "
             "(2mc^2 per positron), three-momentum, thresholds, unit directions, storage accounting and "
             "the draw count from the returned Interaction alone."),
    "note": ("Decides the property on the lattice only; tolerances are rounding models (8 ulp of the "
             "incident total for energy; 16 eps (sum|p| + E sum 1/beta) + direction-cosine slack for "
             "momentum), documented next to each check."),
}
