CHECK = {
    "level": "exploration",
    "rule": ("Lattice x scripted RNG, exhaustive: for every interactor family and every configuration "
             "(model variant, incident particle, material/element, production cuts, incident energy from "
             "{E_min, next(E_min), 6 log-uniform interior points, every internal branch threshold read "
             "from the code/model data -1/0/+1 ulp, prev(E_max), E_max}) x 14 incident directions "
             "(6 axes + 8 diagonals) x all RNG scripts (quick: all 5^4 prefixes over "
             "{2^-32, 1/4, 1/2, 3/4, 1-2^-32} on the first 4 canonicals; thorough: those + every script "
             "with <= 2 forced canonicals, 7-letter alphabet incl. the extreme 32-bit words, anywhere in "
             "the first 16; unforced canonicals from a fixed splitmix64 tail) x secondary storage "
             "{0, need-1, need, ample} the real Interactor::operator() is called and its Interaction is "
             "judged by an independent long-double four-vector ledger. non-trivial = a distinct "
             "(configuration, set of branch tags reached by the outcome) with a non-default branch "
             "(rejection retry, sub-cut secondary, special regime, ...). Energies between lattice "
             "points and RNG streams outside the scripts are not covered."),
    "assumptions": [
        "host build, double precision; CELER_EXPECT/ASSERT compiled out: every call stays inside the "
        "model applicability intersected with the interactor's constructor preconditions (interval per "
        "model listed at the top of harness/c04_em.cc and harness/c04_muhad.cc)",
        "open lower applicability ends (0, ...) are represented by 1e-6 MeV (1e-7 MeV for Livermore PE), "
        "infinite upper ends by the EM high-energy limit 1e8 MeV; the smallest production cut is 1e-4 MeV",
        "a scripted canonical has lower word 0x80000000: an exactly-zero canonical is never produced",
        "element data: Livermore PE / atomic relaxation Z=19, Seltzer-Berger Z=29 (the files shipped in "
        "test/celeritas/data); other models: He, O, K, Cu, W, Pb and a three-element compound",
        "momentum balance is only required of models that return all products of a two-body process "
        "(Klein-Nishina with surviving electron, Moller, Bhabha, e+ annihilation, mu/hadron ionisation); "
        "photoelectric, Rayleigh, pair production, bremsstrahlung and Coulomb scattering leave momentum "
        "with the atom/nucleus",
    ],
    "bounds": {"quick": {"rng_prefix_k": 4, "rng_alphabet": 5, "scripts": 625, "directions": 14,
                         "interior_energies": 6, "max_words": 10000},
               "thorough": {"rng_prefix_k": 4, "rng_alphabet": 5, "deviations": 2, "deviation_window": 16,
                            "deviation_alphabet": 7, "scripts": 6618, "directions": 14,
                            "interior_energies": 6, "max_words": 10000}},
    "parts": [
        {"name": "em", "harness": "c04_em", "flavour": "rel",
         "shards": {"quick": 16, "thorough": 16}, "deadline": {"quick": 120, "thorough": 1100}},
        {"name": "muhad", "harness": "c04_muhad", "flavour": "rel", "cflags": ["-fno-access-control"],
         "shards": {"quick": 16, "thorough": 16}, "deadline": {"quick": 120, "thorough": 1100}},
    ],
}

META = {
    "engine": "E4 lattice x E5 scripted RNG (harness/c04_em.cc, harness/c04_muhad.cc, "
              "problems/interactor_env.hh)",
    "design_ref": "DESIGN.md section 3, C04",
    "technique": "bounded-exhaustive enumeration of (model, energy, direction, material, cut, storage, "
                 "RNG script) with an independent long-double energy/momentum ledger on every outcome",
    "text": ("Every interactor is called through its public header for every point of a finite lattice "
             "whose energy letters are derived from the code's own branch thresholds and whose random "
             "numbers are owned by the explorer, so range ends, near-cut secondaries, extreme angles and "
             "rejection retries are forced instead of waited for. The oracle re-derives total energy "
             "(2mc^2 per positron), three-momentum, thresholds, unit directions, storage accounting and "
             "the draw count from the returned Interaction alone."),
    "note": ("Decides the property on the lattice only; tolerances are rounding models (8 ulp of the "
             "incident total for energy; 16 eps (sum|p| + E sum 1/beta) + direction-cosine slack for "
             "momentum), documented next to each check."),
}
