CHECK = {
    "level": "exploration",
    "rule": ("E4 lattice, nothing sampled. Every log-uniform grid (N knots x [Emin,Emax]) x value shape "
             "{const,inc,dec,peak,steep,zero-first-knot} x prime index {none, every knot (N<=9) / boundary "
             "subset (N>9)} is built through the real ValueGridXsBuilder/ValueGridLogBuilder (constructor "
             "and from_geant/from_scaled/from_range) + ValueGridInserter and queried with the real "
             "XsCalculator(=EnergyLossCalculator)/UniformGrid::find/RangeCalculator/InverseRangeCalculator/"
             "GenericCalculator at: every knot in 4 roundings +-k ulp, fixed and geometric interior points of "
             "every bin, grid ends, 1e-300..1e300. Oracle in long double from the documented definition: "
             "knot reproduction, betweenness, continuity, documented extrapolation, range/inverse-range "
             "monotone + both round trips. calc_mean_energy_loss/range_to_step run on real "
             "PhysicsParams+ParticleTrackView+PhysicsTrackView (own Process with dE/dx tables and range = "
             "exact integral) over energies x steps in (0,range] (down to range*2^-53 and the smallest denormal) x "
             "linear_loss_limit incl. 0 and 1e-300 x a 4-letter alphabet of (min_range, max_step_over_range, "
             "min_eprime_over_e) x {electron in every material, positron with the tables rotated by one "
             "material; each particle has a second, cross-section-only process (values 1e250) before (e-) / "
             "after (e+) the table process so that eloss_ppid is 1 / 0; three track slots, slots 0-1 poisoned, "
             "all views on slot 2}; MscStepToGeo/MscStepFromGeo with the real UrbanMscHelper over energies x mfp tables "
             "(a different scaled-xs table per material and particle) x true-path x geo-path lattices: "
             "msc_mfp against E^2/table, MscStepFromGeo against the documented inverse formulas in long "
             "double, the round trip true->geo->true and monotonicity in the geometrical step. Every table sits between sentinels in the shared reals pool and every object is "
             "built twice with different sentinels: a bitwise difference of any result = read outside the "
             "table. Tolerances come from a stated rounding model (harness header). non-trivial = a distinct "
             "grid/table configuration (case id) that executed; branch_tags count the code regimes reached."),
    "assumptions": [
        "host build, double precision; CELERITAS_DEBUG off, so the harness itself respects every "
        "CELER_EXPECT (energy>0, 0<step<=range, range<=table end, gstep<=geo<=true, monotone range tables "
        "for InverseRangeCalculator)",
        "values between lattice points are not covered (continuous input space, DESIGN.md section 7)",
        "monotonicity of the mean loss in the step is claimed inside one regime (linear / inverse-range) "
        "for every table and across the linear_loss_limit switch only for the exactly linear table "
        "(constant dE/dx, range = E/k, E inside the table): for other tables the library's two formulas "
        "differ by the table's discretisation error at the switch, which is by design (Geant4 does the same)",
        "loss == E at step == range is claimed when step*dE/dx >= linear_loss_limit*E (the documented "
        "condition of the early return)",
        "MscStepFromGeo's value is compared with the documented inverse except where the formula is "
        "ill-conditioned or undefined: alpha*w*g within 1e-9 of 1 (range-limited, x clamped to 1), "
        "g/lambda within 1e-9 of 1, w <= 0 (alpha < 0 with |alpha|*lambda <= 1), and within the tolerance "
        "of the min_step switch (tagged msc:fromgeo:formula-not-claimed); the [g, t] bounds are always checked",
        "lambda(start) == lambda(end) bitwise (alpha == 0 in MscStepToGeo's endpoint branch) is a "
        "measure-zero input and is skipped (tagged); MscStepFromGeo is only called with gstep <= geo",
    ],
    "bounds": {"gap_grids": "ranges [1e-4,10] and [1e-2,1e3] with N = 6 and 11 knots: grids whose computed last point lies one ulp below the stored back",
               
        "quick": {"grids": 9, "knots": [2, 3, 4, 5, 8, 9, 17], "knot_ulps": 24, "bin_points": "8+3",
                  "xs_shapes": 6, "range_shapes": 6, "eloss_shapes": 4,
                  "linear_loss_limit": [0.0, 1e-300, 0.001, 0.01, 0.5], "physics_option_letters": 4,
                  "particles": "e- x 4 materials, e+ x 1 material", "msc_mfp_tables": 4},
        "thorough": {"grids": 20, "knots": [2, 3, 4, 5, 6, 7, 8, 9, 17, 33, 85], "knot_ulps": 64,
                     "bin_points": "8+15", "xs_shapes": 6, "range_shapes": 6, "eloss_shapes": 4,
                     "linear_loss_limit": [0.0, 1e-300, 0.001, 0.01, 0.5, 1.0], "physics_option_letters": 4,
                     "particles": "e- and e+ x 4 materials", "msc_mfp_tables": 4},
    },
    "parts": [
        {"name": "tables", "harness": "c14_tables", "flavour": "rel",
         # the thorough bounds cost ~25 s on 16 cores: the quick command runs them too (the harness at
         # its thorough depth; bounds.thorough is what the quick evidence covers)
         "depth": {"quick": "thorough"},
         "shards": {"quick": 16, "thorough": 16}, "deadline": {"quick": 600, "thorough": 1100}},
    ],
}

META = {
    "engine": "E4 lattice enumerator (harness/c14_tables.cc)",
    "design_ref": "DESIGN.md section 3, C14 (and section 5 item 5)",
    "technique": "bounded-exhaustive enumeration of grid x table x query lattices derived from the objects "
                 "under test (every knot +-k ulp, every regime threshold +-1 ulp), long-double oracles, "
                 "differential sentinels for out-of-table reads",
    "text": ("Small-scope decision of the table-lookup property: all grids/tables/queries of a stated finite "
             "alphabet are run through the real builders, calculators, physics track views and MSC path "
             "converters; each result is compared with an independent long-double re-derivation of the "
             "documented behaviour with tolerances from an explicit rounding model. The alphabet contains "
             "one representative per branch of the anchored code (below/in/above grid, scaled/unscaled/prime "
             "bin, sqrt and square extrapolations, linear vs inverse-range loss, step == range, small-step / "
             "constant-xs / alpha=1/range / endpoint-mfp MSC regimes with alpha>0 and alpha<0, clamps) and "
             "the adversarial roundings around every knot and threshold."),
    "note": ("Trusts glibc long double log/exp/pow/expm1 as the reference. Monotonicity across the "
             "linear-loss switch and loss==E at step==range are only claimed where the documentation implies "
             "them (see assumptions). UniformGrid::find over-read (fixed in /repo by 07855eb) is re-found "
             "as grid:/xs:/range:/eloss:/msc:read-past-end when that commit is reverted."),
}
