CHECK = {
    "level": "exploration",
    "rule": ("E4 lattice: every log-uniform grid (N knots x [Emin,Emax]) x value shape x prime index is "
             "built through the real ValueGrid*Builder/Inserter and queried at every knot (4 roundings "
             "of it) +-k ulp, bin mid/quarter points, grid ends, far outside; every result of the real "
             "calculators is compared with a long-double oracle. non-trivial = a distinct grid "
             "configuration that executed."),
    "assumptions": [],
    "bounds": {"quick": {}, "thorough": {}},
    "parts": [
        {"name": "tables", "harness": "c14_tables", "flavour": "rel",
         "shards": {"quick": 16, "thorough": 16}, "deadline": {"quick": 90, "thorough": 1100}},
    ],
}

META = {
    "engine": "E4 lattice enumerator (harness/c14_tables.cc)",
    "design_ref": "DESIGN.md section 3, C14",
    "technique": "bounded-exhaustive enumeration of grid x table x query lattices against long-double oracles",
    "text": "",
    "note": "",
}
