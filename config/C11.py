CHECK = {
    "level": "exploration",
    "rule": ("geometry zoo of C03 + hex-array (all levels; involute / duplicate-surface inputs not "
             "judged) x points {(1) interior lattice n^3; (2) one oracle-placed representative per "
             "distinct oracle volume chain (global 17^3/31^3 scan + per-universe-instance grids of the "
             "critical coordinates of the stored surfaces, so that every volume of every nested "
             "universe is sampled); (3) oracle-placed points next to every face of the located volume "
             "at every level (foot point X on the surface, X -+ delta n, delta = 0.003/0.02 (thorough: 0.001/0.003/0.02/0.08) x "
             "scale, both sides, 1/4 foot points per (chain, level, face)); (4) the exactly degenerate interior "
             "points of the stored surfaces: sphere centres and up to 3 points on every cylinder axis, "
             "of every universe instance}; (1)+(2) also the "
             "midpoints of the first 3 segments along 3 rays, reached by navigation : find_safety(), "
             "find_safety(0.5 scale) and find_safety(0.1 s) compared with the navigator's own "
             "find_next_step over 26 lattice + 12/36 rotated-Fibonacci directions (+ the direction to "
             "X), with the independent point-location oracle on a 64/200-point Fibonacci sphere of "
             "radius 0.999 x safety, and at (3) with the exact bound s <= delta + probe when the "
             "oracle locates another volume behind X. An infinite safety is judged like any other "
             "value. Navigated states (after find+move_internal(d/2), then move_internal(position), "
             "then set_dir) must report the safety of a fresh state. non-trivial = distinct (geometry, "
             "volume chain) with a positive safety."),
    "assumptions": [
        "directions / sphere points between the alphabet letters are covered only at the oracle-placed "
        "face points (exact bound towards the nearest point of that face)",
        "oracle makes no claim within 10 tol of a surface",
        "a violation at an exactly degenerate point (4) that disappears 1e-6 x scale beside it is "
        "reported under its own signature safety:face-ignored-at-exact-{cylinder-axis,sphere-centre}",
        "volumes the oracle scan does not find (thinner than the 17^3/31^3 lattice and not delimited by "
        "axis-aligned/centred surfaces of their own universe) get no representative",
    ],
    "bounds": {"zoo_added": "g6, g7 (x- / y-aligned cylinders cx, cy, cxc, cyc with simple safety; cones kx, ky) and the rectangular arrays 5x2x1, 2x5x1, 1x2x6 of problems/geo_zoo_arrays.hh (2x5x1 and 1x2x6: grid origin (-1.5, 0.25, -2), alternating cell widths w, 1.5 w)",
               "quick": {"lattice": 9, "directions": 62, "sphere_points": 200, "scan_lattice": 31,
                         "foot_points_per_face": 4, "deltas": [0.001, 0.003, 0.02, 0.08],
                         "note": "same depth as thorough (parts[].depth); the 5-lattice/38-direction "
                                 "variant is still reachable with --tier quick on the harness"},
               "thorough": {"lattice": 9, "directions": 62, "sphere_points": 200, "scan_lattice": 31,
                            "foot_points_per_face": 4, "deltas": [0.001, 0.003, 0.02, 0.08]}},
    "parts": [
        {"name": "safety", "harness": "c11_safety", "flavour": "rel",
         # the thorough lattice costs ~7 s: the quick command runs it too
         "depth": {"quick": "thorough"},
         "shards": {"quick": 16, "thorough": 16}, "deadline": {"quick": 300, "thorough": 900}},
    ],
}
META = {
    "engine": "E4 lattice enumeration (harness/c11_safety.cc, oracle/geo_oracle.hh)",
    "design_ref": "DESIGN.md section 3, C11",
    "technique": "exhaustive lattice enumeration of (geometry, point, direction) on the real navigator "
                 "with an independent point-location oracle",
    "text": ("Bounded-exhaustive exploration: for every point of the lattice in every geometry of the "
             "zoo the safety is compared with all directional distances of the alphabet and with the "
             "oracle on a sphere; a non-conservative safety for any volume/face type combination in "
             "the zoo at any lattice point, in any volume chain and next to any face is found, which "
             "the hand-picked points of the unit tests cannot."),
    "note": "Claims hold for the zoo, lattice and direction alphabets listed; see C03 for the oracle.",
}
