CHECK = {
    "level": "exploration",
    "rule": ("geometry zoo of C03 (all levels; involute / duplicate-surface inputs not judged) x "
             "interior lattice n^3 (+ the midpoints of the first 3 segments along 3 rays from each "
             "point, reached by navigation) : find_safety() and find_safety(max) compared with the "
             "navigator's own find_next_step over 26 lattice + 12/36 rotated-Fibonacci directions "
             "and with the independent point-location oracle on a 64/200-point Fibonacci sphere of "
             "radius 0.999 x safety. non-trivial = distinct (geometry, volume chain) with a positive "
             "safety."),
    "assumptions": [
        "directions / sphere points between the alphabet letters are not covered",
        "oracle makes no claim within 10 tol of a surface",
    ],
    "bounds": {"quick": {"lattice": 5, "directions": 38, "sphere_points": 64},
               "thorough": {"lattice": 9, "directions": 62, "sphere_points": 200}},
    "parts": [
        {"name": "safety", "harness": "c11_safety", "flavour": "rel",
         "shards": {"quick": 16, "thorough": 16}, "deadline": {"quick": 90, "thorough": 900}},
    ],
}
META = {
    "engine": "E4 lattice enumeration (harness/c11_safety.cc, oracle/geo_oracle.hh)",
    "design_ref": "DESIGN.md section 3, C11",
    "technique": "exhaustive lattice enumeration of (geometry, point, direction) on the real navigator "
                 "with an independent point-location oracle",
    "text": ("Bounded-exhaustive exploration: for every point of the lattice in every geometry of the "
             "zoo the safety is compared with all directional distances of the alphabet and with the "
             "oracle on a sphere; a non-conservative safety for any volume/face type combination in "
             "the zoo at any lattice point is found, which the hand-picked points of the unit tests "
             "cannot."),
    "note": "Claims hold for the zoo, lattice and direction alphabets listed; see C03 for the oracle.",
}
