CHECK = {
    "level": "model_checking",
    "rule": ("part sched: T in {2,3} threads, each constructing its Stepper on one shared CoreParams and "
             "transporting its events, run one at a time under a cooperative scheduler; scheduling points = "
             "CELERITAS_VERIF hooks (before every begin-run/step action, around the lazy StreamStore "
             "allocation, inside host atomic read-modify-writes; per-thread budgets on the hot ones) and "
             "every pthread mutex lock/unlock (interposed); ALL schedules with <= B preemptions (quick: B=1; "
             "thorough: B=2 with the quick budgets for the two-thread roots, and B=1 with doubled budgets for "
             "all roots) for every assignment of 3 events to the streams that uses >= 2 streams, x "
             "seven variants {rec: recorder+diagnostics; calo: SimpleCalo+diagnostics with charge-partitioned "
             "initialisation; recsort: recorder with track re-indexing by particle type; recsortact: "
             "re-indexing by along-step and step-limit action; recfield: uniform-field + Urban-MSC "
             "along-step; recchk: StatusChecker attached; recpart: recorder with charge-partitioned initialisation "
             "(init_charge), per-event histories compared}; the atomic read-modify-writes executed inside "
             "ActionDiagnostic / StepDiagnostic / the post-step gather (SimpleCalo) have their own "
             "per-thread budgets, separate from the thread-private atomics (track-id counter, secondary "
             "stack); oracle = serial single-stream results. "
             "part tsan: every assignment of 3 events to 2 streams (8) and to 3 streams (27), plus one "
             "event per stream for 4, 8 and 16 streams (identity assignment and rotated by one), x the same "
             "seven variants (quick: the four newer variants run only the 6 three-stream assignments "
             "that keep all streams busy; 4 streams identity + rotated, 8 identity, 16 rotated), each repeated with free-running threads that construct their "
             "Steppers concurrently on one shared CoreParams, under ThreadSanitizer; the threads rendezvous at every begin-run action and at their first 32 "
             "step actions (CELERITAS_VERIF hooks) so that the same action of the shared registry really "
             "runs side by side on all streams even on a busy machine. celer-sim's "
             "Runner/Transporter are modelled by this pattern, not executed. "
             "non-trivial = a distinct (variant, stream count, assignment)."),
    "assumptions": [
        "the free-running pass samples OS schedules (ThreadSanitizer detects races on the accesses that "
        "actually overlap in its happens-before model); the exhaustive schedule enumeration is the sched "
        "part",
        "memory orderings weaker than sequential consistency are not modelled",
    ],
    "bounds": {"quick": {"preemptions": 1, "tsan_repetitions": 1},
               "thorough": {"preemptions": "2 (T=2, small budgets) + 1 (T=2,3, doubled budgets)",
                            "tsan_repetitions": 5}},
    "parts": [
        {"name": "sched", "harness": "c07_sched", "flavour": "rel",
         "shards": {"quick": 16, "thorough": 16}, "deadline": {"quick": 100, "thorough": 1200},
         "ldflags": ["-ldl"]},
        {"name": "tsan", "harness": "c07_streams", "flavour": "tsan",
         "shards": {"quick": 16, "thorough": 16}, "deadline": {"quick": 240, "thorough": 1200},
         "env": {"TSAN_OPTIONS": "halt_on_error=0 report_signal_unsafe=0 second_deadlock_stack=1 "
                                 "log_path=tsan_report history_size=4 exitcode=0"}},
    ],
}
META = {
    "engine": "E3 schedule explorer + free-running ThreadSanitizer pass (harness/c07_streams.cc)",
    "design_ref": "DESIGN.md section 3, C07",
    "technique": "exhaustive enumeration of event-to-stream assignments with real concurrent threads "
                 "under ThreadSanitizer; serial-equivalence oracle",
    "text": ("All event-to-stream assignments within the bound are run with concurrently constructed "
             "Steppers on shared parameters; any ThreadSanitizer report touching the library and any "
             "difference from the serial per-event results or tallies is a violation."),
    "note": "ThreadSanitizer (gcc 12 libtsan) is the race oracle.",
}
