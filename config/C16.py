# ASan options of ./check plus a 16 MB quarantine: every evaluation builds and frees a Stepper, and
# with the default 256 MB quarantine the freed memory is never reused (measured 6x slower, half
# of it page-fault system time).  Use-after-free within the last 16 MB of frees is still caught.
_ASAN = ("halt_on_error=0:detect_leaks=0:abort_on_error=0:handle_abort=0:allocator_may_return_null=1:"
         "detect_stack_use_after_return=0:quarantine_size_mb=16")
CHECK = {
    "level": "fault_enumeration",
    "rule": ("every explored event history (E1: all interaction-outcome sequences with <= 2/3 deviations "
             "over the scripted menu, which includes requests of 1, 2 and 3 secondaries) is run at EVERY "
             "capacity of the lattice, so the fault 'first allocation that does not fit' lands at every "
             "step where it can: part secondary: stack capacity {0..7} x slots {1,2,3} (+ a stopped "
             "positron whose only at-rest outcome needs 2 secondaries, capacity 1 and 2); roots = one "
             "primary per event (track order none; 100 MeV primaries from the centre also init_charge "
             "and reindex_status) and, for slots >= 2, two / three 100 MeV primaries in the first call "
             "under all three orders, so that several tracks of one step share the stack; every "
             "allocation is judged by the sequential model of the stack (request n succeeds iff used + "
             "n <= capacity). part initializer: initializer capacity {1,2,3,4,6} x slots {1,2} x track "
             "order {none, init_charge, reindex_status} x secondary stack {default factor 3; for slots 2 and Q in {2,3} also starved to 2 / 3 entries, so that both limits are tight together}, 100 MeV primaries that multiply; a call must "
             "throw RuntimeError exactly when the ledger of pending initializers exceeds the capacity "
             "(exact fit must pass); primaries at the limit into the empty queue (Q accepted, Q+1 "
             "rejected) and, for every history with one deviation, into the pending queue (Q-q "
             "accepted, Q-q+1 rejected); after every rejection the SAME stepper is reset and must "
             "reproduce a reference event that uses the slots and the queue. non-trivial = execution "
             "with >= 1 deviation (secondary) / execution in which the overflow was reported "
             "(initializer)."),
    "assumptions": [
        "AddressSanitizer flavour: heap overflow in the stack / initializer indexing is a violation",
        "a failed in-flight interaction is recognised by the physics-failure step action in the public "
        "step stream (checked both ways); a failed at-rest interaction keeps the model's action "
        "(tagged observation, DESIGN 9.3)",
        "production cuts of the scripted material are known to the harness (gamma 0.02, e+- 0.05 MeV)",
        "host execution is serial: allocations of one step are served in query order",
        "the in-place rule used by the initializer ledger (first surviving secondary of an absorbed "
        "parent takes its slot unless track order is init_charge) is verified on every call that "
        "returns: queued must equal the ledger",
    ],
    "bounds": {"quick": {"deviations": 2},
               "thorough": {"deviations_secondary": 2,
                            "deviations_secondary_several_primaries_capacity<=3": 3,
                            "deviations_initializer": 3}},
    "parts": [
        {"name": "secondary", "harness": "c16_exhaust", "flavour": "asan", "env": {"ASAN_OPTIONS": _ASAN},
         "depth": {"quick": "thorough"},   # thorough bounds cost < 40 s
         "shards": {"quick": 16, "thorough": 16}, "deadline": {"quick": 100, "thorough": 1200}},
        {"name": "initializer", "harness": "c16_exhaust", "flavour": "asan", "env": {"ASAN_OPTIONS": _ASAN},
         "depth": {"quick": "thorough"},   # thorough bounds cost < 40 s
         "shards": {"quick": 16, "thorough": 16}, "deadline": {"quick": 60, "thorough": 600}},
    ],
}
META = {
    "engine": "E1 explorer x capacity lattice on the ASan flavour (harness/c16_exhaust.cc)",
    "design_ref": "DESIGN.md section 3, C16",
    "technique": "exhaustive fault enumeration: every explored history at every storage capacity, real "
                 "stepping loop under AddressSanitizer, ledger oracles",
    "text": ("The exhaustion point is enumerated rather than sampled: each history of the exploration is "
             "repeated for every capacity, so an allocation failure is forced at every interaction / every "
             "step where it can first occur, and the safety (explicit failure, nothing partial, track "
             "continues, reported error before any out-of-bounds write and only when the capacity is "
             "really exceeded) and liveness (event completes with exact balance, state reusable after "
             "reset) clauses are checked on each."),
    "note": "Trusts ASan for memory safety and the scripted physics for the request sizes.",
}
