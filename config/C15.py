CHECK = {
    "level": "exploration",
    "rule": ("E5 scripted RNG. support: every sampler x parameter letter (chosen to hit each branch of its "
             "code) x ALL prefixes in A_u^k of the first k canonical draws (upper word forced, lower word "
             "mid-cell, never an exactly-zero canonical), then a fixed splitmix tail: value in documented "
             "support, finite, #canonicals <= bound derived from the algorithm's acceptance probability. "
             "quadrature: the midpoint lattice {(i+1/2)/2^b} of the first canonicals (2^20 quick / 2^22 "
             "thorough points) pushed through the sampler; sup-distance of the empirical CDF to the analytic "
             "CDF/PMF (independent long double code) <= L + H + 2/N with L = sum_j pieces_j/2^b_j (lattice "
             "cells cut by the level set), H = 5 sqrt(N_tail)/N (Hoeffding, for points that also used the "
             "tail). non-trivial = a distinct (sampler case, set of non-default branch tags: retry, cached "
             "value, zero-weight skipped, regime ...) pair in 'support', a distinct lattice case in "
             "'quadrature'."),
    "assumptions": [
        "host build, real_type = double; canonical doubles are formed exactly as for XORWOW "
        "(detail::GenerateCanonical32: two 32-bit words); float instantiations are not exercised",
        "'matches the analytic distribution within statistical resolution' is decided only at this "
        "lattice resolution: sup-norm CDF errors below ~3/2^b (1-D), ~8/2^(b/2) (2-D, Box-Muller based) "
        "are invisible; points that leave the lattice (rejection retries, draws beyond the lattice "
        "dimensions) use a fixed declared splitmix64 tail selected by VERIF_SEED and are bounded with a "
        "Hoeffding term assuming that tail is as good as i.i.d.",
        "exactly-zero canonicals (probability 2^-64) and canonicals closer than 2^-33 to 0 or 1 are not "
        "produced in the support part",
        "a sample equal to the open upper bound b of UniformRealDistribution after rounding "
        "(|x-b| <= 2 ulp) is tagged, not reported: it is the correctly rounded value of a point in [a,b)",
        "EnergyLossUrbanDistribution (multi-stage compound Poisson) is checked for support, finiteness and "
        "bounded draws only; its mean is reported in the notes, not judged (no sound variance bound)",
        "EnergyLossHelper's regime choice is compared with the rules documented in the class comments, "
        "skipping configurations within 1e-9 (relative) of a regime boundary; -fno-access-control is used "
        "only to read EnergyLossUrbanDistribution's cross sections for branch tags",
    ],
    "bounds": {"quick": {"passes": "A5^4 + A9^3", "lattice_bits": 20},
               "thorough": {"passes": "A7^6 (eloss helper cases A7^5) + A9^4", "lattice_bits": 22}},
    "parts": [
        {"name": "support", "harness": "c15_samplers", "flavour": "rel", "cflags": ["-fno-access-control"],
         "shards": {"quick": 16, "thorough": 16}, "deadline": {"quick": 150, "thorough": 1100}},
        {"name": "quadrature", "harness": "c15_samplers", "flavour": "rel", "cflags": ["-fno-access-control"],
         "shards": {"quick": 16, "thorough": 16}, "deadline": {"quick": 150, "thorough": 1100}},
    ],
}

META = {
    "engine": "E5 scripted RNG + lattice quadrature (harness/c15_samplers.cc, engine/scripted_rng.hh)",
    "design_ref": "DESIGN.md section 3, C15; section 1.4 E5",
    "technique": "bounded-exhaustive enumeration of random-stream prefixes over a finite alphabet (support, "
                 "bounded draws) and deterministic midpoint-lattice quadrature of the sampler's push-forward "
                 "measure against analytic CDFs",
    "text": ("Every sampler is a function of its canonical uniforms. Part 'support' enumerates all "
             "A_u^k prefixes (extreme and interior letters) for each parameter letter and checks support, "
             "finiteness and a draw bound derived from the acceptance probability; part 'quadrature' replaces "
             "sampling by the complete midpoint lattice of the first canonicals and compares the resulting "
             "empirical CDF with the analytic one under a stated discrepancy bound."),
    "note": ("Trusts: long double libm (erfcl, lgammal, expl) for the reference CDFs (self-checked against "
             "closed forms at start-up); splitmix64 tail treated as i.i.d. in the Hoeffding term; "
             "thresholds are worst-case bounds, typically 10-1000x above the observed distance."),
}
