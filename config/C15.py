CHECK = {
    "level": "exploration",
    "rule": ("E5 scripted RNG. support: every sampler x parameter letter (chosen to hit each branch of its "
             "code) x ALL prefixes in A_u^k of the first k canonical draws (upper word forced, lower word "
             "mid-cell, never an exactly-zero canonical), then a fixed splitmix tail: value in documented "
             "support, finite, #canonicals <= bound derived from the algorithm's acceptance probability; a third "
             "pass with lower word 0 over the letters {0, 1/4, 1/2, 3/4} EXACTLY (exact-zero canonical, dyadic "
             "ties) for the families whose support is closed at 0 (bernoulli, selector, uniform, box, radial, "
             "isotropic, invsquare, reciprocal, Poisson lambda<=16). Energy-loss helper: e-, e+, mu-, p, alpha "
             "(charge 2) x 3 materials x energies x losses x steps x cuts plus exact regime ties (loss == E0, "
             "loss == 10 Tc): model choice AND beta^2, 2 m_e beta^2 gamma^2, Tmax, Bohr variance compared with a "
             "long double re-derivation; Urban: mean-loss identity of the constructor outputs in every branch, "
             "operator() == loss_scaling * (excitation stage + ionisation stage) on the same words. "
             "quadrature: the midpoint lattice {(i+1/2)/2^b} of the first canonicals (2^20 quick / 2^22 "
             "thorough points) pushed through the sampler; sup-distance of the empirical CDF to the analytic "
             "CDF/PMF (independent long double code) <= L + H + 2/N with L = sum_j pieces_j/2^b_j (lattice "
             "cells cut by the level set), H = 5 sqrt(N_tail)/N (Hoeffding, for points that also used the "
             "tail); the Urban sampling stages (fast gaussian/uniform; excitation both levels fast / one fast / "
             "one Poisson level +- a fast one; ionisation Poisson-only: P(no collision) and the single-collision "
             "spectrum; ionisation fast regime: number of collisions above alpha E0, median of the Gaussian part) are judged the same way against their closed-form laws given the constructor outputs. "
             "non-trivial = a distinct (sampler case, set of non-default branch tags: retry, cached "
             "value, zero-weight skipped, regime ...) pair in 'support', a distinct lattice case in "
             "'quadrature'."),
    "assumptions": [
        "host build, real_type = double; canonical doubles are formed exactly as for XORWOW "
        "(detail::GenerateCanonical32: two 32-bit words); float instantiations are not exercised",
        "'matches the analytic distribution within statistical resolution' is decided only at this "
        "lattice resolution: sup-norm CDF errors below ~3/2^b (1-D), ~8/2^(b/2) (2-D, Box-Muller based) "
        "are invisible; points that leave the lattice (rejection retries, draws beyond the lattice "
        "dimensions) use a fixed declared splitmix64 tail selected by VERIF_SEED and are bounded with a "
        "Hoeffding term assuming that tail is as good as i.i.d.",
        "exactly-zero canonicals (probability 2^-64) are produced only for the families listed in the rule "
        "(support closed at 0); exponential / normal / gamma / Poisson(lambda>16) / rejection and everything "
        "built on them are NOT given u = 0 (log(0), u^(1/alpha) = 0 in the unmodified code); canonicals "
        "closer than 2^-33 to 1 are not produced",
        "a sample equal to the open upper bound b of UniformRealDistribution after rounding "
        "(|x-b| <= 2 ulp) is tagged, not reported: it is the correctly rounded value of a point in [a,b)",
        "EnergyLossUrbanDistribution (multi-stage compound Poisson): the law of the SUM of the stages has no "
        "closed form and is not judged; instead (a) every stage branch whose law is explicit is judged against "
        "it given xs_exc_/binding_energy_/xs_ion_ (read with -fno-access-control), (b) those constructor "
        "outputs are judged against the model's mean-loss identity (rel. 1e-9; observed 3e-16), (c) operator() "
        "is compared bit-for-bit with loss_scaling*(stage1+stage2). In the fast ionisation regime (xs_ion > 8) the law of the number of "
        "collisions above alpha E0 and the median (= mean) of the Gaussian part are judged, with alpha = "
        "(n3+8)R/(8R+n3) taken from PHYS332 Eq. 25 as restated in the code; NOT judged: the width of that "
        "Gaussian (Eq. 19), and the case of both excitation levels in the Poisson branch with comparable weights",
        "EnergyLossHelper's regime choice is compared with the rules documented in the class comments, "
        "skipping configurations within 1e-9 (relative) of a regime boundary unless both sides of the "
        "comparison are bit-identical input doubles (loss == 1e-5, loss == 10*cut with Tmax > cut): there the "
        "documented operator (G4UniversalFluctuation: '<' in both places) decides; the helper's accessors are "
        "compared with rel. tolerance 1e-12 + 2e-15/beta^2 (double rounding of 1 - 1/gamma^2)",
        "the known finding rotate:wrong-polar-angle[renorm,y<0] is signature-specific: wrong polar angles in "
        "the generic branch, on the axis, or in the renormalising branch with y >= 0 have their own signatures",
    ],
    "bounds": {"quick": {"passes": "A5^4 + A9^3 + Z4^3 (exact dyadic, closed-at-0 families)", "lattice_bits": 20},
               "thorough": {"passes": "A7^6 (eloss helper cases A7^5) + A9^4 + Z4^4", "lattice_bits": 22}},
    "parts": [
        {"name": "support", "harness": "c15_samplers", "flavour": "rel", "cflags": ["-fno-access-control"],
         "shards": {"quick": 16, "thorough": 16}, "deadline": {"quick": 150, "thorough": 1100}},
        {"name": "quadrature", "harness": "c15_samplers", "flavour": "rel", "cflags": ["-fno-access-control"],
         "shards": {"quick": 16, "thorough": 16}, "deadline": {"quick": 150, "thorough": 1100}},
    ],
}

META = {
    "engine": "E5 scripted RNG + lattice quadrature (harness/c15_samplers.cc, engine/scripted_rng.hh)",
    "design_ref": "DESIGN.md section 3, C15; section 1.4 E5",
    "technique": "bounded-exhaustive enumeration of random-stream prefixes over a finite alphabet (support, "
                 "bounded draws) and deterministic midpoint-lattice quadrature of the sampler's push-forward "
                 "measure against analytic CDFs",
    "text": ("Every sampler is a function of its canonical uniforms. Part 'support' enumerates all "
             "A_u^k prefixes (extreme and interior letters) for each parameter letter and checks support, "
             "finiteness and a draw bound derived from the acceptance probability; part 'quadrature' replaces "
             "sampling by the complete midpoint lattice of the first canonicals and compares the resulting "
             "empirical CDF with the analytic one under a stated discrepancy bound."),
    "note": ("Trusts: long double libm (erfcl, lgammal, expl) for the reference CDFs (self-checked against "
             "closed forms at start-up); splitmix64 tail treated as i.i.d. in the Hoeffding term; "
             "thresholds are worst-case bounds, typically 10-1000x above the observed distance."),
}
