CHECK = {
    "level": "model_checking",
    "rule": ("explicit enumeration of ALL histories up to depth D (quick 2, thorough 3) over the alphabet "
             "{run event e in {0,1,2} to completion after reseed; run event e in {0,2} for k in {1,3} "
             "steps, abandon, reset_state(); warm_up()} on one Stepper, each followed by probing events "
             "0,1,2; configuration lattice: track order {none + 6 re-indexing orders} x action_times x "
             "StatusChecker x slots {2,8} x along-step {linear+MSC+fluctuation, field+MSC+fluctuation}, rotated-"
             "daughter geometry, 3 primaries (gamma, e-, e+) per event; interaction outcomes are a fixed "
             "function of (event, track, step, particle, energy). Oracle: per-track step history hash of "
             "every completed event == the same event on a fresh state with TrackOrder::none. "
             "non-trivial = a non-empty history."),
    "assumptions": [
        "same slot count for reference and test (the property's precondition)",
        "per-track comparison: delivery order within a step is not compared",
        "scripted physics: RNG is consumed by interaction-length sampling and loss fluctuations",
    ],
    "bounds": {"quick": {"history_depth": 2}, "thorough": {"history_depth": 3}},
    "parts": [
        {"name": "repro", "harness": "c06_repro", "flavour": "rel",
         "shards": {"quick": 16, "thorough": 16}, "deadline": {"quick": 100, "thorough": 1200}},
    ],
}
META = {
    "engine": "E2 exhaustive history enumeration (harness/c06_repro.cc)",
    "design_ref": "DESIGN.md section 3, C06",
    "technique": "exhaustive enumeration of operation histories on the real Stepper up to a depth bound; "
                 "differential oracle (fresh state vs state reached through the history)",
    "text": ("Every history of previously transported / abandoned events within the bound is executed on one "
             "Stepper and each event is compared bit-for-bit with its fresh-state run: state left over in "
             "track slots, initializer queues, RNG or re-indexing permutations would show up as a "
             "difference. The unit tests only reseed once on a fresh state."),
    "note": "Differential oracle: no hand-written expected values.",
}
