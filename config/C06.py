CHECK = {
    "level": "model_checking",
    "rule": ("explicit enumeration of ALL histories up to depth D (quick 2, thorough 3) over the alphabet "
             "{E<e>: run event e in {0,1,2} to completion after reseed; A<e>.<k>: run event e in {0,2} for "
             "k in {1,3} Stepper calls, abandon it between two calls, reset_state(); X: abort the event BY "
             "AN EXCEPTION in the middle of a step, then reset_state() - a user action throwing at its "
             "n-th invocation at user_post (X0.2.post, X2.4.post: killed slots / pending secondaries) or "
             "user_start (X2.2.start: initializing slots), or the n-th interaction throwing inside the "
             "interaction kernel (X0.2.int); V: a Stepper call with the invalid event id max_events "
             "(rejected), reset_state(); W: warm_up() as first letter} on one Stepper, each history "
             "followed by probing events 0,1,2; configuration lattice: track order {none + 6 re-indexing "
             "orders + init_charge (reference: fresh state with init_charge)} x action_times x StatusChecker x slots {1,2,4,8} (4 = tie with the number of primaries, g1 only) x along-step {linear+MSC+fluctuation, "
             "field+MSC+fluctuation} x geometry {g1 box-in-box (single universe), g3 rotated-daughter "
             "universe (two levels)} (quick: timing/checker both off or both on; field+g1 with slots "
             "1,2,4,8, linear+g1 with 2,4, the g3 pairs with 2 slots; init_charge on g1 with 2 slots); after histories of length <= 1 "
             "the probes are followed by events with UniqueEventId != EventId (E0u5, E2u0), each against its own fresh reference; 3 primaries (gamma, e-, e+) per event, with a "
             "field a 4th one: a 0.2 MeV e- in the vacuum world perpendicular to B whose first step is "
             "already a looping step; interaction outcomes are a fixed function of (event, track, step, "
             "particle, energy). Oracle, for every completed event: (1) per-track step history hash, "
             "(2) StepperResult sequence (generated, active, alive, queued of every call), (3) tallies "
             "cleared before the event: SimpleCalo energy per volume (the real SimpleCalo fed from the "
             "recorder's step state), ActionDiagnostic and StepDiagnostic tables - each bit-identical to "
             "the same event on a fresh state with the same slot count, TrackOrder::none, no timing, no "
             "checker. non-trivial = a non-empty history."),
    "assumptions": [
        "same slot count for reference and test (the property's precondition)",
        "per-track comparison: delivery order within a step is not compared",
        "scripted physics: RNG is consumed by interaction-length sampling, MSC and loss fluctuations",
        "an exception thrown by a user action or an interaction kernel, or the rejection of an invalid "
        "event id, followed by Stepper::reset_state() is taken as the statement's 'aborted event followed "
        "by a state reset'",
        "the calorimeter is compared bit for bit: it accumulates per detector in track-slot order, which "
        "does not depend on the re-indexing order",
    ],
    "bounds": {"quick": {"history_depth": 2}, "thorough": {"history_depth": 3}},
    "parts": [
        {"name": "repro", "harness": "c06_repro", "flavour": "rel",
         "shards": {"quick": 16, "thorough": 16}, "deadline": {"quick": 100, "thorough": 1200}},
    ],
}
META = {
    "engine": "E2 exhaustive history enumeration (harness/c06_repro.cc)",
    "design_ref": "DESIGN.md section 3, C06",
    "technique": "exhaustive enumeration of operation histories on the real Stepper up to a depth bound; "
                 "differential oracle (fresh state vs state reached through the history)",
    "text": ("Every history of previously transported / abandoned events within the bound is executed on one "
             "Stepper and each event is compared bit-for-bit with its fresh-state run: state left over in "
             "track slots, initializer queues, RNG or re-indexing permutations would show up as a "
             "difference. The unit tests only reseed once on a fresh state."),
    "note": "Differential oracle: no hand-written expected values.",
}
