CHECK = {
    "level": "exploration",
    "rule": ("lattice enumeration (E4) of the real FieldPropagator/FieldDriver/steppers through "
             "make_mag_field_propagator: geometry (5 orangeinp-built geometries whose volumes are also "
             "written down analytically: box in box, concentric spheres, cylinder shell, box minus "
             "cylinder, rotated+translated daughter universe) x (stepper in {DormandPrince, RK4, ZHelix}, "
             "field in {uniform x/z/oblique at 1 mT/1 T/100 T (thorough: also with negative components), B = 0, "
             "UniformZField, RZ map with uniform content, with smooth non-uniform content and a map smaller "
             "than the world}) x charge x gyroradius/scale (9 decades 1e-4..1e4) x "
             "driver options (default, tight, loose, max_substeps 1/100, max_nsteps 3/1/10, bump_distance < "
             "minimum_step, step-control exponents) x start configuration (generic interior lattice x 26 directions; near-boundary "
             "tangent family h in {5e-7,5e-5,2e-2} x side x angle in {0,+-1e-9,+-1e-6,+-1e-3}; head-on from "
             "within minimum_step..delta_intersection; ON a boundary after linear move + cross with "
             "incidence {0,60,86 deg} and optional set_dir to {1e-3,1e-6,1e-9,-1e-6,0.7} rad off tangent) x "
             "requested step (0.5*minimum_step, minimum_step, 3*delta_intersection, {1e-3,1,10,1e3} radii; 1e-20 "
             "and 1e-15 for head-on starts within minimum_step, on-boundary starts without set_dir and one "
             "interior start) x subdivision k in {1,2,5} consecutive calls, crossing boundaries as they are hit. Every "
             "call is judged by: distance in (0, step(1+1e-12)]; particle momentum unchanged, |dir|=1; "
             "exactly one of full-step/looping/boundary (+ documented bump), result.boundary == "
             "geo.is_on_boundary(), volume unchanged; analytic membership of the end point; end point and "
             "end direction on the long-double analytic helix (uniform fields, B = 0, and the small RZ map "
             "when the reachable ball lies on one side of the map edge), per call and cumulatively; "
             "32 helix samples for skipped volumes; a reported landing can be crossed. RZMapField values at "
             "geometry points, mirror images, the axis, a lattice over and beyond each map and the map "
             "edges/grid lines +-1 ulp against a long-double re-interpolation of the input tables, incl. a hollow "
             "map (min_r = 2.5, z in [3,17]) that is value-checked only; the params' driver options equal "
             "RZMapFieldInput::driver_options (non-default in two of the four maps). "
             "FieldPropagator::operator()() (no step limit) from interior starts. With max_nsteps in {1,3,10} "
             "the FieldDriver calls are replayed from the recorded stepper applications and a violation is "
             "attributed to a trial-loop exhaustion only when it was observed in the judged call. non-trivial = a trajectory that reached something "
             "other than 'one full step off-boundary' (distinct by geometry, stepper/field, options, "
             "radius, start kind and the set of loop/driver branches reached, observed through a "
             "forwarding track-view and a counting stepper). Values between lattice points are not covered."),
    "assumptions": [
        "host build, ORANGE geometry, double precision, CGS/gauss units (checked at start-up)",
        "analytic helix: kappa = 1e-12*c [1/(gauss cm MeV/c)], long-double momentum recomputed from the "
        "double kinetic energy handed to the library",
        "helix position tolerance per call = eps_rel_max*(1+2N)*D + 2*minimum_step + delta_intersection "
        "+ per-landing term + 1e-12 rounding, N = counted stepper applications; direction tolerance = "
        "eps_rel_max*(1+N)*(1+D/R) + (arc slack)/R; derivation in the harness (TOLERANCE MODEL). The "
        "embedded error estimates are assumed to bound the true local error, hence eps_rel_max <= 1e-3 in "
        "all option sets",
        "the 'bump' after a stuck start on a boundary is the documented degenerate outcome: accepted, and "
        "the trajectory is not followed further",
        "B = 0 uses a generic length scale (0.9371 x the lattice radius): with round step lengths a straight "
        "line from the round lattice points ends EXACTLY on a surface (measure zero for curved paths; the exact "
        "tie belongs to C05, 'internal move rounded onto a surface')",
        "after a reported landing the harness crosses the boundary with OrangeTrackView::cross_boundary(); a "
        "failed crossing or a post-crossing volume that does not contain the landing point is reported "
        "(member:reported-landing-cannot-be-crossed, nav:volume-after-crossing-...) and ends the trajectory",
        "a sub-resolution step accepted from a start ON a boundary leaves the point on the surface without "
        "surface state (move_internal to the identical position): the trajectory is not followed further "
        "(navigation-state problem recorded for C05)",
        "RZMapField semantics as implemented and commented in RZMapField.hh: B_z linear in z on the grid line "
        "of the lower r index, B_r linear in r on the grid line of the lower z index, zero outside "
        "[min_z,max_z] x [min_r,max_r] (ends inclusive); within 8 ulp of a grid line either bin is accepted",
        "small RZ map: the analytic oracle is applied only when the ball of radius 1.01*step + 1e-4 around the "
        "call's start is on one side of the map edge (every trial step and Runge-Kutta stage stays inside it)",
        "a set_dir on a boundary closer to the tangent plane than double precision can resolve "
        "(R*theta^2/2 < 1e-13 cm) is treated as exact tangency (measure zero) and skipped",
        "interior lattice points have generic coordinates (no rays exactly through edges/corners or exactly "
        "tangent to curved surfaces: those belong to the navigation property C03)",
        "ZHelixStepper is enumerated only inside the configuration of its unit test (gyration centre on "
        "the z axis, positive helicity, dir_y != 0, up to the first boundary landing); the four ways of "
        "leaving it are exercised once each (case ids zhx=1..4) and reported",
    ],
    "bounds": {"quick": {"stepper_field_pairs": 15, "options": 9,
                         "species": "e-, e+ on the whole lattice; alpha (q=+2, m=3727.379) and neutral (q=0, m=0) on "
                                    "the sub-lattice default options x radius idx 3..5 x non-ZHelix B != 0 (195 blocks)", "ratios": 9, "steps": "7 (+2 sub-resolution)",
                         "k": [1, 2, 5], "rzmap_value_points": 4095, "rz_maps": "rzu, rzs, rzi (tight driver_options), rzh (hollow, value only)", "nolimit_cases": 2832,
                         "thinning": "checkerboard half of (interior point, direction), of (start, step) "
                                     "with a block-dependent colour, and of (radius, options, charge); "
                                     "5 tangent angles"},
               "thorough": {"stepper_field_pairs": 31, "options": 10,
                            "species": "e-, e+ on the whole lattice; alpha and neutral on the sub-lattice default "
                                       "options x radius idx 3..5 x non-ZHelix B != 0", "ratios": 9,
                            "steps": "7 (+2 sub-resolution)", "k": [1, 2, 5],
                            "thinning": "checkerboard half of (start, step) with a block-dependent colour, "
                                        "none for head-on and redirected on-boundary starts; 7 tangent "
                                        "angles"}},
    "parts": [
        {"name": "field", "harness": "c08_field", "flavour": "rel",
         "shards": {"quick": 16, "thorough": 16}, "deadline": {"quick": 600, "thorough": 2400}},
    ],
}

META = {
    "engine": "E4 lattice enumerator (harness/c08_field.cc)",
    "design_ref": "DESIGN.md section 3, C08",
    "technique": "bounded-exhaustive enumeration of a finite input/configuration lattice of the real "
                 "field propagation code with independent analytic oracles (long-double helix, analytic "
                 "solid membership)",
    "text": ("Every element of the stated lattice is executed through the real make_mag_field_propagator / "
             "FieldPropagator / FieldDriver / steppers on ORANGE geometries built in the harness; the oracle "
             "is an analytic long-double helix and analytic solid membership written next to the geometry "
             "definition. No sampling. Bounded: finite alphabets for every argument; nothing is claimed "
             "between lattice points."),
    "note": ("Trusts: the analytic region descriptions (cross-checked against the navigator at every "
             "interior lattice point at start-up), the tolerance model derived from FieldDriverOptions, and "
             "that counting stepper applications through make_field_propagator is equivalent to "
             "make_mag_field_propagator (checked bit-for-bit on every k=1 call). Wall times were measured "
             "on a machine shared with ~8x oversubscription; CPU cost is ~340 s (quick) / ~2400 s (thorough) "
             "in total over 16 shards."),
}
