CHECK = {
    "level": "exploration",
    "rule": ("lattice enumeration (E4) of the real FieldPropagator/FieldDriver/steppers: geometry "
             "(5 orangeinp-built geometries with analytic regions) x (stepper, field) x charge x "
             "gyroradius/scale (1e-4..1e4) x driver options x start configuration (interior lattice "
             "x 26 directions, near-boundary tangent family, on-boundary after linear move+cross "
             "with optional set_dir) x requested step (7 values from 0.5*minimum_step to 1e3 radii) "
             "x subdivision k in {1,2,5}; every propagation is judged by range, flag trichotomy "
             "(+ documented bump), analytic point membership, long-double analytic helix and 32 "
             "helix samples for skipped volumes. non-trivial = a trajectory that reached something "
             "other than 'full step off-boundary' (distinct by geometry, stepper/field, options, "
             "radius index, start kind and the set of loop branches reached). Values between lattice "
             "points are not covered."),
    "assumptions": [
        "host build, ORANGE geometry, double precision, CGS/gauss units (checked at start-up)",
        "the analytic helix uses kappa = 1e-12*c [1/(gauss cm MeV/c)] and the long-double momentum "
        "recomputed from the double kinetic energy handed to the library",
        "helix tolerance = eps_rel_max*D + 2*minimum_step/call + delta_intersection/call + "
        "per-landing term (see helix_tolerance comment in the harness); the eps term reads the "
        "driver's documented 'relative error' as error per unit path length",
        "bump after a stuck start on a boundary is accepted as the documented degenerate outcome",
    ],
    "bounds": {"quick": {"fields_per_stepper": 6, "start_cfgs": "checkerboard half",
                         "options": 6, "ratios": 9, "steps": 7, "k": [1, 2, 5]},
               "thorough": {"fields_per_stepper": 12, "start_cfgs": "all", "options": 7,
                            "ratios": 9, "steps": 7, "k": [1, 2, 5]}},
    "parts": [
        {"name": "field", "harness": "c08_field", "flavour": "rel",
         "shards": {"quick": 16, "thorough": 16}, "deadline": {"quick": 150, "thorough": 1300}},
    ],
}

META = {
    "engine": "E4 lattice enumerator (harness/c08_field.cc)",
    "design_ref": "DESIGN.md section 3, C08",
    "technique": "bounded-exhaustive enumeration of a finite input/configuration lattice of the real "
                 "field propagation code with independent analytic oracles (helix, point membership)",
    "text": ("Every element of the stated lattice is executed through make_mag_field_propagator on "
             "ORANGE geometries built in the harness; the oracle is an analytic long-double helix and "
             "analytic solid membership written next to the geometry definition. No sampling."),
    "note": ("Trusts: the analytic region descriptions (cross-checked against the navigator at the "
             "interior lattice points at start-up) and the tolerance model derived from "
             "FieldDriverOptions."),
}
