CHECK = {
    "level": "exploration",
    "rule": ("lattice enumeration (E4) of the real FieldPropagator/FieldDriver/steppers through "
             "make_mag_field_propagator: geometry (5 orangeinp-built geometries whose volumes are also "
             "written down analytically: box in box, concentric spheres, cylinder shell, box minus "
             "cylinder, rotated+translated daughter universe) x (stepper in {DormandPrince, RK4, ZHelix}, "
             "field in {uniform x/z/oblique at 1 mT/1 T/100 T, UniformZField, RZ map with uniform and "
             "with smooth non-uniform content}) x charge x gyroradius/scale (9 decades 1e-4..1e4) x "
             "driver options (default, tight, loose, max_substeps 1/100, max_nsteps 3, step-control "
             "exponents) x start configuration (generic interior lattice x 26 directions; near-boundary "
             "tangent family h in {5e-7,5e-5,2e-2} x side x angle in {0,+-1e-9,+-1e-6,+-1e-3}; head-on from "
             "within minimum_step..delta_intersection; ON a boundary after linear move + cross with "
             "incidence {0,60,86 deg} and optional set_dir to {1e-3,1e-6,1e-9,-1e-6,0.7} rad off tangent) x "
             "requested step (0.5*minimum_step, minimum_step, 3*delta_intersection, {1e-3,1,10,1e3} radii) "
             "x subdivision k in {1,2,5} consecutive calls, crossing boundaries as they are hit. Every "
             "call is judged by: distance in (0, step(1+1e-12)]; particle momentum unchanged, |dir|=1; "
             "exactly one of full-step/looping/boundary (+ documented bump), result.boundary == "
             "geo.is_on_boundary(), volume unchanged; analytic membership of the end point; end point and "
             "end direction on the long-double analytic helix (uniform fields), per call and cumulatively; "
             "32 helix samples for skipped volumes. non-trivial = a trajectory that reached something "
             "other than 'one full step off-boundary' (distinct by geometry, stepper/field, options, "
             "radius, start kind and the set of loop/driver branches reached, observed through a "
             "forwarding track-view and a counting stepper). Values between lattice points are not covered."),
    "assumptions": [
        "host build, ORANGE geometry, double precision, CGS/gauss units (checked at start-up)",
        "analytic helix: kappa = 1e-12*c [1/(gauss cm MeV/c)], long-double momentum recomputed from the "
        "double kinetic energy handed to the library",
        "helix position tolerance per call = eps_rel_max*(1+2N)*D + 2*minimum_step + delta_intersection "
        "+ per-landing term + 1e-12 rounding, N = counted stepper applications; direction tolerance = "
        "eps_rel_max*(1+N)*(1+D/R) + (arc slack)/R; derivation in the harness (TOLERANCE MODEL). The "
        "embedded error estimates are assumed to bound the true local error, hence eps_rel_max <= 1e-3 in "
        "all option sets",
        "the 'bump' after a stuck start on a boundary is the documented degenerate outcome: accepted, and "
        "the trajectory is not followed further",
        "a set_dir on a boundary closer to the tangent plane than double precision can resolve "
        "(R*theta^2/2 < 1e-13 cm) is treated as exact tangency (measure zero) and skipped",
        "interior lattice points have generic coordinates (no rays exactly through edges/corners or exactly "
        "tangent to curved surfaces: those belong to the navigation property C03)",
        "ZHelixStepper is enumerated only inside the configuration of its unit test (gyration centre on "
        "the z axis, positive helicity, dir_y != 0, up to the first boundary landing); the four ways of "
        "leaving it are exercised once each (case ids zhx=1..4) and reported",
    ],
    "bounds": {"quick": {"stepper_field_pairs": 13, "options": 6, "ratios": 9, "steps": 7, "k": [1, 2, 5],
                         "thinning": "checkerboard half of (interior point, direction), of (start, step) "
                                     "and of (radius, options, charge); 5 tangent angles"},
               "thorough": {"stepper_field_pairs": 26, "options": 7, "ratios": 9, "steps": 7,
                            "k": [1, 2, 5],
                            "thinning": "checkerboard half of (start, step) only; 7 tangent angles"}},
    "parts": [
        {"name": "field", "harness": "c08_field", "flavour": "rel",
         "shards": {"quick": 16, "thorough": 16}, "deadline": {"quick": 600, "thorough": 2400}},
    ],
}

META = {
    "engine": "E4 lattice enumerator (harness/c08_field.cc)",
    "design_ref": "DESIGN.md section 3, C08",
    "technique": "bounded-exhaustive enumeration of a finite input/configuration lattice of the real "
                 "field propagation code with independent analytic oracles (long-double helix, analytic "
                 "solid membership)",
    "text": ("Every element of the stated lattice is executed through the real make_mag_field_propagator / "
             "FieldPropagator / FieldDriver / steppers on ORANGE geometries built in the harness; the oracle "
             "is an analytic long-double helix and analytic solid membership written next to the geometry "
             "definition. No sampling. Bounded: finite alphabets for every argument; nothing is claimed "
             "between lattice points."),
    "note": ("Trusts: the analytic region descriptions (cross-checked against the navigator at every "
             "interior lattice point at start-up), the tolerance model derived from FieldDriverOptions, and "
             "that counting stepper applications through make_field_propagator is equivalent to "
             "make_mag_field_propagator (checked bit-for-bit on every k=1 call). Wall times were measured "
             "on a machine shared with ~8x oversubscription; CPU cost is ~340 s (quick) / ~2400 s (thorough) "
             "in total over 16 shards."),
}
