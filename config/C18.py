CHECK = {
    "level": "exploration",
    "rule": ("Small-scope exhaustive enumeration (E4): every sequence over 4/3/2-letter alphabets and "
             "every permutation up to the length bound is fed to celeritas::sort (Less<>, Less<int> on "
             "pointers, std::greater, the indirect index-by-distance comparator of SimpleUnitTracker, "
             "keyed records), partition (all threshold predicates, ORANGE's IsFinite), min_element, "
             "all_of/any_of/all_adjacent (VectorUtils comparators) and, when sorted, lower_bound/"
             "upper_bound/lower_bound_linear/find_sorted, each compared with the std:: algorithm; every "
             "non-decreasing sequence over 6 (8) letters is searched with the element types and "
             "comparators of the call sites (int, OpaqueId, size_type Span, real, ItemId range into a "
             "Collection); Range/Count/step for every (begin,end,step) in a cube for int, short, long "
             "long, unsigned, OpaqueId and enum; integer helpers over complete small domains against "
             "exact integer / dyadic references; Span sub-views; Hyperslab and RaggedRight indexers as "
             "bijections for every shape <= 4 per axis; UniformGrid/NonuniformGrid/find_interp at every "
             "knot, +-k ulp, exact-arithmetic knots, bin midpoints and ends; Interpolator (4 lin/log "
             "combinations) and Twod(Sub)gridCalculator against long double with a stated rounding "
             "model. non-trivial = a distinct structural class of an input that is not the identity "
             "case (unsorted sequence class: length x inversions x distinct letters x argmin x ends; "
             "search class; grid; interpolation set ...)."),
    "assumptions": [
        "host build, real_type = double, size_type = unsigned int",
        "CELER_EXPECT preconditions are respected by the harness (debug assertions are compiled out)",
        "UniformGrid::find's documented postcondition is judged with grid[i] as computed by "
        "UniformGrid::operator[] (itself checked against long double), front() for i=0 and back() for the "
        "last point",
        "NonuniformGrid with repeated knots: only grid[r] <= v <= grid[r+1] is required",
        "negative Range::step with (end-begin) not divisible by |step|: only range membership, spacing and "
        "termination are required (semantics undocumented)",
        "floating tolerances follow a per-operation rounding model (u = 2^-53 per correctly rounded "
        "operation, < 1 ulp for libm log2/exp2) with a safety factor, see comments in the harness",
    ],
    "bounds": {
        "quick": {"seq_alphabet4_len": 8, "seq_alphabet3_len": 9, "seq_alphabet2_len": 12, "perm_len": 8,
                  "sorted_alphabet": 6, "sorted_len": 9, "range_cube": 4, "uniform_grid_max_points": 33,
                  "ulp_window": 4},
        "thorough": {"seq_alphabet4_len": 11, "seq_alphabet3_len": 13, "seq_alphabet2_len": 18,
                     "perm_len": 11, "sorted_alphabet": 8, "sorted_len": 12, "range_cube": 6,
                     "uniform_grid_max_points": 129, "ulp_window": 8},
    },
    "parts": [
        {"name": "algorithms", "harness": "c18_algorithms", "flavour": "rel",
         "shards": {"quick": 16, "thorough": 16}, "deadline": {"quick": 120, "thorough": 1100}},
    ],
}

META = {
    "engine": "E4 lattice / small-scope enumerator (harness/c18_algorithms.cc)",
    "design_ref": "DESIGN.md section 3, C18",
    "technique": "bounded-exhaustive enumeration of all inputs up to a size bound, std:: and long double / "
                 "exact integer references evaluated on every element",
    "text": ("Small-scope model checking of the header-only device-portable utilities: the input space of "
             "each routine is enumerated completely up to a stated bound (all sequences, permutations, "
             "multisets, (begin,end,step) triples, shapes, grids x knot-adjacent query values) and the real "
             "template instantiations are compared with independent references on every element. For the "
             "comparison-based algorithms the small-scope space covers every order type up to the length "
             "bound, i.e. every control path of heapsort/partition/bisection that depends only on the "
             "relative order of at most 11 elements; for floating-point grids the decision holds for the "
             "enumerated grids and the stated ulp window around each knot."),
    "note": ("Continuous grid bounds/query values between lattice points are not covered. Float (real_type="
             "float) instantiations and device execution are out of scope in this build."),
}
