CHECK = {
    "level": "exploration",
    "rule": ("Small-scope exhaustive enumeration (E4): every sequence over 4/3/2-letter alphabets and "
             "every permutation up to the length bound is fed to celeritas::sort (Less<>, Less<int> on "
             "pointers, std::greater, the indirect index-by-distance comparator of SimpleUnitTracker, "
             "keyed records), partition (all threshold predicates, ORANGE's IsFinite), min_element, "
             "all_of/any_of/all_adjacent (VectorUtils comparators) and, when sorted, lower_bound/"
             "upper_bound/lower_bound_linear/find_sorted, each compared with the std:: algorithm; every "
             "non-decreasing sequence over 6 (8) letters is searched with the element types and "
             "comparators of the call sites (int, OpaqueId, size_type Span, real, ItemId range into a "
             "Collection); Range/Count/step for every (begin,end,step) in a cube for int, short, long "
             "long, unsigned, OpaqueId and enum (range-for, size/front/back/[], iterator arithmetic, "
             "prefix and postfix ++/--, iterator []/->, stepped ranges walked with prefix and postfix "
             "++), the same cube shifted next to 2^31, 2^32, -2^31 and the top of the type for the "
             "32/64-bit integer and OpaqueId counters, short, signed char, int, and ranges of SIZE "
             "2^31..2^33 (size, back, end-begin, [] and iterator +- near both ends, no iteration); "
             "integer helpers over complete small domains against exact integer / dyadic references; "
             "eumod also on tiny and ulp-adjacent numerators x non-dyadic denominators (0 <= r < d, one "
             "ulp(d) from the exact remainder); floating min/max on NaN/inf/denormal/signed-zero pairs "
             "against std::fmin/fmax and the identity of the object returned by integer min/max and "
             "clamp against std::; Span sub-views; Hyperslab and RaggedRight indexers as "
             "bijections for every shape <= 4 per axis; UniformGrid/NonuniformGrid/find_interp at every "
             "knot, +-k ulp, exact-arithmetic knots, bin midpoints and ends; Interpolator (4 lin/log "
             "combinations) and Twod(Sub)gridCalculator against long double with a stated rounding "
             "model. non-trivial = a distinct structural class of an input that is not the identity "
             "case (unsorted sequence class: length x inversions x distinct letters x argmin x ends; "
             "search class; grid; interpolation set ...)."),
    "assumptions": [
        "host build, real_type = double, size_type = unsigned int",
        "CELER_EXPECT preconditions are respected by the harness (debug assertions are compiled out)",
        "UniformGrid::find's documented postcondition is judged with grid[i] as computed by "
        "UniformGrid::operator[] (itself checked against long double), front() for i=0 and back() for the "
        "last point",
        "NonuniformGrid with repeated knots: only grid[r] <= v <= grid[r+1] is required",
        "negative Range::step with (end-begin) not divisible by |step|: only range membership, spacing and "
        "termination are required (semantics undocumented)",
        "stepped ranges are not enumerated where a step past `end` would overflow the counter (int / "
        "unsigned at the very top of the type); step_range_iter::operator+ is not checked because it does "
        "not compile (see proposed_findings)",
        "eumod: 'between zero and the denominator' is read as the half-open interval [0, denom) (as its "
        "callers and the unit test state); for a pair of zeros of opposite sign min/max may return either",
        "a 32-bit unsigned counter's difference_type (int) cannot represent distances >= 2^31: `end - "
        "begin` is only required for the 64-bit counters in the wide ranges",
        "floating tolerances follow a per-operation rounding model (u = 2^-53 per correctly rounded "
        "operation, < 1 ulp for libm log2/exp2) with a safety factor, see comments in the harness",
    ],
    "bounds": {
        "quick": {"seq_alphabet4_len": 8, "seq_alphabet3_len": 9, "seq_alphabet2_len": 12, "perm_len": 8,
                  "sorted_alphabet": 6, "sorted_len": 9, "range_cube": 4, "uniform_grid_max_points": 33,
                  "ulp_window": 4},
        "thorough": {"seq_alphabet4_len": 11, "seq_alphabet3_len": 13, "seq_alphabet2_len": 18,
                     "perm_len": 11, "sorted_alphabet": 8, "sorted_len": 12, "range_cube": 6,
                     "uniform_grid_max_points": 129, "ulp_window": 8},
    },
    "parts": [
        {"name": "algorithms", "harness": "c18_algorithms", "flavour": "rel",
         # the thorough bounds cost ~25 s on 16 cores: the quick command runs them too (the harness at
         # its thorough depth; bounds.thorough is what the quick evidence covers)
         "depth": {"quick": "thorough"},
         "shards": {"quick": 16, "thorough": 16}, "deadline": {"quick": 600, "thorough": 1100}},
    ],
}

META = {
    "engine": "E4 lattice / small-scope enumerator (harness/c18_algorithms.cc)",
    "design_ref": "DESIGN.md section 3, C18",
    "technique": "bounded-exhaustive enumeration of all inputs up to a size bound, std:: and long double / "
                 "exact integer references evaluated on every element",
    "text": ("Small-scope model checking of the header-only device-portable utilities: the input space of "
             "each routine is enumerated completely up to a stated bound (all sequences, permutations, "
             "multisets, (begin,end,step) triples, shapes, grids x knot-adjacent query values) and the real "
             "template instantiations are compared with independent references on every element. For the "
             "comparison-based algorithms the small-scope space covers every order type up to the length "
             "bound, i.e. every control path of heapsort/partition/bisection that depends only on the "
             "relative order of at most 11 elements; for floating-point grids the decision holds for the "
             "enumerated grids and the stated ulp window around each knot."),
    "note": ("Continuous grid bounds/query values between lattice points are not covered. Float (real_type="
             "float) instantiations and device execution are out of scope in this build."),
}
