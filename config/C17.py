CHECK = {
    "level": "model_checking",
    "rule": ("E1 exploration of all interaction-outcome sequences (<= 2 deviations from 'absorb') of one "
             "event, over the scoring-configuration lattice: callbacks/filters {recorder all fields; "
             "recorder minimal fields; two recorders on one collector; detector map {inner} with the "
             "non-zero-deposit filter off/on; detector map {inner, world} + filter; two recorders with "
             "disjoint detector maps; SimpleCalo alone} x slots {1,2,8} x streams {1, 2 alternating}, with "
             "ActionDiagnostic and StepDiagnostic attached, x primaries {gamma,e-,e+} x energies x "
             "positions. non-trivial = execution with >=1 deviation, distinct by (root, delivered stream)."),
    "assumptions": [
        "expected deliveries come from independent probe actions at user_pre/user_post reading the track "
        "state through CoreTrackView; comparison is bit-for-bit on every selected field",
        "merged filter semantics as documented in StepParams: union of selections, union of disjoint "
        "detector maps, non-zero filter only if all callbacks ask for it; a consumer ignores slots "
        "without a detector when a detector map is declared",
    ],
    "bounds": {"quick": {"deviations": 2}, "thorough": {"deviations": 2}},
    "parts": [
        {"name": "scoring", "harness": "c17_scoring", "flavour": "rel",
         # reads SimpleCalo's per-stream store (its public accessor energy_deposition<M>(StreamId)
         # is a template defined in SimpleCalo.cc without instantiation: not linkable)
         "cflags": ["-fno-access-control"],
         "shards": {"quick": 16, "thorough": 16}, "deadline": {"quick": 100, "thorough": 1200}},
    ],
}
META = {
    "engine": "E1 explorer + configuration lattice (harness/c17_scoring.cc, harness/loop_explore.hh)",
    "design_ref": "DESIGN.md section 3, C17",
    "technique": "deviation-bounded exhaustive exploration of event histories on the real stepping loop; "
                 "delivered step records compared with independent probe snapshots",
    "text": ("For every explored history and every scoring configuration the multiset of records delivered "
             "to each callback is compared with what independent probes saw at the step points, and the "
             "calorimeter / diagnostic tallies with sums over those records: exactly-once delivery, field "
             "fidelity and filter semantics are decided for every history within the bound, including "
             "1-slot and multi-stream configurations the unit tests do not run."),
    "note": "Trusts the probe action (public CoreStepActionInterface + CoreTrackView accessors).",
}
