CHECK = {
    "level": "model_checking",
    "rule": ("E1 exploration of all interaction-outcome sequences (<= 2 deviations from 'absorb') of one "
             "event, over the scoring-configuration lattice: callbacks/filters {recorder all fields; "
             "recorder minimal fields; two recorders on one collector in both orders (all;minimal / "
             "minimal;all); detector map {inner->0} with the non-zero-deposit filter off/on; {inner->0, "
             "world->1} + filter; {inner->3, world->0} + filter (ids neither contiguous nor in volume "
             "order); two recorders with disjoint detector maps asking for the filter (on;off) and "
             "(off;on) and (on;on: merged filter on with two callbacks); detector maps with the selections {energy_deposition} (no pre-step field) and "
             "{parent_id, step_length, pre.energy, post.pos}; SimpleCalo alone with labels {inner,g1} and "
             "{g1,inner}; one recorder selecting only flag k for each of the 17 StepSelection flags; two "
             "recorders selecting only flags k and (k+5) mod 17} x slots {1,2,8} x streams {1, 2 "
             "changing from root to root, stream and event id decoupled from the start position / energy / "
             "particle of the root} (quick: 2 streams for 6 of the 16 modes, one-flag "
             "configurations with 2 slots), modes 0 and 4 also with track order reindex_shuffle / "
             "reindex_status (thorough: + reindex_particle_type, reindex_both_action, init_charge) so that "
             "thread id != slot id, always with ActionDiagnostic and StepDiagnostic attached (64+2 bins; 2+2 "
             "bins in m0.s8.t1 and m4.s8.t1 so that the overflow clamp binds), x primaries "
             "{gamma,e-,e+} x energies x positions with event ids 0..3. With a detector map every recorder "
             "also runs the real copy_steps() into a reused DetectorStepOutput. After every root the three "
             "tallies are clear()ed and must read zero. non-trivial = execution with >=1 deviation, "
             "distinct by (root, delivered stream)."),
    "assumptions": [
        "expected deliveries come from independent probe actions at user_pre/user_post reading the track "
        "state through CoreTrackView; comparison is bit-for-bit on every selected field; the stream id "
        "passed to process_steps must be the Stepper's",
        "merged filter semantics as documented in StepParams: union of selections, union of disjoint "
        "detector maps, non-zero filter only if all callbacks ask for it (independent of their order); a "
        "consumer ignores slots without a detector when a detector map is declared",
        "StepData.hh: 'each data member corresponds exactly to a flag; if the flag is disabled the member "
        "data will be empty': the gathered collections are exactly the union of the selections",
        "copy_steps(): output vector empty iff the source collection is empty, else one element per slot "
        "with a valid detector id, in slot order, bit-identical to the slot",
        "SimpleCalo stream-local tallies are read from its (private) StreamStore because the public "
        "accessor energy_deposition<M>(StreamId) is not instantiated in the library; "
        "ActionDiagnostic::clear() is only called after a Stepper exists (its precondition)",
    ],
    "bounds": {"quick": {"deviations": 2, "note": "same depth as thorough (parts[].depth): every "
                         "'(quick: ...)' restriction in the rule text is lifted"},
               "thorough": {"deviations": 2}},
    "parts": [
        {"name": "scoring", "harness": "c17_scoring", "flavour": "rel",
         # reads SimpleCalo's per-stream store (its public accessor energy_deposition<M>(StreamId)
         # is a template defined in SimpleCalo.cc without instantiation: not linkable)
         "cflags": ["-fno-access-control"],
         # the thorough configuration lattice costs ~3 s: the quick command runs it too
         "depth": {"quick": "thorough"},
         "shards": {"quick": 16, "thorough": 16}, "deadline": {"quick": 300, "thorough": 1200}},
    ],
}
META = {
    "engine": "E1 explorer + configuration lattice (harness/c17_scoring.cc, harness/loop_explore.hh)",
    "design_ref": "DESIGN.md section 3, C17",
    "technique": "deviation-bounded exhaustive exploration of event histories on the real stepping loop; "
                 "delivered step records compared with independent probe snapshots",
    "text": ("For every explored history and every scoring configuration the multiset of records delivered "
             "to each callback is compared with what independent probes saw at the step points, the "
             "consolidated copy_steps() output with the raw slots, and the calorimeter (per stream and "
             "total) / diagnostic tallies with sums over those records, including their reset: "
             "exactly-once delivery, field fidelity (every single selection flag alone), filter and "
             "selection merging and the stream identity are decided for every history within the bound, "
             "including 1-slot, sorted-track and multi-stream configurations the unit tests do not run."),
    "note": "Trusts the probe action (public CoreStepActionInterface + CoreTrackView accessors).",
}
