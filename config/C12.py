_SRC = ["harness/c12_surfaces.cc", "harness/c12_xform.cc", "harness/c12_inv.cc"]

CHECK = {
    "level": "exploration",
    "rule": ("E4 lattice enumeration, complete over the stated finite alphabets. surf: every surface type "
             "(px/py/pz, p, cxc/cyc/czc, cx/cy/cz, sc, s, kx/ky/kz, sq, gq) x coefficient alphabet "
             "(signs/zero/unit/large/small; sq: second in {-1,0,1}^3 [thorough {-1,0,1/4,1,4}^3] x first in "
             "{-1,0,2}^3 x constant; gq: {-1,0,1}^6 second+cross x {0,1}^3 first x {-1,0,1} [thorough: all "
             "{-1,0,1}^10], plus scaled, promoted and rotated-ellipsoid instances) x positions (dyadic "
             "lattice, far points up to 1e9, generated exactly-on-surface points, points 2^-24 off the "
             "surface, tangent start points) x directions (26 lattice, 12 near-axis tilts straddling the "
             "1e-10 threshold, null directions of the quadratic form +- 2^-34..2^-27, surface tangents, "
             "aimed). State 'on' is passed exactly for on-surface points, 'off' for clearly-off points. "
             "Oracle: long double implicit function / gradient / ray quadratic re-derived from "
             "surface.data() (oracle/c12_quadric.hh), rounding model KT=64 eps x sum|terms| (+ documented "
             "QuadraticSolver cancellation term hb^2/|a|, + |a| d^2 below the documented 1e-10 'along "
             "surface' threshold). xform: 128 (132) transforms = 9 translations (as Translation and as "
             "Transformation) + all 48 signed permutation matrices (24 proper also as SignedPermutation) "
             "x 2 translations + 3 Householder reflections x 2 + 4 generic rotations x 2 (3) translations; "
             "every surface x every transform: sense of the transformed surface at transform_up(x) == "
             "sign of the original f(x) on the lattice and 2^-12 and 2^-24 either side of on-surface points; "
             "transform algebra against an own matrix model; make_permutation(axis, quarter turns) for 3 axes "
             "x {-5,-2,-1,0..7} against an own exact integer model and make_rotation; SurfaceSimplifier "
             "chains preserve the region, including plane/cylinder/sphere/cone instances whose offset from "
             "the axis/origin lies between the tolerance and its square root (1e-7, 2^-20, 1e-5, 2^-17; "
             "2^-11, 1e-4 for the thorough tier's tolerance 1e-6) and must therefore NOT be snapped; "
             "TransformSimplifier. surf, state 'on': at most one distance comes back and it is the other "
             "root -2hb/a (nothing for planes, along-surface and axis-parallel rays). inv: 324 (1620) "
             "involutes x lattice x 25 (33) directions; rays started on the curve never report an in-plane "
             "distance below 1e-7 r_b. "
             "non-trivial = distinct (surface instance, solver regime/branch reached) pairs [surf] and "
             "distinct surface instances taken through all transforms [xform, inv]."),
    "assumptions": [
        "host build, double precision; CELER_EXPECT compiled out, so the harness honours every documented "
        "precondition itself (unit directions to 1 ulp, unit plane normals, radius/tangent > 0, involute "
        "parameter ranges, SurfaceState matches the true position)",
        "values between alphabet letters are not covered (continuous input space decided on a finite "
        "alphabet chosen from the branch structure of the code)",
        "documented behaviour is not flagged: QuadraticSolver linearises when |a| < 1e-10 and drops the far "
        "root; cylinders report nothing when 1-w^2 < 1e-10; on-surface calls assume c == 0; involute "
        "solver drops hits closer than 1e-6 r_b when on the surface (asserted: nothing below 1e-7 r_b "
        "may be reported); SurfaceSimplifier snaps within its tolerance (points closer than 16 tol x "
        "magnitude to the surface are not judged)",
        "a missed involute crossing is proven by the independent marching oracle; only its attribution "
        "to the recorded known finding uses a double-precision copy of the documented bracketing scheme "
        "(harness/c12_inv.cc documented_scheme_nearest): a crossing that the documented scheme finds but "
        "the code under test loses is reported under a different signature",
        "Transformation(SignedPermutation const&) is declared but not defined in liborange, so signed "
        "permutations reach SurfaceTransformer through explicit matrices",
        "SurfaceTransformer(Involute) is CELER_NOT_IMPLEMENTED upstream and is not called",
    ],
    "bounds": {
        "quick": {"surface_instances": 20807, "sq_family": "3^3 x 3^3 x 3", "gq_family": "3^6 x 2^3 x 3",
                  "lattice_simple": "5^3 + 6 far + 16 on + 12 near + 8 tangent", "lattice_sq": "4^3+2+8",
                  "lattice_gq": "3^3+2+6", "transforms": 128, "xform_surfaces": 3552, "involutes": 324,
                  "xform_near_rings": "2^-12, 2^-24", "make_permutation": "3 axes x 11 quarter-turn counts"},
        "thorough": {"surface_instances": 73672, "sq_family": "5^3 x 3^3 x 4", "gq_family": "3^10",
                     "lattice_simple": "7^3 + 10 far + 40 on + 24 near + 16 tangent", "lattice_sq": "5^3+6+16",
                     "lattice_gq": "4^3+4+10", "transforms": 132, "xform_surfaces": 21142,
                     "involutes": 1620, "xform_near_rings": "2^-12, 2^-24",
                     "make_permutation": "3 axes x 11 quarter-turn counts"},
    },
    "parts": [
        {"name": "surf", "harness": "c12_surfaces", "sources": _SRC, "flavour": "rel",
         "depth": {"quick": "thorough"},   # thorough bounds cost < 40 s
         "shards": {"quick": 16, "thorough": 16}, "deadline": {"quick": 120, "thorough": 1100}},
        {"name": "xform", "harness": "c12_surfaces", "sources": _SRC, "flavour": "rel",
         "depth": {"quick": "thorough"},   # thorough bounds cost < 40 s
         "shards": {"quick": 16, "thorough": 16}, "deadline": {"quick": 120, "thorough": 1100}},
        {"name": "inv", "harness": "c12_surfaces", "sources": _SRC, "flavour": "rel",
         "depth": {"quick": "thorough"},   # thorough bounds cost < 40 s
         "shards": {"quick": 16, "thorough": 16}, "deadline": {"quick": 120, "thorough": 1100}},
    ],
}

META = {
    "engine": "E4 lattice enumerator (harness/c12_surfaces.cc, c12_xform.cc, c12_inv.cc; "
              "oracle/c12_quadric.hh; problems/c12_surfaces.hh)",
    "design_ref": "DESIGN.md section 3, C12",
    "technique": "bounded-exhaustive enumeration of (surface coefficients x position x direction x surface "
                 "state) and (surface x transform x point) over finite alphabets derived from the branch "
                 "structure of the surface classes and QuadraticSolver; independent long double oracle with "
                 "an explicit rounding model evaluated on every element",
    "text": ("Every surface class's calc_sense / calc_intersections / calc_normal is called on the complete "
             "product of the alphabets and judged against the implicit function re-derived from the stored "
             "coefficients: returned distances are positive and on the surface, no clearly positive exact "
             "root precedes the nearest returned distance, calc_sense equals the sign of f off the surface "
             "and flips across each reported crossing, the normal is the unit gradient. Translating, "
             "rotating, reflecting, permuting and simplifying are checked as point-set preservation on the "
             "lattice, and the transform classes against an own matrix model. Involutes are checked for "
             "sense/intersection self-consistency with an oracle built from the documented parametrisation."),
    "note": ("Trusts: x87 long double (64-bit mantissa) as reference arithmetic; the rounding model constants "
             "(KT=64 eps, documented in the harness header); g++ -O2 without -ffast-math so that the library "
             "code is IEEE. Found on the original tree: SurfaceTranslator(SimpleQuadric) constant term "
             "(repaired, /repo ab1a0ba), SurfaceTranslator(Involute) clockwise displacement angle and "
             "InvoluteSolver missed crossings (known_findings.json; signatures "
             "involute:translated-surface-has-different-point-set / involute:missed-nearer-crossing are "
             "reserved for exactly these causes: a miss counts as the recorded one only if the documented "
             "bracketing scheme, replayed in double, loses the same crossing; otherwise "
             "involute:missed-crossing-that-documented-scheme-finds; any other involute inconsistency gets its "
             "own signature). "
             "Standalone reproduction: harness/c12_repro_defects.cc."),
}
