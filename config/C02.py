# ASan options of ./check plus a 16 MB quarantine: every evaluation builds and frees a Stepper, and
# with the default 256 MB quarantine the freed memory is never reused (measured 6x slower, half
# of it page-fault system time).  Use-after-free within the last 16 MB of frees is still caught.
_ASAN = ("halt_on_error=0:detect_leaks=0:abort_on_error=0:handle_abort=0:allocator_may_return_null=1:"
         "detect_stack_use_after_return=0:quarantine_size_mb=16")
CHECK = {
    "level": "model_checking",
    "rule": ("explicit-state BFS over the real Stepper<host> bookkeeping: transition = one Stepper "
             "call with p in {0,1,2} new primaries (max_events = 2; the two primaries of one call "
             "belong to the two different events 0 and 1 (letters i1/i2) or both to the SAME event "
             "(letter i3), the first event alternates from call to "
             "call; <= 3/4 primaries in total) and a complete outcome vector over the 11-letter "
             "alphabet {die,survive} x {0,1,2 secondaries gamma/e-} x {sub-cut} + 'unchanged' "
             "(secondaries span not rewritten) for the active tracks; states are histories replayed "
             "on a fresh Stepper and de-duplicated by canon = (per-slot status+charge class, queue "
             "of pending initializers as charge classes, alive count); EVERY child of every expanded "
             "node is evaluated (one process, worker threads; the frontier is built in enumeration "
             "order); configurations: slots {1,2,3(,4)} x initializer capacity {S,2S,16} x track "
             "order {none, init_charge, reindex_status, reindex_particle_type, reindex_shuffle}, the "
             "subset and depth per tier as listed under bounds; every "
             "transition is followed by an all-die drain to queued=alive=0 and judged by a reference "
             "ledger (std::map) built from the public step stream: ids, parents, step counts, "
             "counters, species and start point of every child against the per-parent multiset of "
             "emitted secondaries; a RuntimeError out of a Stepper call is accepted only if the "
             "ledger's count of pending initializers really exceeds the capacity (exact fit must "
             "work). non-trivial = a configuration whose search ran."),
    "assumptions": [
        "scripted physics with a huge cross-section: every active track interacts in every step "
        "(checked: interactions == step records in every call), positions stay inside the inner box "
        "(no boundary / tracking-cut deaths in this check)",
        "track/event ids are abstracted in canon; tested on the fly: the first two histories reaching "
        "a canon are both expanded and, per injection count, the SETS of their successor canons "
        "(over all outcome vectors) must be equal - a difference ends the run as a harness error "
        "unless a violation was found as well",
        "histories that really exceed the initializer capacity are cut here (they are C16's cases); "
        "the in-place rule used to count pending initializers (first surviving secondary of a dying "
        "parent takes its slot unless track order is init_charge) is the documented behaviour of "
        "LocateAlive/ProcessSecondaries",
        "depth bound per configuration as reported; 'fixpoint:<cfg>' tags mark configurations whose "
        "frontier emptied before the bound",
    ],
    "bounds": {"reset_epilogue": "every bookkeeping state reached for the first time is also abandoned: Stepper::reset_state(), slots and counters must be clean, one fresh single-primary event is transported under a new ledger",
               "quick": {"max_primaries": 3,
                         "depth": {"S1,Q1|2 (5 orders)": 5, "S1,Q16 (5 orders)": 4,
                                   "S2,Q2 (none,init_charge,reindex_status)": 4,
                                   "S2,Q4 (none,init_charge)": 2, "S3,Q3 (none)": 2}},
               "thorough": {"max_primaries": 4,
                            "depth": {"S1,Q1|2|16 (5 orders)": 6, "S2,Q2|4 (5 orders)": 6,
                                      "S2,Q16 (none,init_charge)": 3, "S2,Q16 (reindex_*)": 2,
                                      "S3,Q3 (5 orders)": 2, "S3,Q6 (none,init_charge)": 2,
                                      "S3,Q16 (none)": 2, "S4,Q8 (none)": 2}}},
    "parts": [
        {"name": "tracks", "harness": "c02_tracks", "flavour": "asan", "env": {"ASAN_OPTIONS": _ASAN},
         "shards": {"quick": 1, "thorough": 1}, "deadline": {"quick": 100, "thorough": 900}},
    ],
}
META = {
    "engine": "E2 explicit-state BFS over operation histories (harness/c02_tracks.cc) on the ASan flavour",
    "design_ref": "DESIGN.md section 3, C02",
    "technique": "explicit-state breadth-first search over the real stepping-loop bookkeeping with a "
                 "reference ledger compared on every transition; AddressSanitizer build",
    "text": ("Model checking of the track-slot / initializer state machine: every sequence of per-step "
             "outcomes up to the depth bound, from every reachable bookkeeping state (not just the "
             "initial one), for every slot count / capacity / track order of the lattice, is executed "
             "on the real Stepper and compared with a reference ledger; heap overflows in the index "
             "arithmetic are caught by ASan."),
    "note": "Trusts the scripted physics (public Process/Model API) and the recorder (StepInterface). "
            "Runs as one process with up to 16 worker threads (VERIF_THREADS overrides).",
}
