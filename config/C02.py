CHECK = {
    "level": "model_checking",
    "rule": ("explicit-state BFS over the real Stepper<host> bookkeeping: transition = one Stepper "
             "call with p in {0,1,2} new primaries (alternating event ids, <= 3/4 in total) and a "
             "complete outcome vector over the 8-letter alphabet {die,survive} x {0,1,2 secondaries} "
             "x {sub-cut} for the active tracks; states are histories replayed on a fresh Stepper and "
             "de-duplicated by canon = (per-slot status+charge class, queue of pending initializers "
             "as charge classes, alive count); configurations: slots {1,2,3(,4)} x initializer "
             "capacity {S,2S,16} x track order {none, init_charge, reindex_status, "
             "reindex_particle_type, reindex_shuffle}; every transition is followed by an all-die "
             "drain to queued=alive=0 and judged by a reference ledger (std::map) built from the "
             "public step stream. non-trivial = a configuration whose search ran."),
    "assumptions": [
        "scripted physics with a huge cross-section: every active track interacts in every step, "
        "positions stay inside the inner box (no boundary / tracking-cut deaths in this check)",
        "track/event ids are abstracted in canon; tested on the fly: the first two histories "
        "reaching a canon are both expanded (their successors enter the same seen-set)",
        "histories that exceed the initializer capacity are cut here (they are C16's cases)",
        "depth bound per configuration as reported; 'fixpoint:<cfg>' tags mark configurations whose "
        "frontier emptied before the bound",
    ],
    "bounds": {"quick": {"depth_S1": 5, "depth_S2": 3, "depth_S3": 2, "max_primaries": 3},
               "thorough": {"depth_S<=2": 6, "depth_S3": 4, "depth_S4": 3, "max_primaries": 4}},
    "parts": [
        {"name": "tracks", "harness": "c02_tracks", "flavour": "asan",
         "shards": {"quick": 16, "thorough": 16}, "deadline": {"quick": 100, "thorough": 1200}},
    ],
}
META = {
    "engine": "E2 explicit-state BFS over operation histories (harness/c02_tracks.cc) on the ASan flavour",
    "design_ref": "DESIGN.md section 3, C02",
    "technique": "explicit-state breadth-first search over the real stepping-loop bookkeeping with a "
                 "reference ledger compared on every transition; AddressSanitizer build",
    "text": ("Model checking of the track-slot / initializer state machine: every sequence of per-step "
             "outcomes up to the depth bound, from every reachable bookkeeping state (not just the "
             "initial one), for every slot count / capacity / track order of the lattice, is executed "
             "on the real Stepper and compared with a reference ledger; heap overflows in the index "
             "arithmetic are caught by ASan."),
    "note": "Trusts the scripted physics (public Process/Model API) and the recorder (StepInterface).",
}
