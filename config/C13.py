CHECK = {
    "level": "model_checking",
    "rule": ("F2-linear state space covered by a basis: the one-step map T is read off the real "
             "engine on the 160 unit states and checked linear on all pairs/triples + dense states; "
             "every stored jump polynomial (32 step + 32 subsequence, digits 1..3) is applied by the "
             "real discard/discard_subsequence/Initializer to all unit + dense states and compared "
             "with T^n computed by independent matrix powering; composite 64-bit counts; Weyl "
             "arithmetic; discard(n) vs n draws for all n<=N; ord(T)=2^160-1; reseed_rng for all "
             "(event,slots,slot) in the bound plus events 2^60+3 and floor(2^64/slots)-1 (128-bit reference "
             "index) and StreamId 1/7 == StreamId 0; the Initializer with subsequence 0 and every single-digit subsequence x "
             "4 seeds x a 64-bit offset lattice (0, 5, 2^32-1, 2^32, 2^32+5, 2^63, 2^64-1); "
             "GenerateCanonical32<float> over all 2^32 words and "
             "<double> over upper words x extreme lower words; generate_canonical<float/double>"
             "(XorwowRngEngine) with the real engine forced to yield boundary words (W,L). non-trivial = a distinct case group "
             "(polynomial index x digit, count, reseed configuration, word block) that executed."),
    "assumptions": [
        "host build, XORWOW engine (CELERITAS_CORE_RNG=xorwow)",
        "discard_subsequence is private and called with -fno-access-control; the public "
        "Initializer path is checked as well",
        "the seeding step s0(seed) (SplitMix64) is taken from the real Initializer with subsequence = "
        "offset = 0; only 'not all-zero' is demanded of it",
        "engine canonical path: double-precision build (real_type = double); the forced words are "
        "verified by drawing them from the real engine before the canonical call",
        "disjointness of streams follows from distinct subsequence indices < 2^64, segment length "
        "2^67 and full period 2^160-1 (all three checked) provided one (event,slot) draws < 2^67 "
        "numbers",
    ],
    "bounds": {"quick": {"seq_n": 4096, "reseed_events": 12, "reseed_slots": 6,
                         "double_upper_stride": 64,
                         "reseed_big_events": 5, "reseed_streams": 3, "init_subseq0": 1,
                         "init_offsets": 7, "engine_canonical_W": 10, "engine_canonical_L": 7},
               "thorough": {"seq_n": 65536, "reseed_events": 64, "reseed_slots": 16,
                            "double_upper_stride": 1,
                            "reseed_big_events": 5, "reseed_streams": 3, "init_subseq0": 1,
                            "init_offsets": 7, "engine_canonical_W": 520, "engine_canonical_L": 7}},
    "parts": [
        {"name": "rng", "harness": "c13_rng", "flavour": "rel", "cflags": ["-fno-access-control"],
         "depth": {"quick": "thorough"},   # thorough bounds cost < 40 s
         "shards": {"quick": 16, "thorough": 16}, "deadline": {"quick": 120, "thorough": 900}},
    ],
}

META = {
    "engine": "E2/E4 basis enumeration (harness/c13_rng.cc)",
    "design_ref": "DESIGN.md section 3, C13",
    "technique": "exhaustive enumeration over an F2 basis of the 160-bit state space + all 2^32 words; "
                 "explicit reference model (bit-matrix powers) compared on every transition of the real engine",
    "text": ("Model checking of the generator as a linear transition system: the real engine's one-step "
             "map is extracted on the 160 unit states and its linearity checked exhaustively on pairs/"
             "triples; every stored jump polynomial and the reseeding index arithmetic are compared with "
             "independent matrix powers on every basis state, which by linearity covers all 2^160-1 "
             "states; all 2^32 float canonicals are enumerated. This is a complete decision for the jump "
             "tables and the float range, and a bounded one for composite counts / reseed triples."),
    "note": ("Trusts: linearity argument (checked, not proved, on pairs/triples/dense states); g++ "
             "-fno-access-control to reach the private subsequence skip; factorisation of 2^160-1 is "
             "re-verified by multiplication and trial division inside the harness."),
}
