CHECK = {
    "level": "model_checking",
    "rule": ("part rays: zoo of geometries (orangeinp-built nested/rotated/reflected/non-convex + "
             "bundled .org.json without involutes, incl. hex-array) x {start lattice n^3 x 26 lattice "
             "+ 6/12 irrational directions; one oracle-placed start inside every distinct oracle "
             "volume chain (every volume of every nested universe instance found by a 17^3/25^3 scan "
             "+ per-universe critical-coordinate grids) x 6/25 directions}; each ray traced with "
             "find_next_step/move_to_boundary/cross_boundary to the world exit (position after "
             "move_to_boundary = start + distance x direction and on a surface); plus an "
             "initialise-only lattice 15^3/25^3 (volume chain + per-level positions vs the oracle). "
             "part ops: explicit-state depth-bounded search over operation histories {find, "
             "find(max) x2, move_internal(dist) x3, move_internal(pos), move_to_boundary, "
             "cross_boundary, set_dir x (reverse + 10/14 global directions + on surfaces of a nested "
             "level 8/16 directions 3(/12) degrees off the tangent plane of the ORACLE's normal)} "
             "restricted to the documented call order, <= 2 direction changes per history, with "
             "snapshot/restore of the real navigation state and sharing of identical states; roots = "
             "the oracle-placed chain representatives (<= 10 per geometry in quick) x 1/2 directions + "
             "start lattice 2^3/3^3 x 3/2 directions, visited round-robin over the geometries; a "
             "state whose position an internal move put within 10 tol of a surface is not expanded; at "
             "every new state the used slot is re-initialised at the root and must reproduce the root "
             "state. Oracle = point location from the OrangeInput definition (long double surfaces, "
             "own RPN logic, own daughter/transform/array descent). non-trivial = ray with >= 2 "
             "crossings and a distinct volume sequence / a distinct search root."),
    "assumptions": [
        "oracle makes no claim within 10 tol of a surface; probes 100 tol off a crossing: "
        "displacements below ~1.5e-6 x scale are not detected (property allows the tolerance)",
        "no-skipped-boundary is decided at a 16-point subdivision of each segment",
        "geometries with involute surfaces are not judged (oracle does not implement them)",
        "set_dir directions exactly tangent to the surface the track sits on are not explored (the "
        "alphabet is tilted off the axes); near-tangent ones (1-3 degrees) are",
        "a re-entrant {0, boundary} answer after a completed crossing may only be followed by "
        "set_dir (FieldPropagator's use); histories outside the documented call order are not "
        "explored",
        "find_next_step(max) with max == distance: either truncation is accepted",
        "volumes the oracle scan does not find (thinner than the scan lattice and not delimited by "
        "axis-aligned/centred surfaces of their own universe) get no root of their own",
    ],
    "bounds": {"zoo_added": "g6 (volumes of the form A & (B | C): ball caps, framed bars), g7 (x- and y-aligned cylinders and cones: surface types cx, cy, cxc, cyc, kx, ky) and rectangular arrays with unequal cell counts 5x2x1, 2x5x1, 1x2x6 (cells 1 x 0.75 x 1.25 with a ball inside; 2x5x1 and 1x2x6 with grid origin (-1.5, 0.25, -2) and alternating cell widths w, 1.5 w); part ops also visits g6, g7 and ra2x5x1",
               "not_covered": "rays exactly through edges / corners (exact distance ties): the dyadic-start x exact-diagonal family is opt-in only (VERIF_C03_DYADIC=1), see harness comment",
               "quick": {"ray_lattice": 4, "init_lattice": 15, "scan_lattice": 17, "ops_depth": 6,
                         "ops_setdir": 2, "ops_node_cap": 400000, "ops_chain_roots_per_geometry": 10},
               "thorough": {"ray_lattice": 7, "init_lattice": 25, "scan_lattice": 25, "ops_depth": 7,
                            "ops_setdir": 2, "ops_node_cap": 3000000,
                            "ops_chain_roots_per_geometry": "all"}},
    "parts": [
        {"name": "rays", "harness": "c03_nav", "flavour": "rel",
         "depth": {"quick": "thorough"},   # thorough bounds cost ~60 s
         "shards": {"quick": 16, "thorough": 16}, "deadline": {"quick": 100, "thorough": 900}},
        {"name": "ops", "harness": "c03_nav", "flavour": "rel",
         "depth": {"quick": "thorough"},   # thorough bounds cost ~60 s
         "shards": {"quick": 16, "thorough": 16}, "deadline": {"quick": 100, "thorough": 1200}},
    ],
}

META = {
    "engine": "E2 explicit-state search + E4 lattice (harness/c03_nav.cc, oracle/geo_oracle.hh)",
    "design_ref": "DESIGN.md section 3, C03",
    "technique": "explicit-state bounded search over navigation operation histories on the real "
                 "OrangeTrackView + exhaustive ray lattice, judged by an independent point-location "
                 "reference model",
    "text": ("Model checking of the navigator as a transition system: every history of the "
             "documented operations up to the depth bound (with state sharing) from every start of "
             "the lattice is executed on the real code and every transition is compared with an "
             "independent reference model (point location from the geometry definition). This "
             "reaches non-initial states (on-boundary at nested levels, after direction changes) "
             "that the unit tests only script by hand."),
    "note": ("Trusts the oracle (own surface equations / logic / transforms, cross-validated by "
             "agreeing with the navigator on millions of points); claims hold at the probe "
             "resolution and for the geometry zoo, start lattice and direction alphabet listed."),
}
