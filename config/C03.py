CHECK = {
    "level": "model_checking",
    "rule": ("part rays: zoo of geometries (orangeinp-built nested/rotated/reflected/non-convex + "
             "bundled .org.json without involutes) x start lattice n^3 (points the oracle cannot "
             "locate unambiguously or outside the world dropped) x 26 lattice + irrational "
             "directions; each ray traced with find_next_step/move_to_boundary/cross_boundary to "
             "the world exit. part ops: explicit-state depth-bounded search over operation "
             "histories {find, find(max) x2, move_internal(dist) x3, move_internal(pos), "
             "move_to_boundary, cross_boundary, set_dir x (reverse + 10/14 global directions)} "
             "restricted to the documented call order, <= 2 direction changes per history, with "
             "snapshot/restore of the real navigation state and sharing of identical states. "
             "Oracle = point location from the OrangeInput definition (long double surfaces, own "
             "RPN logic, own daughter/transform/array descent). non-trivial = ray with >= 2 "
             "crossings and a distinct volume sequence / a distinct search root."),
    "assumptions": [
        "oracle makes no claim within 10 tol of a surface; probes 100 tol off a crossing: "
        "displacements below ~1.5e-6 x scale are not detected (property allows the tolerance)",
        "no-skipped-boundary is decided at a 16-point subdivision of each segment",
        "geometries with involute surfaces are not judged (oracle does not implement them)",
        "set_dir directions exactly tangent to the surface the track sits on are not explored (the "
        "alphabet is tilted off the axes); near-tangent ones are",
        "a re-entrant {0, boundary} answer after a completed crossing may only be followed by "
        "set_dir (FieldPropagator's use); histories outside the documented call order are not "
        "explored",
    ],
    "bounds": {"quick": {"ray_lattice": 4, "ops_depth": 6, "ops_setdir": 2, "ops_node_cap": 400000},
               "thorough": {"ray_lattice": 7, "ops_depth": 7, "ops_setdir": 2,
                            "ops_node_cap": 3000000}},
    "parts": [
        {"name": "rays", "harness": "c03_nav", "flavour": "rel",
         "shards": {"quick": 16, "thorough": 16}, "deadline": {"quick": 100, "thorough": 900}},
        {"name": "ops", "harness": "c03_nav", "flavour": "rel",
         "shards": {"quick": 16, "thorough": 16}, "deadline": {"quick": 100, "thorough": 1200}},
    ],
}

META = {
    "engine": "E2 explicit-state search + E4 lattice (harness/c03_nav.cc, oracle/geo_oracle.hh)",
    "design_ref": "DESIGN.md section 3, C03",
    "technique": "explicit-state bounded search over navigation operation histories on the real "
                 "OrangeTrackView + exhaustive ray lattice, judged by an independent point-location "
                 "reference model",
    "text": ("Model checking of the navigator as a transition system: every history of the "
             "documented operations up to the depth bound (with state sharing) from every start of "
             "the lattice is executed on the real code and every transition is compared with an "
             "independent reference model (point location from the geometry definition). This "
             "reaches non-initial states (on-boundary at nested levels, after direction changes) "
             "that the unit tests only script by hand."),
    "note": ("Trusts the oracle (own surface equations / logic / transforms, cross-validated by "
             "agreeing with the navigator on millions of points); claims hold at the probe "
             "resolution and for the geometry zoo, start lattice and direction alphabet listed."),
}
