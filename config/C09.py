CHECK = {
    "level": "exploration",
    "rule": ("E4 over object trees (problems/solid_programs.hh). Leaves (50): box, sphere, cylinder, "
             "cone (truncated, pointed, nearly cylindrical), ellipsoid (generic, two equal radii, "
             "sphere-like), prism 3/4/5/6 sides, GenPrism (trd, trap, clockwise 5-gon, twisted, "
             "pyramid / roof / inverted pyramid), parallelepiped (4 angle sets), infinite wedge, "
             "hollow and sliced Solids (angle <, =, > half turn, negative start), polycones "
             "(2 segments, hollow, sliced, stacked with zero-height segment, pointed, or_solid "
             "single-segment), polyprisms.  Programs: u = leaf x 10 transforms (none, translation, "
             "quarter turns about x/y/z with and without translation, reflection, generic "
             "rotation+translation, sub-tolerance rotation) x {plain, negated} x 5 placements "
             "(global unit: implicit box boundary + background / explicit box boundary with the "
             "complement as a material / sphere boundary + background; daughter unit with explicit "
             "or implicit boundary placed under 7 transforms);  b = all ordered leaf pairs x "
             "{union, intersection, subtraction} x transform of the 2nd operand (on the third of the pairs "
             "with (a+2b)%3==0 the 1st operand sits under rz = quarter turn about z + translation; "
             "likewise p for (a+2b)%3==1 and t for (a+2b+c)%3==2);  c = two "
             "differently placed copies of a leaf x 3 operations;  n = near-coincident copies "
             "(sub-tolerance translation / rotation nested inside each transform) x 3 operations;  "
             "p = partition {A&B, A-B, B-A} of a pair as three materials of one unit;  t (thorough) "
             "= depth-3 trees over 12 leaves.  EXTENSION: 5 GenPrism leaves with coincident consecutive "
             "end-face vertices (kind u, and kind b with 3 partners); kind c under a mirror pair of "
             "tilts (general quadrics differing only in cross terms); a second construction tolerance "
             "Tolerance::from_relative(1e-6, 100) (abs 1e-4 != rel 1e-6) for u (implicit/explicit "
             "global unit), c and n; f = two copies of a leaf at |t|~50 displaced by 4e-3 / 8e-3, both "
             "tolerances, with directed probes inside the thin one-copy-only regions (boundary "
             "crossings of the first copy located by oracle bisection along the displacement, probed "
             "at +-1/2 and +-3/2 displacement); placements selfW / selfD = units made of a boundary "
             "(the solid itself) and a background only, as global unit and as daughter under 7 "
             "transforms; h = 4 universes, depth 3, one proto placed twice, deep daughter listed "
             "last / first.  Each program is built by UnitProto -> InputBuilder "
             "-> OrangeParams and probed on a 9^3 lattice over the world box (x1.08) + a 9^3 "
             "lattice over the box around the materials shifted by irrational fractions of its "
             "spacing; the volume label reported by OrangeTrackView initialisation must equal the "
             "one that follows from the analytic definitions (oracle/solids.hh) for every point "
             "farther than 10*max(tol.abs, tol.rel*L) from every constituent surface.  evaluations = "
             "compared probe points; non-trivial = a program whose compared probes fall into >= 2 "
             "different expected regions besides 'outside'.  Parameter values other than the "
             "enumerated ones and points between lattice points are not covered."),
    "assumptions": [
        "host build, ORANGE geometry, double precision; construction tolerances: the default "
        "(rel = abs = 1.5e-8) everywhere, and Tolerance::from_relative(1e-6, 100) for the families "
        "marked tol=1",
        "a global unit whose boundary is the solid itself (selfW) may be refused by UnitProto with "
        "'global boundary must be finite' (documented validation; e.g. solids with more than half a "
        "turn removed): counted, not a violation",
        "two copies of a solid whose surfaces are 40 x tol.abs and 80 x tol.rel*|position| apart are "
        "different surfaces (SoftEqual's documented comparison |a-b| < max(rel*max(|a|,|b|), abs))",
        "the Parallelepiped leaves with the recorded defect are left out of the selfW/selfD/h "
        "families (there the defect would surface without leaf attribution)",
        "oracle = documented definitions of IntersectRegion.hh / Solid.hh / PolySolid.hh / "
        "Transformed.hh / CsgObject.hh / UnitProto.hh (G4Para / G4GenericTrap conventions for "
        "Parallelepiped / GenPrism as the headers state)",
        "points within 10x the construction tolerance of any constituent surface (including "
        "extended faces and surfaces internal to a union) carry no claim",
        "generated models are valid: materials of a unit are disjoint by construction and lie "
        "inside the unit's boundary (checked: an overlap or hole in the model is a harness error)",
        "Involute is out of scope (no closed-form oracle); GenPrism::from_trap only with equal "
        "x half-lengths per face (its hx_lo/hx_hi comment is ambiguous)",
    ],
    "bounds": {"quick": {"leaves": "50 base + 5 extended", "probes_per_program": "1458 (+729 per extra content box in h, + directed probes in f)", "depth": 2,
                         "tolerances": 2, "hierarchy": "4 universes, depth 3, b in {sph1, pc1}, A under tr",
                         "far_copies": "4 transform pairs at tol=1, the two 4e-3 pairs at the default tolerance",
                         "self_daughter_transforms": "alternating half of 7 (parity with transform, polarity and leaf index)",
                         "near_coincident_tol1_transforms": "id, tr, gen",
                         "unary_daughter_transforms": "alternating half of 7 (parity with transform, polarity and leaf index)",
                         "binary_operand_transforms": "tr, gen, (a+b)%10 of 11",
                         "copies_transform_pairs": 5, "partition_operand_transforms": 1},
               "thorough": {"leaves": "50 base + 5 extended", "probes_per_program": "1458 (+729 per extra content box in h, + directed probes in f)", "depth": 3, "depth3_leaves": 12,
                            "tolerances": 2, "hierarchy": "4 universes, depth 3, b in {sph1, pc1, box1, cylsh}, A under tr and rx",
                            "far_copies": "4 transform pairs under both tolerances",
                            "self_daughter_transforms": 7, "near_coincident_tol1_transforms": 10,
                            "unary_daughter_transforms": 7, "binary_operand_transforms": 11,
                            "copies_transform_pairs": 72, "partition_operand_transforms": 10,
                            "binary_placements": "implicit world / explicit daughter alternating"}},
    "parts": [
        {"name": "solids", "harness": "c09_solids", "flavour": "rel",
         "env": {"CELER_LOG_LOCAL": "critical"},
         "depth": {"quick": "thorough"},   # thorough bounds cost < 40 s
         "shards": {"quick": 16, "thorough": 16}, "deadline": {"quick": 150, "thorough": 1200}},
    ],
}

META = {
    "engine": "E4 lattice enumerator over object trees (harness/c09_solids.cc, problems/solid_programs.hh)",
    "design_ref": "DESIGN.md section 3, C09",
    "technique": "bounded-exhaustive enumeration of construction programs (leaf x transform x negation x "
                 "placement, all ordered pairs x boolean operation) through the real construction pipeline, "
                 "point-membership compared with independent analytic predicates on a fixed probe lattice",
    "text": ("Every program of a finite, explicitly enumerated space of user models is pushed through "
             "UnitProto -> InputBuilder -> OrangeParams and the runtime point location is compared with "
             "analytic membership functions written from the documented shape definitions, at 1458 fixed "
             "probe points per program.  This decides the property for the enumerated parameter values "
             "and probe points; it is a small-scope argument for the continuous parameter space."),
    "note": ("Trusts: the analytic predicates (long double, independent of the construction code); the "
             "clearance lower bounds used to skip near-surface points; the lattice resolution (features "
             "thinner than the lattice spacing are only hit by chance)."),
}
