// Hand-written OrangeInput families for C19 (included from problems/c19_programs.hh)
#pragma once

namespace c19
{
namespace hw
{
//---------------------------------------------------------------------------//
inline std::vector<logic_int> parse_logic(char const* s)
{
    // own tiny tokenizer (independent of detail::string_to_logic)
    std::vector<logic_int> r;
    for (char const* p = s; *p;)
    {
        if (*p == ' ')
        {
            ++p;
            continue;
        }
        if (*p >= '0' && *p <= '9')
        {
            logic_int v = 0;
            while (*p >= '0' && *p <= '9')
                v = 10 * v + (*p++ - '0');
            r.push_back(v);
            continue;
        }
        switch (*p++)
        {
            case '*': r.push_back(logic::ltrue); break;
            case '|': r.push_back(logic::lor); break;
            case '&': r.push_back(logic::land); break;
            case '~': r.push_back(logic::lnot); break;
            default: abort();
        }
    }
    return r;
}

inline std::vector<LocalSurfaceId> ids(std::initializer_list<unsigned> l)
{
    std::vector<LocalSurfaceId> r;
    for (unsigned i : l)
        r.emplace_back(i);
    return r;
}

inline VolumeInput nowhere_exterior()
{
    // as written by the SCALE exporter for non-global units (see rect-array.org.json)
    VolumeInput v;
    v.label = Label{"[EXTERIOR]"};
    v.logic = {logic::ltrue, logic::lnot};
    v.flags = VolumeRecord::implicit_vol;
    v.zorder = ZOrder::implicit_exterior;
    v.bbox = BBox::from_infinite();
    return v;
}

//---------------------------------------------------------------------------//
// FAMILY row: every surface type
//---------------------------------------------------------------------------//
constexpr int num_surface_types = 18;
constexpr int num_row_variants = 4;

inline OrangeInput build_row(int variant, int bbkind, int tol_i, bool with_inv)
{
    constexpr double inf = std::numeric_limits<double>::infinity();
    double const L = variant == 2 ? 3.141592653589793e-3 : variant == 3 ? 1.0e4 / 3.0 : 1.0;
    double const a = L * (variant == 1 ? 1.0471975511965976 : 1.0);
    double const q = variant == 0 ? 1.0 : 1.0 / 3.0;
    int const N = with_inv ? num_surface_types : num_surface_types - 1;

    UnitInput u;
    u.label = variant % 2 ? Label{"row", "unit"} : Label{"row"};
    auto addsurf = [&u](VariantSurface s, Label l) {
        u.surfaces.push_back(std::move(s));
        u.surface_labels.push_back(std::move(l));
        return unsigned(u.surfaces.size() - 1);
    };
    // slab planes 0..N
    for (int i = 0; i <= N; ++i)
        addsurf(PlaneX((4.0 * i - 2.0 * N) * L), Label{fmt("slab%d", i), "px"});
    unsigned const ylo = addsurf(PlaneY(-3 * L), Label{"ylo"});
    unsigned const yhi = addsurf(PlaneY(3 * L), Label{"yhi"});
    unsigned const zlo = addsurf(PlaneZ(-3 * L), Label{"zlo"});
    unsigned const zhi = addsurf(PlaneZ(3 * L), Label{"zhi"});

    double const xmin = -2.0 * N * L, xmax = 2.0 * N * L;
    u.bbox = BBox{{xmin, -3 * L, -3 * L}, {xmax, 3 * L, 3 * L}};

    // exterior
    {
        VolumeInput v;
        v.label = Label{"[EXTERIOR]", "row"};
        v.faces = ids({0u, unsigned(N), ylo, yhi, zlo, zhi});
        v.logic = parse_logic("0 1 ~ & 2 & 3 ~ & 4 & 5 ~ & ~");
        v.flags = VolumeRecord::internal_surfaces;
        v.zorder = ZOrder::exterior;
        v.bbox = BBox::from_infinite();
        u.volumes.push_back(v);
    }

    for (int t = 0; t < N; ++t)
    {
        double const cx = (4.0 * t - 2.0 * N + 2.0) * L;
        Real3 const C{cx + 0.1 * q * a, -0.07 * q * a, 0.05 * q * a};
        double const rbig = std::fabs(cx) + 0.3 * a;
        VariantSurface s{PlaneX(0.0)};
        switch (static_cast<SurfaceType>(t))
        {
            case SurfaceType::px: s = PlaneX(C[0]); break;
            case SurfaceType::py: s = PlaneY(C[1]); break;
            case SurfaceType::pz: s = PlaneZ(C[2]); break;
            case SurfaceType::cxc: s = CCylX(1.1 * a); break;
            case SurfaceType::cyc: s = CCylY(rbig); break;
            case SurfaceType::czc: s = CCylZ(rbig); break;
            case SurfaceType::sc: s = SphereCentered(rbig); break;
            case SurfaceType::cx: s = CylX(C, 1.1 * a); break;
            case SurfaceType::cy: s = CylY(C, 1.1 * a); break;
            case SurfaceType::cz: s = CylZ(C, 1.1 * a); break;
            case SurfaceType::p:
                s = Plane(make_unit_vector(Real3{1, 2, 3}), C);
                break;
            case SurfaceType::s: s = Sphere(C, 1.3 * a); break;
            case SurfaceType::kx: s = ConeX(C, 0.5 * q + 0.25); break;
            case SurfaceType::ky: s = ConeY(C, 0.5 * q + 0.25); break;
            case SurfaceType::kz: s = ConeZ(C, 0.5 * q + 0.25); break;
            case SurfaceType::sq: {
                Real3 abc{1 / (1.21 * a * a), 1 / (2.25 * a * a), 1 / (0.64 * a * a)};
                Real3 def{-2 * abc[0] * C[0], -2 * abc[1] * C[1], -2 * abc[2] * C[2]};
                double g = abc[0] * C[0] * C[0] + abc[1] * C[1] * C[1] + abc[2] * C[2] * C[2] - 1;
                s = SimpleQuadric(abc, def, g);
                break;
            }
            case SurfaceType::gq: {
                double M[3][3] = {{1.0, 0.1, -0.075}, {0.1, 1.5, 0.05}, {-0.075, 0.05, 2.0}};
                for (auto& row : M)
                    for (double& m : row)
                        m /= (a * a);
                Real3 MC{0, 0, 0};
                double cmc = 0;
                for (int i = 0; i < 3; ++i)
                {
                    for (int j = 0; j < 3; ++j)
                        MC[i] += M[i][j] * C[j];
                    cmc += C[i] * MC[i];
                }
                s = GeneralQuadric(Real3{M[0][0], M[1][1], M[2][2]},
                                   Real3{2 * M[0][1], 2 * M[1][2], 2 * M[0][2]},
                                   Real3{-2 * MC[0], -2 * MC[1], -2 * MC[2]},
                                   cmc - 1);
                break;
            }
            case SurfaceType::inv:
                s = Involute(Involute::Real2{C[0], C[1]}, 1.0 * a, 0.5 * q,
                             variant % 2 ? Chirality::right : Chirality::left, 0.25 * q,
                             0.25 * q + 3.0);
                break;
            default: abort();
        }
        unsigned const sid = addsurf(
            s, (t % 3) ? Label{fmt("split_%s", to_cstring(static_cast<SurfaceType>(t))), "s"}
                       : Label{fmt("split_%s", to_cstring(static_cast<SurfaceType>(t)))});

        for (int side = 0; side < 2; ++side)
        {
            VolumeInput v;
            v.label = side ? Label{fmt("out_%s", to_cstring(static_cast<SurfaceType>(t))), "row"}
                           : Label{fmt("in_%s", to_cstring(static_cast<SurfaceType>(t)))};
            v.faces = ids({unsigned(t), unsigned(t + 1), ylo, yhi, zlo, zhi, sid});
            v.logic = parse_logic(side ? "0 1 ~ & 2 & 3 ~ & 4 & 5 ~ & 6 &"
                                       : "0 1 ~ & 2 & 3 ~ & 4 & 5 ~ & 6 ~ &");
            v.zorder = ZOrder::media;
            double const x0 = (4.0 * t - 2.0 * N) * L, x1 = x0 + 4.0 * L;
            switch (bbkind)
            {
                case 0: v.bbox = BBox::from_infinite(); break;
                case 1: v.bbox = BBox{{x0, -3 * L, -3 * L}, {x1, 3 * L, 3 * L}}; break;
                default: v.bbox = BBox{{x0, -inf, -3 * L}, {x1, inf, inf}}; break;
            }
            u.volumes.push_back(v);
        }
    }

    OrangeInput in;
    in.universes.push_back(std::move(u));
    in.tol = tol_i == 0 ? Tolerance<>::from_default(L)
                        : Tolerance<>::from_relative(1e-6 / 3, L);
    return in;
}

//---------------------------------------------------------------------------//
// FAMILY arr: rectangular arrays
//---------------------------------------------------------------------------//
inline UnitInput child_unit(int kind, double half)
{
    UnitInput u;
    u.bbox = BBox{{-half, -half, -half}, {half, half, half}};
    u.volumes.push_back(nowhere_exterior());
    if (kind == 2)
    {
        u.label = Label{"C"};
        VolumeInput v;
        v.label = Label{"Cfill"};
        v.logic = {logic::ltrue};
        v.bbox = BBox::from_infinite();  // placed with arbitrary offsets inside array cells
        v.zorder = ZOrder::media;
        u.volumes.push_back(v);
        return u;
    }
    if (kind == 0)
    {
        u.label = Label{"S", "child"};
        u.surfaces.push_back(SphereCentered(0.4));
        u.surface_labels.push_back(Label{"S.sph", "sc"});
    }
    else
    {
        u.label = Label{"Z"};
        u.surfaces.push_back(CCylZ(0.3));
        u.surface_labels.push_back(Label{"Z.cyl"});
    }
    VolumeInput in;
    in.label = Label{kind == 0 ? "Sin" : "Zin"};
    in.faces = ids({0u});
    in.logic = parse_logic("0 ~");
    in.zorder = ZOrder::media;
    in.bbox = kind == 0 ? BBox{{-0.4, -0.4, -0.4}, {0.4, 0.4, 0.4}}
                        : BBox{{-0.3, -0.3, -std::numeric_limits<double>::infinity()},
                               {0.3, 0.3, std::numeric_limits<double>::infinity()}};
    u.volumes.push_back(in);
    VolumeInput outv;
    outv.label = Label{kind == 0 ? "Sout" : "Zout", "o"};
    outv.faces = ids({0u});
    outv.logic = parse_logic("0");
    outv.zorder = ZOrder::media;
    outv.bbox = BBox::from_infinite();
    u.volumes.push_back(outv);
    return u;
}

inline OrangeInput build_array(int nx, int ny, int nz, int mode)
{
    double const wx[] = {1.5, 2.25, 3.0}, wy[] = {2.0, 1.25, 2.5}, wz[] = {1.0, 3.5, 2.0};
    RectArrayInput arr;
    arr.label = Label{"lattice", "arr"};
    auto mkgrid = [](int n, double const* w) {
        std::vector<double> g{0.0};
        for (int i = 0; i < n; ++i)
            g.push_back(g.back() + w[i] + (i ? 1.0 / 3.0 : 0.0));
        return g;
    };
    arr.grid[0] = mkgrid(nx, wx);
    arr.grid[1] = mkgrid(ny, wy);
    arr.grid[2] = mkgrid(nz, wz);
    Real3 const tot{arr.grid[0].back(), arr.grid[1].back(), arr.grid[2].back()};
    Real3 const T0{-tot[0] / 2 + 0.1, -tot[1] / 2, -tot[2] / 2 - 0.2};

    // universe numbering
    size_t next = 1;
    size_t const u_mid = mode == 1 ? next++ : 0;
    size_t const u_arr = next++;
    size_t const u_child = next;
    next += 3;
    size_t const u_nestunit = mode == 2 ? next++ : 0;
    size_t const u_nestarr = mode == 2 ? next++ : 0;

    // global unit
    UnitInput g;
    g.label = Label{"global"};
    Real3 lo = T0, hi = T0 + tot;
    for (int ax = 0; ax < 3; ++ax)
    {
        // outer box then array box, per axis: indices 2ax,2ax+1 and 6+2ax,6+2ax+1
    }
    auto plane = [](int ax, double p) -> VariantSurface {
        return ax == 0 ? VariantSurface{PlaneX(p)}
               : ax == 1 ? VariantSurface{PlaneY(p)}
                         : VariantSurface{PlaneZ(p)};
    };
    for (int ax = 0; ax < 3; ++ax)
    {
        g.surfaces.push_back(plane(ax, lo[ax] - 2.0));
        g.surfaces.push_back(plane(ax, hi[ax] + 2.0));
        g.surface_labels.push_back(Label{fmt("outer.m%c", "xyz"[ax])});
        g.surface_labels.push_back(Label{fmt("outer.p%c", "xyz"[ax])});
    }
    for (int ax = 0; ax < 3; ++ax)
    {
        g.surfaces.push_back(plane(ax, lo[ax]));
        g.surfaces.push_back(plane(ax, hi[ax]));
        g.surface_labels.push_back(Label{fmt("arrfill.m%c", "xyz"[ax]), "a"});
        g.surface_labels.push_back(Label{fmt("arrfill.p%c", "xyz"[ax]), "a"});
    }
    g.bbox = BBox{{lo[0] - 2, lo[1] - 2, lo[2] - 2}, {hi[0] + 2, hi[1] + 2, hi[2] + 2}};
    {
        VolumeInput v;
        v.label = Label{"[EXTERIOR]"};
        v.faces = ids({0, 1, 2, 3, 4, 5});
        v.logic = parse_logic("0 1 ~ & 2 & 3 ~ & 4 & 5 ~ & ~");
        v.flags = VolumeRecord::internal_surfaces;
        v.zorder = ZOrder::media;
        v.bbox = BBox::from_infinite();
        g.volumes.push_back(v);
    }
    {
        VolumeInput v;
        v.label = Label{"arrfill"};
        v.faces = ids({6, 7, 8, 9, 10, 11});
        v.logic = parse_logic("0 1 ~ & 2 & 3 ~ & 4 & 5 ~ &");
        v.zorder = mode == 1 ? ZOrder::media : ZOrder::array;
        v.bbox = BBox{lo, hi};
        g.volumes.push_back(v);
    }
    {
        VolumeInput v;
        v.label = Label{"interior", "g"};
        v.faces = ids({0, 1, 2, 3, 4, 5, 6, 7, 8, 9, 10, 11});
        v.logic = parse_logic(
            "0 1 ~ & 2 & 3 ~ & 4 & 5 ~ & 6 7 ~ & 8 & 9 ~ & 10 & 11 ~ & ~ &");
        v.flags = VolumeRecord::internal_surfaces;
        v.zorder = ZOrder::media;
        v.bbox = g.bbox;
        g.volumes.push_back(v);
    }
    if (mode == 1)
        g.daughter_map.emplace(LocalVolumeId{1},
                               DaughterInput{UniverseId(u_mid), NoTransformation{}});
    else
        g.daughter_map.emplace(LocalVolumeId{1}, DaughterInput{UniverseId(u_arr), Translation{T0}});

    OrangeInput in;
    in.universes.push_back(std::move(g));

    if (mode == 1)
    {
        UnitInput m;
        m.label = Label{"arr"};
        m.bbox = BBox{lo, hi};
        m.volumes.push_back(nowhere_exterior());
        VolumeInput v;
        v.label = Label{"arr+"};
        v.logic = {logic::ltrue};
        v.zorder = ZOrder::array;
        v.bbox = m.bbox;
        m.volumes.push_back(v);
        m.daughter_map.emplace(LocalVolumeId{1}, DaughterInput{UniverseId(u_arr), Translation{T0}});
        in.universes.push_back(std::move(m));
    }

    // array cells, index (i*ny + j)*nz + k
    for (int i = 0; i < nx; ++i)
        for (int j = 0; j < ny; ++j)
            for (int k = 0; k < nz; ++k)
            {
                DaughterInput d;
                int const kind = (i + 2 * j + 3 * k) % 3;
                d.universe_id = UniverseId(u_child + kind);
                if (kind == 2)
                {
                    // fills everything: origin irrelevant; exercises both zero forms and
                    // translations that are tiny but NOT zero (must stay Translations)
                    if (i + j + k == 3)
                        d.transform = Translation{{i == 0 ? 1e-12 : 0.0, j == 2 ? -5e-324 : 0.0,
                                                   k == 0 ? 1e-300 : -0.0}};
                    else if ((i + j + k) % 2 == 0)
                        d.transform = Translation{{0, 0, 0}};
                    else
                        d.transform = NoTransformation{};
                }
                else
                {
                    d.transform = Translation{{(arr.grid[0][i] + arr.grid[0][i + 1]) / 2,
                                               (arr.grid[1][j] + arr.grid[1][j + 1]) / 2,
                                               (arr.grid[2][k] + arr.grid[2][k + 1]) / 2}};
                }
                if (mode == 2 && i == 0 && j == 0 && k == 0)
                {
                    d.universe_id = UniverseId(u_nestunit);
                    d.transform = Translation{{arr.grid[0][1] / 2, arr.grid[1][1] / 2,
                                               arr.grid[2][1] / 2}};
                }
                arr.daughters.push_back(d);
            }
    in.universes.push_back(std::move(arr));
    for (int kind = 0; kind < 3; ++kind)
        in.universes.push_back(child_unit(kind, 2.0));

    if (mode == 2)
    {
        UnitInput n;
        n.label = Label{"nest"};
        n.bbox = BBox{{-1, -1, -1}, {1, 1, 1}};
        n.volumes.push_back(nowhere_exterior());
        VolumeInput v;
        v.label = Label{"nest+"};
        v.logic = {logic::ltrue};
        v.zorder = ZOrder::array;
        v.bbox = n.bbox;
        n.volumes.push_back(v);
        n.daughter_map.emplace(
            LocalVolumeId{1},
            DaughterInput{UniverseId(u_nestarr), Translation{{-0.75, -1.0, -0.5}}});
        in.universes.push_back(std::move(n));

        RectArrayInput a2;
        a2.label = Label{"inner-lattice"};
        a2.grid[0] = {0.0, 0.75, 1.5};
        a2.grid[1] = {0.0, 2.0};
        a2.grid[2] = {0.0, 1.0};
        a2.daughters.push_back({UniverseId(u_child + 0), Translation{{0.375, 1.0, 0.5}}});
        a2.daughters.push_back({UniverseId(u_child + 1), Translation{{1.125, 1.0, 0.5}}});
        in.universes.push_back(std::move(a2));
    }
    in.tol = Tolerance<>::from_default();
    return in;
}

//---------------------------------------------------------------------------//
// FAMILY lat: VolumeInput field lattice (structure only)
//---------------------------------------------------------------------------//
inline std::vector<Label> label_alphabet()
{
    // '@' is Label's reserved separator and is not used inside names/extensions
    return {Label{"plain"},
            Label{"with", "ext"},
            Label{"", "onlyext"},
            Label{"sp ace", "e x"},
            Label{"quote\"back\\slash", "tab\t"},
            Label{"unicode-\xc2\xb5-\xe5\x90\x8d", "\xc3\xbc"},
            Label{"[EXTERIOR]", "u"},
            Label{"a.b/c:d+e", "0x7f3a"},
            Label{""}};
}

constexpr ZOrder zorder_alphabet[] = {ZOrder::background, ZOrder::media, ZOrder::array,
                                      ZOrder::hole, ZOrder::implicit_exterior, ZOrder::exterior};

inline BBox bbox_of_kind(int k)
{
    constexpr double inf = std::numeric_limits<double>::infinity();
    switch (k)
    {
        case 0: return BBox::from_infinite();
        case 1: return BBox{{-1.0 / 3, -0.1, -2.5}, {0.7, 1e-7, 123456.789}};
        case 2: return BBox{{-inf, -0.1, -inf}, {0.7, inf, 2.0}};
        // half spaces: an all-infinite lower (upper) corner with one finite coordinate on the other
        // side; a writer that compares only one corner with from_infinite() drops these
        case 4: return BBox{{-inf, -inf, -inf}, {inf, inf, 2.0}};
        case 5: return BBox{{0.0, -inf, -inf}, {inf, inf, inf}};
        default: return BBox{};
    }
}

constexpr int num_bbox_kinds = 6;  // bbox_of_kind: 0 infinite, 1 finite, 2 mixed, 3 null, 4/5 half spaces

//! Unit-level bounding box kinds: finite, unbounded along one axis (slab / infinite cylinder
//! universe), half space, infinite (the writer omits it, absent reads back as infinite)
constexpr int num_unit_bbox_kinds = 4;
inline BBox unit_bbox_of_kind(int k)
{
    constexpr double inf = std::numeric_limits<double>::infinity();
    switch (k)
    {
        case 0: return BBox{{-100, -1, -1}, {100, 1, 1}};
        case 1: return BBox{{-inf, -1, -1}, {inf, 1, 1}};
        case 2: return BBox{{-inf, -inf, -inf}, {inf, 0.5, inf}};
        default: return BBox::from_infinite();
    }
}

inline OrangeInput build_lattice(int zo_i, int bbkind, int unit_bbkind = 0)
{
    constexpr int nsurf = 130;
    UnitInput u;
    u.label = Label{"lat", "uext"};
    u.bbox = unit_bbox_of_kind(unit_bbkind);
    auto const labels = label_alphabet();
    for (int i = 0; i < nsurf; ++i)
    {
        u.surfaces.push_back(PlaneX(i - 65 + 0.1));
        u.surface_labels.push_back(labels[i % labels.size()]);
    }
    std::vector<LocalSurfaceId> all(nsurf);
    std::iota(all.begin(), all.end(), LocalSurfaceId{0});
    char const* const logics[] = {"*", "0", "0 ~", "0 1 & 2 |", "10 123 ~ & 7 |", "* ~",
                                  "129 5 | ~ 64 &"};
    int n = 0;
    for (unsigned flags = 0; flags < 16; ++flags)
        for (char const* lg : logics)
        {
            VolumeInput v;
            v.label = labels[(n + zo_i) % labels.size()];
            v.faces = (n % 4 == 0) ? ids({0, 1, 2})
                                   : all;  // short face lists only reference 0..2
            v.logic = parse_logic((n % 4 == 0 && std::strlen(lg) > 9) ? "2 1 | 0 &" : lg);
            v.flags = flags;
            v.zorder = zorder_alphabet[zo_i];
            v.bbox = bbox_of_kind(bbkind);
            u.volumes.push_back(v);
            ++n;
        }
    // daughter map with every transform form (non-symmetric rotation, reflection)
    SquareMatrixReal3 const refl{Real3{0, 1, 0}, Real3{1, 0, 0}, Real3{0, 0, 1}};
    u.daughter_map.emplace(LocalVolumeId{1}, DaughterInput{UniverseId{1}, NoTransformation{}});
    u.daughter_map.emplace(LocalVolumeId{100},
                           DaughterInput{UniverseId{3}, Translation{{1.0 / 3, -2.0 / 7, 1e-9}}});
    u.daughter_map.emplace(
        LocalVolumeId{5},
        DaughterInput{UniverseId{2},
                      Transformation{make_rotation(make_unit_vector(Real3{3, -1, 2}), Turn{0.0917}),
                                     {0.1, 0.2, 0.3}}});
    u.daughter_map.emplace(LocalVolumeId{64},
                           DaughterInput{UniverseId{1}, Transformation{refl, {-4, 5, -6}}});
    u.daughter_map.emplace(LocalVolumeId{17}, DaughterInput{UniverseId{3}, Translation{{0, 0, 0}}});
    u.daughter_map.emplace(
        LocalVolumeId{33},
        DaughterInput{UniverseId{2},
                      Transformation{make_rotation(Axis::y, Turn{0.125},
                                                   make_rotation(Axis::z, Turn{1.0 / 3})),
                                     {7, 8, 9}}});
    OrangeInput in;
    in.universes.push_back(std::move(u));
    for (int kind = 0; kind < 3; ++kind)
        in.universes.push_back(child_unit(kind, 1.0));
    in.tol = Tolerance<>::from_relative(1e-7, 2.0);
    return in;
}

//! A VolumeInput that is valid by VolumeInput::operator bool only through its implicit_vol flag:
//! EMPTY logic (the writer has a branch for it: "logic" is omitted).  One such volume per unit,
//! next to ordinary ones, so that nothing else in the unit is unusual.
inline OrangeInput build_empty_logic(int zo_i, unsigned extra_flags)
{
    UnitInput u;
    u.label = Label{"emptylogic"};
    u.bbox = BBox{{-1, -1, -1}, {1, 1, 1}};
    u.surfaces.push_back(PlaneX(0.25));
    u.surface_labels.push_back(Label{"mid"});
    u.volumes.push_back(nowhere_exterior());
    {
        VolumeInput v;
        v.label = Label{"implicit", "nologic"};
        v.faces = ids({0});
        v.logic = {};
        v.flags = VolumeRecord::implicit_vol | extra_flags;
        v.zorder = zorder_alphabet[zo_i];
        v.bbox = BBox{{-1, -1, -1}, {0.25, 1, 1}};
        u.volumes.push_back(v);
    }
    {
        VolumeInput v;
        v.label = Label{"right"};
        v.faces = ids({0});
        v.logic = parse_logic("0");
        v.zorder = ZOrder::media;
        v.bbox = BBox::from_infinite();
        u.volumes.push_back(v);
    }
    OrangeInput in;
    in.universes.push_back(std::move(u));
    in.tol = Tolerance<>::from_default();
    return in;
}

//---------------------------------------------------------------------------//
// FAMILY ext: extreme doubles (structure only)
//---------------------------------------------------------------------------//
inline double from_bits(uint64_t b)
{
    double d;
    std::memcpy(&d, &b, sizeof d);
    return d;
}

// All binary exponents x one mantissa pattern x sign, as PlaneX positions
inline OrangeInput build_exponent_sweep(int mant_i, bool negative)
{
    uint64_t const mant[] = {0x0000000000000ull, 0x0000000000001ull, 0xfffffffffffffull,
                             0x8000000000000ull, 0x5555555555555ull, 0x921fb54442d18ull};
    UnitInput u;
    u.label = Label{"sweep"};
    u.bbox = BBox{{-1, -1, -1}, {1, 1, 1}};
    for (uint64_t e = 0; e < 2047; ++e)
    {
        uint64_t b = (e << 52) | mant[mant_i] | (negative ? (1ull << 63) : 0ull);
        u.surfaces.push_back(PlaneX(from_bits(b)));
    }
    // surface labels deliberately left empty (allowed by the schema)
    VolumeInput v;
    v.label = Label{"all"};
    v.logic = {logic::ltrue};
    v.zorder = ZOrder::media;
    v.bbox = BBox::from_infinite();
    u.volumes.push_back(v);
    OrangeInput in;
    in.universes.push_back(std::move(u));
    in.tol = Tolerance<>::from_default();
    return in;
}

inline std::vector<double> awkward_doubles()
{
    return {0.1 + 0.2,
            1.0 / 3,
            2.0 / 3,
            1e23,
            8.41e21,
            9007199254740993.0,
            4.35,
            5e-324,
            2.2250738585072011e-308,
            2.2250738585072014e-308,
            1.7976931348623157e308,
            1e-300,
            1e300,
            123456789.12345678,
            0.000001,
            1e21,
            1e-7,
            5e-5,
            1.0000000000000002,
            0.99999999999999989,
            3.141592653589793,
            6.02214076e23,
            1.602176634e-19};
}

inline OrangeInput build_extreme()
{
    auto const A = awkward_doubles();
    OrangeInput in;
    UnitInput u;
    u.label = Label{"extreme", "x"};
    u.bbox = BBox{{-1e300, -5e-324, -1.0 / 3}, {1e-300, 1e300, 2.0 / 3}};
    for (double v : A)
    {
        u.surfaces.push_back(PlaneX(v));
        u.surfaces.push_back(PlaneY(-v));
    }
    u.surfaces.push_back(PlaneZ(-0.0));
    u.surfaces.push_back(PlaneZ(0.0));
    u.surfaces.push_back(Sphere(Real3{1e-300, -1e300, 0.1 + 0.2}, 1e150));
    u.surfaces.push_back(Sphere::from_radius_sq(Real3{-0.0, 5e-324, 1e23}, 5e-324));
    u.surfaces.push_back(CylZ::from_radius_sq(Real3{1.0 / 3, 2.0 / 3, 0}, 1e-300));
    u.surfaces.push_back(Plane(make_unit_vector(Real3{1, 1e-8, -1e-8}), 2.2250738585072011e-308));
    u.surfaces.push_back(ConeZ::from_tangent_sq(Real3{1e21, -1e-21, 4.35}, 1e-300));
    u.surfaces.push_back(SimpleQuadric(Real3{1e-300, 0, -1e300}, Real3{0, -0.0, 5e-324}, 1.0 / 3));
    u.surfaces.push_back(GeneralQuadric(Real3{1e300, 1e-300, 1.0 / 3},
                                        Real3{-0.0, 5e-324, 2.0 / 3},
                                        Real3{1e23, 8.41e21, -4.35},
                                        -1.7976931348623157e308));
    for (size_t i = 0; i < u.surfaces.size(); ++i)
        u.surface_labels.push_back(Label{fmt("s%zu", i)});

    for (size_t i = 0; i + 1 < A.size(); ++i)
    {
        VolumeInput v;
        v.label = Label{fmt("v%zu", i)};
        v.faces = ids({unsigned(2 * i)});
        v.logic = parse_logic("0");
        v.zorder = ZOrder::media;
        double lo = std::min(A[i], A[i + 1]), hi = std::max(A[i], A[i + 1]);
        if (hi == std::numeric_limits<double>::max())
            hi = std::numeric_limits<double>::infinity();  // (max itself is reserved for inf)
        v.bbox = BBox{{-hi, lo, -0.0}, {-lo, hi, 0.0}};
        u.volumes.push_back(v);
    }
    u.daughter_map.emplace(LocalVolumeId{0},
                           DaughterInput{UniverseId{1}, Translation{{5e-324, -0.0, 1e300}}});
    u.daughter_map.emplace(
        LocalVolumeId{1},
        DaughterInput{UniverseId{1},
                      Transformation{make_rotation(make_unit_vector(Real3{1e-9, 1, 1e-9}),
                                                   Turn{1e-9}),
                                     {1e23, -2.2250738585072011e-308, 1.7976931348623157e308}}});
    in.universes.push_back(std::move(u));

    RectArrayInput arr;
    arr.label = Label{"xarr"};
    arr.grid[0] = {-1e300, -5e-324, 0.0, 5e-324, 1e-300, 1.0 / 3, 1e300};
    arr.grid[1] = {-0.0, 0.1 + 0.2, 2.0 / 3};
    arr.grid[2] = {2.2250738585072011e-308, 2.2250738585072014e-308};
    for (int i = 0; i < 6; ++i)
        arr.daughters.push_back(
            {UniverseId{2}, Translation{{A[i], -A[i + 6], A[i + 12]}}});
    // a "negative zero" translation: equal to zero, read back as NoTransformation
    arr.daughters[3].transform = Translation{{-0.0, 0.0, -0.0}};
    // tiny but non-zero translations, all components tiny / one component tiny / denormal: the
    // reader's "zero translation -> NoTransformation" rule is an exact comparison, so every one
    // of these must come back as a Translation with identical bits
    std::vector<Real3> const tiny = {{5e-324, -0.0, 1e-300},
                                     {0, 0, 1e-12},
                                     {1e-9, 0, 0},
                                     {0, -5e-324, 0},
                                     {-0.0, 0.0, 2.2250738585072014e-308},
                                     {1e-16, -1e-16, 1e-16}};
    for (Real3 const& t : tiny)
        arr.daughters.push_back({UniverseId{2}, Translation{t}});
    in.universes.push_back(std::move(arr));
    in.universes.push_back(child_unit(2, 1.0));

    in.tol.rel = 1e-300;
    in.tol.abs = 5e-324;
    return in;
}
}  // namespace hw

//---------------------------------------------------------------------------//
inline void add_row_programs(std::vector<Program>& out, bool)
{
    for (int v = 0; v < hw::num_row_variants; ++v)
        for (int b = 0; b < 3; ++b)
            for (int t = 0; t < 2; ++t)
                for (int inv = 0; inv < 2; ++inv)
                {
                    // the involute slab is a separate axis: most programs stay without it so
                    // that they are fully navigable (no runtime involute support in this
                    // revision), two per variant carry it
                    if (inv && (b != v % 3 || t != v % 2))
                        continue;
                    Program p;
                    p.id = fmt("row:variant=%d,bbox=%d,tol=%d,inv=%d", v, b, t, inv);
                    p.extra_tags = {fmt("row:variant=%d", v)};
                    p.file_entry = (inv == 0);
                    p.make = [=] { return hw::build_row(v, b, t, inv != 0); };
                    out.push_back(std::move(p));
                }
}

inline void add_array_programs(std::vector<Program>& out, bool)
{
    for (int mode = 0; mode < 3; ++mode)
        for (int nx = 1; nx <= 3; ++nx)
            for (int ny = 1; ny <= 3; ++ny)
                for (int nz = 1; nz <= 3; ++nz)
                {
                    Program p;
                    p.id = fmt("arr:mode=%d,n=%dx%dx%d", mode, nx, ny, nz);
                    p.extra_tags = {fmt("arr:mode=%d", mode)};
                    p.file_entry = true;
                    p.make = [=] { return hw::build_array(nx, ny, nz, mode); };
                    out.push_back(std::move(p));
                }
}

inline void add_lattice_programs(std::vector<Program>& out, bool)
{
    for (int z = 0; z < 6; ++z)
        for (int b = 0; b < hw::num_bbox_kinds; ++b)
        {
            Program p;
            p.id = fmt("lat:zorder=%d,bbox=%d", z, b);
            p.navigate = false;
            p.make = [=] { return hw::build_lattice(z, b); };
            out.push_back(std::move(p));
        }
    // unit-level bbox kind axis (kind 0 = finite is the one used above): x every volume bbox kind
    // at z-order M, x every z-order at volume bbox kind 1
    for (int ub = 1; ub < hw::num_unit_bbox_kinds; ++ub)
        for (int z = 0; z < 6; ++z)
            for (int b = 0; b < hw::num_bbox_kinds; ++b)
            {
                if (z != 1 && b != 1)
                    continue;
                Program p;
                p.id = fmt("lat:zorder=%d,bbox=%d,unitbbox=%d", z, b, ub);
                p.navigate = false;
                p.make = [=] { return hw::build_lattice(z, b, ub); };
                out.push_back(std::move(p));
            }
    // empty logic + implicit_vol (z-orders M, x, B x extra flags)
    for (int z : {1, 4, 0})
        for (unsigned fl : {0u, unsigned(VolumeRecord::simple_safety)})
        {
            Program p;
            p.id = fmt("lat:empty-logic,zorder=%d,flags=%u", z, unsigned(VolumeRecord::implicit_vol | fl));
            p.navigate = false;
            p.extra_tags = {"lat:empty-logic-implicit-volume"};
            p.make = [=] { return hw::build_empty_logic(z, fl); };
            out.push_back(std::move(p));
        }
}

inline void add_extreme_programs(std::vector<Program>& out)
{
    for (int m = 0; m < 6; ++m)
        for (int neg = 0; neg < 2; ++neg)
        {
            Program p;
            p.id = fmt("ext:sweep,mant=%d,neg=%d", m, neg);
            p.navigate = false;
            p.extra_tags = {"ext:exponent-sweep"};
            p.make = [=] { return hw::build_exponent_sweep(m, neg != 0); };
            out.push_back(std::move(p));
        }
    Program p;
    p.id = "ext:awkward";
    p.navigate = false;
    p.extra_tags = {"ext:awkward-values"};
    p.make = [] { return hw::build_extreme(); };
    out.push_back(std::move(p));
}

}  // namespace c19
