// C12 surface alphabets (coefficient families per surface type and level).
#pragma once
#include "oracle/c12_quadric.hh"

//---------------------------------------------------------------------------//
// Surface alphabets.  level 0: small (xform quick), 1: medium, 2: large.
// fn(surface, "type", index-within-type)
struct Visit
{
    vf::Run& R;
    uint64_t global = 0;
    template<class S, class Fn>
    void operator()(char const* type, uint64_t idx, S const& s, Fn&& fn)
    {
        uint64_t g = global++;
        if (!R.mine(g))
            return;
        std::string cid = fmt("%s#%llu", type, (unsigned long long)idx);
        if (!R.want(cid))
            return;
        fn(s, cid);
    }
};

template<class Fn>
static void for_axes(Fn&& fn)
{
    fn(std::integral_constant<Axis, Axis::x>{}, "x");
    fn(std::integral_constant<Axis, Axis::y>{}, "y");
    fn(std::integral_constant<Axis, Axis::z>{}, "z");
}

static std::vector<std::array<double, 3>> origin_set(int level)
{
    std::vector<std::array<double, 3>> r;
    if (level == 0)
        return {{0.5, -1, 1}};
    if (level == 1)
    {
        for (double x : {-1.0, 0.0, 0.5})
            for (double y : {-1.0, 0.0, 0.5})
                for (double z : {-1.0, 0.0, 0.5})
                    r.push_back({x, y, z});
        return r;
    }
    for (double x : {-1.0, 0.0, 0.5})
        for (double y : {-1.0, 0.0, 0.5})
            for (double z : {-1.0, 0.0, 0.5})
                r.push_back({x, y, z});
    r.push_back({1e3, 0, 0});
    r.push_back({1e3, -1e3, 1e3});
    r.push_back({0, 0x1p-20, 0});
    return r;
}

static std::vector<std::array<double, 3>> plane_normals(int level)
{
    std::vector<std::array<double, 3>> r;
    auto add = [&](ld x, ld y, ld z) {
        ld v[3] = {x, y, z};
        double u[3];
        normalize(v, u);
        r.push_back({u[0], u[1], u[2]});
    };
    if (level == 0)
    {
        add(1, 0, 0);
        add(0, -1, 0);
        add(1, 1, 0);
        add(-1, 0, 1);
        add(1, -1, 1);
        add(1, 2, 3);
        add(-3, 1, 0.5L);
        return r;
    }
    for (int i = -1; i <= 1; ++i)
        for (int j = -1; j <= 1; ++j)
            for (int k = -1; k <= 1; ++k)
                if (i || j || k)
                    add(i, j, k);
    add(1, 2, 3);
    add(-3, 1, 0.5L);
    add(0.6L, 0, -0.8L);
    if (level >= 2)
    {
        add(1, 1e-9L, 0);
        add(1e-3L, 1, -1e-3L);
        add(-1e-12L, 0, 1);
    }
    return r;
}

//! Enumerate all surface instances: level for the simple types, sq_level / gq_level for the
//! SimpleQuadric / GeneralQuadric coefficient families
template<class Fn>
static void enumerate_surfaces(vf::Run& R, int level, int sq_level, int gq_level, Fn&& fn)
{
    Visit V{R};
    // --- axis-aligned planes
    {
        std::vector<double> pos = level == 0   ? std::vector<double>{-1, 0, 0.5}
                                  : level == 1 ? std::vector<double>{-1e3, -1, 0, 0.5, 2}
                                               : std::vector<double>{-1e6, -1e3, -1, -0x1p-20, 0, 0.5, 1, 2, 1e3};
        for_axes([&](auto ax, char const* an) {
            constexpr Axis T = decltype(ax)::value;
            uint64_t i = 0;
            for (double p : pos)
                V((std::string("p") + an).c_str(), i++, PlaneAligned<T>{p}, fn);
        });
    }
    // --- general planes
    {
        std::vector<double> ds = level == 0   ? std::vector<double>{0, 0.5}
                                 : level == 1 ? std::vector<double>{-2, 0, 0.5}
                                              : std::vector<double>{-2, 0, 0.5, 1e3};
        uint64_t i = 0;
        for (auto const& n : plane_normals(level))
            for (double d : ds)
                V("p", i++, Plane{Real3{n[0], n[1], n[2]}, d}, fn);
    }
    std::vector<double> radii = level == 0   ? std::vector<double>{1}
                                : level == 1 ? std::vector<double>{0.5, 2}
                                             : std::vector<double>{0x1p-10, 0.5, 1, 2, 1e3};
    // --- centered cylinders / sphere
    for_axes([&](auto ax, char const* an) {
        constexpr Axis T = decltype(ax)::value;
        uint64_t i = 0;
        for (double r : radii)
            V((std::string("c") + an + "c").c_str(), i++, CylCentered<T>{r}, fn);
    });
    {
        uint64_t i = 0;
        for (double r : radii)
            V("sc", i++, SphereCentered{r}, fn);
    }
    // --- offset cylinders
    for_axes([&](auto ax, char const* an) {
        constexpr Axis T = decltype(ax)::value;
        uint64_t i = 0;
        std::vector<double> uv = level == 0   ? std::vector<double>{0.5}
                                 : level == 1 ? std::vector<double>{-1, 0, 0.5}
                                              : std::vector<double>{-1, 0, 0.5, 1e3};
        for (double u : uv)
            for (double v : uv)
                for (double r : radii)
                {
                    Real3 o{0, 0, 0};
                    o[ax_u(int(T))] = u;
                    o[ax_v(int(T))] = (level == 0 ? -1 : v);
                    V((std::string("c") + an).c_str(), i++, CylAligned<T>{o, r}, fn);
                }
    });
    // --- spheres
    {
        uint64_t i = 0;
        for (auto const& o : origin_set(level))
            for (double r : radii)
                V("s", i++, Sphere{Real3{o[0], o[1], o[2]}, r}, fn);
    }
    // --- cones
    for_axes([&](auto ax, char const* an) {
        constexpr Axis T = decltype(ax)::value;
        uint64_t i = 0;
        std::vector<double> tans = level == 0   ? std::vector<double>{0.5}
                                   : level == 1 ? std::vector<double>{0.5, 1, 2}
                                                : std::vector<double>{1e-2, 0.25, 0.5, 1, 2, 1e2};
        std::vector<std::array<double, 3>> os
            = level == 1 ? std::vector<std::array<double, 3>>{{0, 0, 0}, {0.5, -1, 1}, {-1, 0, 0.5}, {0, 0, -1}}
                         : origin_set(level);
        for (auto const& o : os)
            for (double t : tans)
                V((std::string("k") + an).c_str(), i++, ConeAligned<T>{Real3{o[0], o[1], o[2]}, t}, fn);
    });
    // --- simple quadrics
    {
        uint64_t i = 0;
        std::vector<double> sec = sq_level >= 2 ? std::vector<double>{-1, 0, 0.25, 1, 4} : std::vector<double>{-1, 0, 1};
        std::vector<double> fst = {-1, 0, 2};
        std::vector<double> zer = sq_level == 0   ? std::vector<double>{-1, 1}
                                  : sq_level == 1 ? std::vector<double>{-1, 0, 1}
                                                : std::vector<double>{-1, 0, 1, 4};
        for (double a : sec)
            for (double b : sec)
                for (double c : sec)
                {
                    int nf = 0;
                    for (double d : fst)
                        for (double e : fst)
                            for (double f : fst)
                            {
                                ++nf;
                                if (sq_level == 0 && !((d == 0 && e == 0 && f == 0) || (d == -1 && e == 0 && f == 2)))
                                    continue;
                                if (a == 0 && b == 0 && c == 0 && d == 0 && e == 0 && f == 0)
                                    continue;
                                for (double g : zer)
                                    V("sq", i++, SimpleQuadric{Real3{a, b, c}, Real3{d, e, f}, g}, fn);
                            }
                }
        // scaled and promoted forms (expanded coefficients with cancellation)
        for (double sc : {0x1p-6, 1024.0})
        {
            V("sq-scaled", i++, SimpleQuadric{Real3{sc, sc * 0.25, -sc}, Real3{sc * 2, 0, -sc}, -sc}, fn);
            V("sq-scaled", i++, SimpleQuadric{Real3{sc, sc, 0}, Real3{0, -sc, sc}, -4 * sc}, fn);
        }
        std::vector<std::array<double, 3>> os = {{0.5, -1, 1}, {1e3, 0, -1e3}};
        if (sq_level == 0)
            os.resize(1);
        for (auto const& o : os)
        {
            Real3 oo{o[0], o[1], o[2]};
            V("sq-promoted", i++, SimpleQuadric{Sphere{oo, 2.0}}, fn);
            V("sq-promoted", i++, SimpleQuadric{CylAligned<Axis::z>{oo, 0.5}}, fn);
            V("sq-promoted", i++, SimpleQuadric{CylAligned<Axis::x>{oo, 2.0}}, fn);
            V("sq-promoted", i++, SimpleQuadric{ConeAligned<Axis::y>{oo, 0.5}}, fn);
            V("sq-promoted", i++, SimpleQuadric{ConeAligned<Axis::z>{oo, 2.0}}, fn);
            V("sq-promoted", i++, SimpleQuadric{Plane{Real3{0.6, 0, -0.8}, 0.5}}, fn);
        }
    }
    // --- general quadrics
    {
        uint64_t i = 0;
        std::vector<double> tri = {-1, 0, 1};
        if (gq_level == 0)
        {
            double const cross[][3] = {{0, 0, 0}, {1, 0, 0}, {0, -1, 0}, {0, 0, 1}, {1, 1, 0}, {1, -1, 1}, {-1, -1, -1}};
            double const first[][3] = {{0, 0, 0}, {1, 0, -1}};
            for (double a : tri)
                for (double b : tri)
                    for (double c : tri)
                        for (auto const& cr : cross)
                            for (auto const& f : first)
                                for (double j : {-1.0, 1.0})
                                {
                                    if (a == 0 && b == 0 && c == 0 && cr[0] == 0 && cr[1] == 0 && cr[2] == 0
                                        && f[0] == 0 && f[1] == 0 && f[2] == 0)
                                        continue;
                                    V("gq", i++,
                                      GeneralQuadric{Real3{a, b, c}, Real3{cr[0], cr[1], cr[2]},
                                                     Real3{f[0], f[1], f[2]}, j},
                                      fn);
                                }
        }
        else
        {
            std::vector<double> fst = gq_level == 1 ? std::vector<double>{0, 1} : tri;
            for (double a : tri)
                for (double b : tri)
                    for (double c : tri)
                        for (double d : tri)
                            for (double e : tri)
                                for (double f : tri)
                                    for (double g : fst)
                                        for (double h : fst)
                                            for (double ii : fst)
                                            {
                                                if (a == 0 && b == 0 && c == 0 && d == 0 && e == 0 && f == 0
                                                    && g == 0 && h == 0 && ii == 0)
                                                    continue;
                                                for (double j : tri)
                                                    V("gq", i++,
                                                      GeneralQuadric{Real3{a, b, c}, Real3{d, e, f}, Real3{g, h, ii}, j},
                                                      fn);
                                            }
        }
        // the rotated ellipsoid of the unit test and scaled / mixed-magnitude variants
        V("gq-named", i++,
          GeneralQuadric{Real3{10.3125, 22.9375, 15.75},
                         Real3{-21.867141445557, -20.25, 11.69134295109},
                         Real3{-11.964745962156, -9.1328585544429, -65.69134295109},
                         77.652245962156},
          fn);
        for (double sc : {0x1p-6, 1024.0})
        {
            V("gq-scaled", i++, GeneralQuadric{Real3{sc, -sc, 0.25 * sc}, Real3{sc, 0, -2 * sc}, Real3{0, sc, -sc}, -sc}, fn);
            V("gq-scaled", i++, GeneralQuadric{Real3{0, 0, 0}, Real3{sc, sc, sc}, Real3{sc, 0, 0}, sc}, fn);
            V("gq-scaled", i++, GeneralQuadric{Real3{4 * sc, sc, sc}, Real3{0.5 * sc, 0, 0}, Real3{0, 0, 0}, -sc}, fn);
        }
        V("gq-promoted", i++, GeneralQuadric{SimpleQuadric{Sphere{Real3{1e3, 0, -1e3}, 2.0}}}, fn);
        V("gq-promoted", i++, GeneralQuadric{SimpleQuadric{ConeAligned<Axis::x>{Real3{0.5, -1, 1}, 0.5}}}, fn);
    }
}

