// problems/interactor_env.hh - stand-alone environment for calling Celeritas *Interactor*
// classes from a harness (no gtest, no Geant4).  Header-only, self-contained; used by the C04
// harnesses (harness/c04_em.cc, harness/c04_muhad.cc) and free for any other check.
//
// It re-implements what test/celeritas/phys/InteractorHostTestBase.{hh,cc} gives the unit
// tests (hand-built ParticleParams / MaterialParams / CutoffParams, one-slot particle and
// material track states, a StackAllocator<Secondary> with chosen free space) plus an
// independent long-double ledger for the outcome of an interaction.
//
// ----------------------------------------------------------------------------------------
// API (namespace vf)
//
//   InteractorEnv env;                       // default particles + materials (see below)
//   env.set_particle_params(ParticleParams::Input)     // replace particles (cutoffs reset)
//   env.set_material_params(MaterialParams::Input)     // replace materials (cutoffs reset)
//   env.set_cutoff_params(CutoffParams::Input)         // full control, or:
//   env.set_cutoffs({{pdg::gamma(), MevEnergy{..}}, {pdg::electron(), ..}})
//                                            // same energy cut for *all* materials
//   env.particle_params() / material_params() / cutoff_params()     -> shared_ptr<... const>
//   env.pid(pdg::electron())                 // ParticleId (invalid id if absent)
//   env.mass(pid)                            // long double rest mass [MeV]
//
//   env.make_import_process(particle_pdg, secondary_pdg, ImportProcessClass, {ImportModelClass..})
//                                            // dummy ImportProcess (empty tables, energy
//                                            //   limits [0,1e12] for every material), as the
//                                            //   unit tests use to construct Model classes
//   env.make_imported({ImportProcess...})    // shared_ptr<ImportedProcesses const>
//
//   env.set_material("Cu");                  // by label;  or set_material(MaterialId)
//   env.material_track()                     // MaterialTrackView&  (has element scratch)
//   env.material_view()                      // MaterialView of the current material
//   env.element_view(ElementId)              // ElementView
//   env.cutoff_view()                        // CutoffView of the current material
//
//   env.set_inc_particle(pdg::gamma(), MevEnergy{1.0});     // cheap (no allocation)
//   env.particle_track()                     // ParticleTrackView const&
//   env.set_inc_direction({x,y,z});          // normalised in long double, stored as double
//   env.set_inc_direction_raw({x,y,z});      // stored bit-for-bit (already a unit vector)
//   env.direction()                          // Real3 const& (stable address: interactors
//                                            //   keep a *reference* to it)
//
//   env.resize_secondaries(capacity);        // capacity >= 1 (library precondition)
//   env.set_free_slots(n);                   // clear the stack, then pre-occupy
//                                            //   capacity-n slots with a sentinel pattern so
//                                            //   that exactly n allocations can succeed.
//                                            //   n = 0 models "capacity 0" (the library
//                                            //   cannot build a zero-capacity stack).
//   env.secondary_allocator()                // StackAllocator<Secondary>&
//   env.stack_size()                         // current size of the stack
//   env.occupied()                           // slots taken by the sentinel prefix
//   env.sentinels_intact()                   // true iff the pre-occupied prefix is bit-for-bit
//                                            //   untouched (nothing written outside the
//                                            //   interaction's own allocation)
//
// Default particles (same masses as InteractorHostTestBase): electron, positron, gamma,
//   mu_minus, mu_plus, proton, neutron.  Default elements Cu(29) K(19) O(8) W(74) Pb(82) and
//   materials "Cu", "Pb" (sic: it is copper at another density, as in the unit tests), "K",
//   "Cu-1.0", "PbWO" (three elements).  Default cutoffs: none set (all zero) - call
//   set_cutoffs().
//
// Directions:   vf::axes_and_diagonals()  -> 14 unit vectors (6 axes + 8 cube diagonals)
// Energies:     vf::energy_alphabet(lo, hi, n_interior, {thresholds...})
//                 -> sorted unique {lo, next(lo), n log-uniform interior points, each
//                    threshold t in (lo,hi): prev(t), t, next(t), prev(hi), hi}
//
// Ledger (independent oracle, long double):
//   vf::Ledger L(env);                        // reads masses / ids from env's ParticleParams
//   L.audit(inc_pid, inc_energy, inc_dir, interaction)  -> vf::Audit
//     Audit fields:  ok_values (all energies finite >= 0, deposit finite >= 0, unit
//       directions of every *live* product, particle ids of surviving secondaries valid),
//       what (text of the first problem), e_in, e_out (total-energy bookkeeping: kinetic
//       energies + deposit + 2 m_e c^2 for every positron present on either side - so
//       annihilation, pair production and Bhabha need no special casing), p_res (norm of
//       incident momentum minus all live products), p_scale (sum of momentum magnitudes),
//       inv_beta_sum (sum of 1/beta over massive live products: amplification of an energy
//       rounding error into a momentum error), p_angle_slack (see struct Audit), n_live
//       (surviving secondaries), max_dir_err.
//   Rounding-model tolerances are left to the caller (documented per model in the harness).
//
// ----------------------------------------------------------------------------------------
#pragma once

#include <cmath>
#include <cstdint>
#include <cstring>
#include <algorithm>
#include <map>
#include <memory>
#include <optional>
#include <string>
#include <utility>
#include <vector>

#include "corecel/Types.hh"
#include "corecel/cont/Array.hh"
#include "corecel/cont/Span.hh"
#include "corecel/data/CollectionStateStore.hh"
#include "corecel/data/StackAllocator.hh"
#include "celeritas/Constants.hh"
#include "celeritas/Quantities.hh"
#include "celeritas/Types.hh"
#include "celeritas/mat/ElementView.hh"
#include "celeritas/mat/MaterialData.hh"
#include "celeritas/mat/MaterialParams.hh"
#include "celeritas/mat/MaterialTrackView.hh"
#include "celeritas/mat/MaterialView.hh"
#include "celeritas/phys/CutoffData.hh"
#include "celeritas/phys/CutoffParams.hh"
#include "celeritas/phys/CutoffView.hh"
#include "celeritas/io/ImportProcess.hh"
#include "celeritas/phys/ImportedProcessAdapter.hh"
#include "celeritas/phys/Interaction.hh"
#include "celeritas/phys/PDGNumber.hh"
#include "celeritas/phys/ParticleData.hh"
#include "celeritas/phys/ParticleParams.hh"
#include "celeritas/phys/ParticleTrackView.hh"
#include "celeritas/phys/Secondary.hh"

namespace vf
{
//---------------------------------------------------------------------------//
class InteractorEnv
{
  public:
    using MevEnergy = celeritas::units::MevEnergy;
    using Real3 = celeritas::Real3;
    using Secondary = celeritas::Secondary;
    using SecondaryAllocator = celeritas::StackAllocator<Secondary>;
    using ParticleParams = celeritas::ParticleParams;
    using MaterialParams = celeritas::MaterialParams;
    using CutoffParams = celeritas::CutoffParams;
    using PDGNumber = celeritas::PDGNumber;
    using size_type = celeritas::size_type;

    InteractorEnv()
    {
        using namespace celeritas;
        using namespace celeritas::units;
        namespace pdg = celeritas::pdg;
        constexpr auto zero = zero_quantity();
        constexpr auto stable = constants::stable_decay_constant;
        constexpr MevMass emass{0.5109989461};
        constexpr MevMass mumass{105.6583745};
        ParticleParams::Input par = {
            {"electron", pdg::electron(), emass, ElementaryCharge{-1}, stable},
            {"positron", pdg::positron(), emass, ElementaryCharge{1}, stable},
            {"gamma", pdg::gamma(), zero, zero, stable},
            {"mu_minus", pdg::mu_minus(), mumass, ElementaryCharge{-1}, stable},
            {"mu_plus", pdg::mu_plus(), mumass, ElementaryCharge{1}, stable},
            {"proton", pdg::proton(), MevMass{938.27208816}, ElementaryCharge{1}, stable},
            {"neutron", pdg::neutron(), MevMass{939.5654205}, zero, 1.0 / (879.4 * units::second)},
        };
        this->set_particle_params(std::move(par));

        MaterialParams::Input mat;
        mat.elements = {{AtomicNumber{29}, AmuMass{63.546}, {}, Label{"Cu"}},
                        {AtomicNumber{19}, AmuMass{39.0983}, {}, Label{"K"}},
                        {AtomicNumber{8}, AmuMass{15.999}, {}, Label{"O"}},
                        {AtomicNumber{74}, AmuMass{183.84}, {}, Label{"W"}},
                        {AtomicNumber{82}, AmuMass{207.2}, {}, Label{"Pb"}}};
        mat.materials = {
            {native_value_from(MolCcDensity{0.141}), 293.0, MatterState::solid,
             {{ElementId{0}, 1.0}}, Label{"Cu"}},
            {native_value_from(MolCcDensity{0.05477}), 293.15, MatterState::solid,
             {{ElementId{0}, 1.0}}, Label{"Pb"}},
            {native_value_from(MolCcDensity{1e-5}), 293., MatterState::solid,
             {{ElementId{1}, 1.0}}, Label{"K"}},
            {native_value_from(MolCcDensity{1.0}), 293.0, MatterState::solid,
             {{ElementId{0}, 1.0}}, Label{"Cu-1.0"}},
            {native_value_from(MolCcDensity{1.0}), 293.0, MatterState::solid,
             {{ElementId{2}, 0.5}, {ElementId{3}, 0.3}, {ElementId{4}, 0.2}}, Label{"PbWO"}},
        };
        this->set_material_params(std::move(mat));
        this->resize_secondaries(128);
    }

    InteractorEnv(InteractorEnv const&) = delete;
    InteractorEnv& operator=(InteractorEnv const&) = delete;

    //// PARAMS ////

    void set_particle_params(ParticleParams::Input inp)
    {
        pt_view_.reset();
        particle_params_ = std::make_shared<ParticleParams>(std::move(inp));
        ps_ = StateStore<celeritas::ParticleStateData>(particle_params_->host_ref(), 1);
        pt_view_.emplace(particle_params_->host_ref(), ps_.ref(), celeritas::TrackSlotId{0});
        cutoff_params_.reset();
    }
    void set_material_params(MaterialParams::Input inp)
    {
        mt_view_.reset();
        material_params_ = std::make_shared<MaterialParams>(std::move(inp));
        ms_ = StateStore<celeritas::MaterialStateData>(material_params_->host_ref(), 1);
        mt_view_.emplace(material_params_->host_ref(), ms_.ref(), celeritas::TrackSlotId{0});
        cutoff_params_.reset();
        this->set_material(celeritas::MaterialId{0});
    }
    void set_cutoff_params(CutoffParams::Input inp)
    {
        cutoff_params_ = std::make_shared<CutoffParams>(inp);
    }
    //! Same production threshold (energy) in every material for the listed particles
    void set_cutoffs(std::vector<std::pair<PDGNumber, MevEnergy>> const& cuts)
    {
        CutoffParams::Input input;
        input.materials = material_params_;
        input.particles = particle_params_;
        for (auto const& pc : cuts)
        {
            CutoffParams::MaterialCutoffs mc(material_params_->size());
            for (auto& c : mc)
            {
                c.energy = pc.second;
                c.range = 0.07;  // not used by any interactor
            }
            input.cutoffs.insert({pc.first, std::move(mc)});
        }
        this->set_cutoff_params(std::move(input));
    }

    std::shared_ptr<ParticleParams const> const& particle_params() const { return particle_params_; }
    std::shared_ptr<MaterialParams const> const& material_params() const { return material_params_; }
    std::shared_ptr<CutoffParams const> const& cutoff_params() const { return cutoff_params_; }

    celeritas::ParticleId pid(PDGNumber pdg) const { return particle_params_->find(pdg); }
    long double mass(celeritas::ParticleId id) const
    {
        return particle_params_->get(id).mass().value();
    }

    //// MOCK IMPORT DATA (for constructing Model classes) ////

    celeritas::ImportProcess
    make_import_process(PDGNumber particle,
                        PDGNumber secondary,
                        celeritas::ImportProcessClass ipc,
                        std::vector<celeritas::ImportModelClass> models) const
    {
        celeritas::ImportProcess result;
        result.particle_pdg = particle.get();
        result.secondary_pdg = secondary ? secondary.get() : 0;
        result.process_type = celeritas::ImportProcessType::electromagnetic;
        result.process_class = ipc;
        for (auto& mcls : models)
        {
            celeritas::ImportModel m;
            m.model_class = mcls;
            m.materials.resize(material_params_->num_materials());
            for (celeritas::ImportModelMaterial& imm : m.materials)
                imm.energy = {0, 1e12};
            result.models.push_back(std::move(m));
        }
        return result;
    }
    std::shared_ptr<celeritas::ImportedProcesses const>
    make_imported(std::vector<celeritas::ImportProcess> inp) const
    {
        return std::make_shared<celeritas::ImportedProcesses>(std::move(inp));
    }

    //// MATERIAL ////

    void set_material(celeritas::MaterialId id)
    {
        celeritas::MaterialTrackView::Initializer_t init;
        init.material_id = id;
        *mt_view_ = init;
    }
    bool set_material(std::string const& name)
    {
        auto id = material_params_->find_material(name);
        if (!id)
            return false;
        this->set_material(id);
        return true;
    }
    celeritas::MaterialTrackView& material_track() { return *mt_view_; }
    celeritas::MaterialView material_view() const { return mt_view_->make_material_view(); }
    celeritas::ElementView element_view(celeritas::ElementId id) const
    {
        return material_params_->get(id);
    }
    celeritas::CutoffView cutoff_view() const
    {
        return celeritas::CutoffView(cutoff_params_->host_ref(), mt_view_->material_id());
    }

    //// INCIDENT PARTICLE ////

    void set_inc_particle(celeritas::ParticleId id, MevEnergy energy)
    {
        celeritas::ParticleTrackView::Initializer_t init;
        init.particle_id = id;
        init.energy = energy;
        *pt_view_ = init;
    }
    void set_inc_particle(PDGNumber pdg, MevEnergy energy)
    {
        this->set_inc_particle(this->pid(pdg), energy);
    }
    celeritas::ParticleTrackView const& particle_track() const { return *pt_view_; }

    void set_inc_direction(Real3 const& d)
    {
        long double n = std::sqrt((long double)d[0] * d[0] + (long double)d[1] * d[1]
                                  + (long double)d[2] * d[2]);
        for (int i = 0; i < 3; ++i)
            inc_direction_[i] = double((long double)d[i] / n);
    }
    //! Store the direction exactly as given (caller guarantees | |d| - 1 | <~ 1e-15)
    void set_inc_direction_raw(Real3 const& d) { inc_direction_ = d; }
    Real3 const& direction() const { return inc_direction_; }

    //// SECONDARY STACK ////

    void resize_secondaries(size_type capacity)
    {
        sa_view_.reset();
        secondaries_ = StateStore<SecondaryStackData>(capacity);
        sa_view_.emplace(secondaries_.ref());
        occupied_ = 0;
    }
    size_type capacity() const { return sa_view_->capacity(); }
    //! Clear the stack and leave exactly n free slots (the rest holds a sentinel pattern)
    void set_free_slots(size_type n)
    {
        sa_view_->clear();
        size_type cap = sa_view_->capacity();
        if (n > cap)
            n = cap;
        occupied_ = cap - n;
        if (occupied_ > 0)
        {
            Secondary* s = (*sa_view_)(occupied_);
            for (size_type i = 0; i < occupied_; ++i)
                s[i] = sentinel(i);
        }
    }
    SecondaryAllocator& secondary_allocator() { return *sa_view_; }
    size_type stack_size() const { return sa_view_->size(); }
    size_type occupied() const { return occupied_; }
    bool sentinels_intact() const
    {
        auto all = const_cast<SecondaryAllocator&>(*sa_view_).get();
        if (all.size() < occupied_)
            return false;
        for (size_type i = 0; i < occupied_; ++i)
        {
            Secondary want = sentinel(i);
            if (all[i].particle_id != want.particle_id
                || all[i].energy.value() != want.energy.value()
                || all[i].direction[0] != want.direction[0]
                || all[i].direction[1] != want.direction[1]
                || all[i].direction[2] != want.direction[2])
                return false;
        }
        return true;
    }

  private:
    template<template<celeritas::Ownership, celeritas::MemSpace> class S>
    using StateStore = celeritas::CollectionStateStore<S, celeritas::MemSpace::host>;
    template<celeritas::Ownership W, celeritas::MemSpace M>
    using SecondaryStackData = celeritas::StackAllocatorData<Secondary, W, M>;

    static Secondary sentinel(size_type i)
    {
        Secondary s;
        s.particle_id = celeritas::ParticleId{7777u + i};
        s.energy = MevEnergy{-1234.5 - double(i)};
        s.direction = {9.0, -9.0, 0.25 + double(i)};
        return s;
    }

    std::shared_ptr<ParticleParams const> particle_params_;
    std::shared_ptr<MaterialParams const> material_params_;
    std::shared_ptr<CutoffParams const> cutoff_params_;
    StateStore<celeritas::MaterialStateData> ms_;
    StateStore<celeritas::ParticleStateData> ps_;
    StateStore<SecondaryStackData> secondaries_;
    Real3 inc_direction_{0, 0, 1};
    std::optional<celeritas::MaterialTrackView> mt_view_;
    std::optional<celeritas::ParticleTrackView> pt_view_;
    std::optional<SecondaryAllocator> sa_view_;
    size_type occupied_{0};
};

//---------------------------------------------------------------------------//
//! 6 axes + 8 cube diagonals (not yet normalised: pass through set_inc_direction)
inline std::vector<celeritas::Real3> const& axes_and_diagonals()
{
    static std::vector<celeritas::Real3> const d = [] {
        std::vector<celeritas::Real3> r = {{1, 0, 0}, {-1, 0, 0}, {0, 1, 0},
                                           {0, -1, 0}, {0, 0, 1}, {0, 0, -1}};
        for (int sx : {1, -1})
            for (int sy : {1, -1})
                for (int sz : {1, -1})
                    r.push_back({double(sx), double(sy), double(sz)});
        return r;
    }();
    return d;
}

//---------------------------------------------------------------------------//
/*!
 * Incident-energy alphabet on the closed interval [lo, hi] (0 < lo < hi), see top comment.
 * Thresholds outside (lo, hi) are ignored; the +-1 ulp neighbours are clipped to [lo, hi].
 */
inline std::vector<double> energy_alphabet(double lo, double hi, int n_interior,
                                           std::vector<double> const& thresholds = {})
{
    std::vector<double> e;
    auto add = [&](double v) {
        if (v >= lo && v <= hi)
            e.push_back(v);
    };
    add(lo);
    add(std::nextafter(lo, INFINITY));
    long double const llo = std::log((long double)lo), lhi = std::log((long double)hi);
    for (int i = 1; i <= n_interior; ++i)
        add(double(std::exp(llo + (lhi - llo) * i / (n_interior + 1))));
    for (double t : thresholds)
    {
        if (!(t > lo && t < hi))
            continue;
        add(std::nextafter(t, -INFINITY));
        add(t);
        add(std::nextafter(t, INFINITY));
    }
    add(std::nextafter(hi, -INFINITY));
    add(hi);
    std::sort(e.begin(), e.end());
    e.erase(std::unique(e.begin(), e.end()), e.end());
    return e;
}

//---------------------------------------------------------------------------//
struct Audit
{
    bool ok_values = true;  // finite/non-negative energies, unit directions, defined ids
    std::string what;  // first problem found (empty if ok_values)
    long double e_in = 0;  // incident kinetic energy (+ 2 m_e c^2 if a positron)
    long double e_out = 0;  // outgoing + secondaries + deposit (+ 2 m_e c^2 per positron)
    long double p_res = 0;  // | p_inc - sum p_products |
    long double p_scale = 0;  // |p_inc| + sum |p_products|
    long double inv_beta_sum = 0;  // sum of 1/beta over massive live products (beta > 0)
    long double max_dir_err = 0;  // max | |dir| - 1 | over live products
    // sum over live products of p_i * min(sqrt(2 d), d / sin(theta_i)), theta_i = angle to
    // the incident direction, d = cos_err passed to audit(): momentum error caused by an
    // absolute error d in a direction cosine (sin = sqrt(1 - cos^2) amplifies it near 0/pi)
    long double p_angle_slack = 0;
    int n_live = 0;  // surviving (particle_id valid) secondaries
    int n_slots = 0;  // size of the secondaries span
};

class Ledger
{
  public:
    explicit Ledger(InteractorEnv const& env) : pp_(env.particle_params())
    {
        positron_ = pp_->find(celeritas::pdg::positron());
        electron_ = pp_->find(celeritas::pdg::electron());
        if (electron_)
            me_ = pp_->get(electron_).mass().value();
        else if (positron_)
            me_ = pp_->get(positron_).mass().value();
        for (celeritas::size_type i = 0; i < pp_->size(); ++i)
            mass_.push_back(pp_->get(celeritas::ParticleId{i}).mass().value());
    }

    //! dir_tol: allowed | |d| - 1 | for a live product's direction
    Audit audit(celeritas::ParticleId inc_id,
                double inc_energy,
                celeritas::Real3 const& inc_dir,
                celeritas::Interaction const& r,
                long double dir_tol = 1e-12L,
                long double cos_err = 8 * 2.220446049250313e-16L) const
    {
        using Action = celeritas::Interaction::Action;
        Audit a;
        long double p[3] = {0, 0, 0};
        auto bad = [&](std::string const& s) {
            if (a.ok_values)
            {
                a.ok_values = false;
                a.what = s;
            }
        };
        auto momentum = [&](celeritas::ParticleId id, long double ke) {
            long double m = mass_[id.get()];
            return std::sqrt(ke * (ke + 2 * m));
        };
        auto add_product = [&](celeritas::ParticleId id, double ke, celeritas::Real3 const& d,
                               char const* who) {
            if (!(std::isfinite(ke) && ke >= 0))
            {
                bad(std::string(who) + " energy not finite/non-negative");
                return;
            }
            a.e_out += ke;
            if (id == positron_)
                a.e_out += 2 * me_;
            long double n2 = 0;
            for (int i = 0; i < 3; ++i)
            {
                if (!std::isfinite(d[i]))
                {
                    bad(std::string(who) + " direction not finite");
                    return;
                }
                n2 += (long double)d[i] * d[i];
            }
            long double derr = std::fabs(std::sqrt(n2) - 1);
            a.max_dir_err = std::max(a.max_dir_err, derr);
            if (derr > dir_tol)
                bad(std::string(who) + " direction not unit");
            long double pm = momentum(id, ke);
            for (int i = 0; i < 3; ++i)
                p[i] -= pm * d[i];
            a.p_scale += pm;
            long double m = mass_[id.get()];
            if (m > 0 && pm > 0)
                a.inv_beta_sum += (ke + m) / pm;
            {
                long double cx = (long double)d[1] * inc_dir[2] - (long double)d[2] * inc_dir[1];
                long double cy = (long double)d[2] * inc_dir[0] - (long double)d[0] * inc_dir[2];
                long double cz = (long double)d[0] * inc_dir[1] - (long double)d[1] * inc_dir[0];
                long double st = std::sqrt(cx * cx + cy * cy + cz * cz);
                long double lim = std::sqrt(2 * cos_err);
                a.p_angle_slack += pm * (st > 0 ? std::min(lim, cos_err / st) : lim);
            }
        };

        // incident
        a.e_in = inc_energy;
        if (inc_id == positron_)
            a.e_in += 2 * me_;
        {
            long double pm = momentum(inc_id, inc_energy);
            for (int i = 0; i < 3; ++i)
                p[i] += pm * inc_dir[i];
            a.p_scale += pm;
        }
        // deposit
        double dep = r.energy_deposition.value();
        if (!(std::isfinite(dep) && dep >= 0))
            bad("energy deposition not finite/non-negative");
        else
            a.e_out += dep;
        // primary
        if (r.action == Action::scattered)
        {
            add_product(inc_id, r.energy.value(), r.direction, "primary");
        }
        else if (r.action == Action::unchanged)
        {
            // No state change: the track keeps its incident energy and direction
            a.e_out += a.e_in;
            for (int i = 0; i < 3; ++i)
                p[i] = 0;
        }
        else if (r.action == Action::absorbed)
        {
            if (!(r.energy.value() == 0))
                bad("absorbed but post-interaction energy != 0");
        }
        // secondaries
        a.n_slots = int(r.secondaries.size());
        for (auto const& s : r.secondaries)
        {
            if (!s)
            {
                // killed in the interactor: must carry nothing
                if (!(s.energy.value() == 0))
                    bad("cleared secondary with non-zero energy");
                continue;
            }
            if (!(s.particle_id < pp_->size()))
            {
                bad("secondary particle id out of range");
                continue;
            }
            ++a.n_live;
            add_product(s.particle_id, s.energy.value(), s.direction, "secondary");
        }
        a.p_res = std::sqrt(p[0] * p[0] + p[1] * p[1] + p[2] * p[2]);
        return a;
    }

    long double electron_mass() const { return me_; }

  private:
    std::shared_ptr<celeritas::ParticleParams const> pp_;
    celeritas::ParticleId positron_, electron_;
    long double me_ = 0;
    std::vector<long double> mass_;
};

//---------------------------------------------------------------------------//
}  // namespace vf
