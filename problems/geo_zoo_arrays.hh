// Rectangular arrays with UNEQUAL cell counts per axis (zoo builtin 6).
//
// The bundled array inputs are 3x4x2 and 2x2x1: every index expression that confuses the axes
// (or an axis with the lower/upper plane index) is the identity there.  These worlds hold an
// nx x ny x nz array of cuboid cells (cell sizes differ per axis too) inside a box, written in the
// ORANGE JSON schema and read through the real reader.
#pragma once

#include <sstream>
#include <string>
#include <vector>

#include "orange/OrangeInput.hh"
#include "orange/OrangeInputIO.json.hh"

namespace vf
{
//---------------------------------------------------------------------------//
//! `shifted`: the grid starts at (-1.5, 0.25, -2) instead of the origin (array-local coordinates of
//! both signs, no plane at 0) and the cell widths alternate w, 1.5 w, w, ... (grid[i+1]-grid[i] is
//! not constant; the cell universe is unbounded outside its ball, so wider cells are valid).
inline std::string zoo_array_json(int nx, int ny, int nz, bool shifted = false)
{
    auto join = [](std::vector<double> const& v) {
        std::ostringstream os;
        os.precision(17);
        for (size_t i = 0; i < v.size(); ++i)
            os << (i ? "," : "") << v[i];
        return os.str();
    };
    // cell widths 1, 0.75, 1.25 along x, y, z: grid planes
    double const w[3] = {1.0, 0.75, 1.25};
    int const n[3] = {nx, ny, nz};
    double const org[3] = {shifted ? -1.5 : 0.0, shifted ? 0.25 : 0.0, shifted ? -2.0 : 0.0};
    double const wmax[3] = {w[0] * (shifted ? 1.5 : 1.0), w[1] * (shifted ? 1.5 : 1.0),
                            w[2] * (shifted ? 1.5 : 1.0)};
    std::vector<double> g[3];
    for (int a = 0; a < 3; ++a)
    {
        double x = org[a];
        g[a].push_back(x);
        for (int i = 0; i < n[a]; ++i)
        {
            x = shifted ? x + w[a] * (1 + 0.5 * (i % 2)) : (i + 1) * w[a];
            g[a].push_back(x);
        }
    }
    double const lo[3] = {g[0].front(), g[1].front(), g[2].front()};
    double const hi[3] = {g[0].back(), g[1].back(), g[2].back()};
    std::vector<double> tr;
    std::string daughters;
    for (int i = 0; i < nx; ++i)
        for (int j = 0; j < ny; ++j)
            for (int k = 0; k < nz; ++k)
            {
                tr.push_back(g[0][i]);
                tr.push_back(g[1][j]);
                tr.push_back(g[2][k]);
                daughters += (daughters.empty() ? "" : ",") + std::string("3");
            }
    std::ostringstream os;
    os.precision(17);
    double const W = 12;
    os << R"({"_format":"ORANGE","_version":0,"universes":[)";
    // universe 0: world box [-W,W]^3 with the array's box as a hole
    os << R"({"_type":"unit","bbox":[[)" << -W << "," << -W << "," << -W << "],[" << W << "," << W << ","
       << W << R"(]],"daughters":[1],"md":{"name":"world"},"parent_cells":[1],)"
       << R"("surface_labels":["o.mx","o.px","o.my","o.py","o.mz","o.pz","a.mx","a.px","a.my","a.py","a.mz","a.pz"],)"
       << R"("surfaces":{"data":[)" << -W << "," << W << "," << -W << "," << W << "," << -W << "," << W
       << "," << lo[0] << "," << hi[0] << "," << lo[1] << "," << hi[1] << "," << lo[2] << "," << hi[2]
       << R"(],"sizes":[1,1,1,1,1,1,1,1,1,1,1,1],)"
       << R"("types":["px","px","py","py","pz","pz","px","px","py","py","pz","pz"]},)"
       << R"("transforms":[[]],"volume_labels":["[EXTERIOR]","arrayhole","around"],"volumes":[)"
       << R"({"faces":[0,1,2,3,4,5],"flags":1,"logic":"0 1 ~ & 2 & 3 ~ & 4 & 5 ~ & ~"},)"
       << R"({"bbox":[[)" << lo[0] << "," << lo[1] << "," << lo[2] << "],[" << hi[0] << "," << hi[1] << "," << hi[2]
       << R"(]],"faces":[6,7,8,9,10,11],"logic":"0 1 ~ & 2 & 3 ~ & 4 & 5 ~ &"},)"
       << R"({"bbox":[[)" << -W << "," << -W << "," << -W << "],[" << W << "," << W << "," << W
       << R"(]],"faces":[0,1,2,3,4,5,6,7,8,9,10,11],"flags":1,)"
       << R"("logic":"0 1 ~ & 2 & 3 ~ & 4 & 5 ~ & 6 7 ~ & 8 & 9 ~ & 10 & 11 ~ & ~ &"}]},)";
    // universe 1: unit that holds the array
    os << R"({"_type":"unit","bbox":[[)" << lo[0] << "," << lo[1] << "," << lo[2] << "],[" << hi[0] << "," << hi[1] << "," << hi[2]
       << R"(]],"daughters":[2],"md":{"name":"arr"},"parent_cells":[1],)"
       << R"("surface_labels":[],"surfaces":{"data":[],"sizes":[],"types":[]},)"
       << R"("transforms":[[]],"volume_labels":["[EXTERIOR]","arr+"],"volumes":[)"
       << R"({"faces":[],"flags":2,"logic":"* ~","zorder":"x"},)"
       << R"({"bbox":[[)" << lo[0] << "," << lo[1] << "," << lo[2] << "],[" << hi[0] << "," << hi[1] << "," << hi[2]
       << R"(]],"faces":[],"logic":"*","zorder":"A"}]},)";
    // universe 2: the rectangular array
    os << R"({"_type":"rectarray","daughters":[)" << daughters << R"(],"md":{"name":"arr+"},"translations":[)"
       << join(tr) << R"(],"x":[)" << join(g[0]) << R"(],"y":[)" << join(g[1]) << R"(],"z":[)"
       << join(g[2]) << "]},";
    // universe 3: one cell (a sphere inside the cuboid, so that cells have interior structure)
    os << R"({"_type":"unit","bbox":[[0,0,0],[)" << wmax[0] << "," << wmax[1] << "," << wmax[2]
       << R"(]],"md":{"name":"cell"},"surface_labels":["ball"],)"
       << R"("surfaces":{"data":[0.5,0.375,0.625,0.09],"sizes":[4],"types":["s"]},)"
       << R"("volume_labels":["[EXTERIOR]","ball","cellfill"],"volumes":[)"
       << R"({"faces":[],"flags":2,"logic":"* ~","zorder":"x"},)"
       << R"({"bbox":[[0.2,0.075,0.325],[0.8,0.675,0.925]],"faces":[0],"logic":"0 ~"},)"
       << R"({"bbox":[[0,0,0],[)" << wmax[0] << "," << wmax[1] << "," << wmax[2]
       << R"(]],"faces":[0],"logic":"0"}]})";
    os << "]}";
    return os.str();
}

inline celeritas::OrangeInput zoo_array(int nx, int ny, int nz, bool shifted = false)
{
    celeritas::OrangeInput inp;
    std::istringstream is(zoo_array_json(nx, ny, nz, shifted));
    is >> inp;
    return inp;
}

//---------------------------------------------------------------------------//
}  // namespace vf
